//! Demonstrations, against the real code, of the genuine defects that are recorded as
//! known findings (not repaired). Copy to <conserve>/tests/ and run
//! `cargo test --test known_findings_demo --offline -- --test-threads 1`.
//! Every test PASSES when the defect is present (it asserts the faulty behaviour).

use std::fs;
use std::path::Path;
use std::sync::mpsc::{channel, Receiver, Sender};
use std::sync::{Arc, Mutex};

use conserve::monitor::task::Task;
use conserve::monitor::test::TestMonitor;
use conserve::monitor::Monitor;
use conserve::counters::Counter;
use conserve::*;

/// Run an async block on its own thread and runtime; true if it panicked.
fn panics<F, Fut>(f: F) -> bool
where
    F: FnOnce() -> Fut + Send + 'static,
    Fut: std::future::Future<Output = ()>,
{
    std::thread::spawn(move || {
        let rt = tokio::runtime::Builder::new_current_thread().enable_all().build().unwrap();
        rt.block_on(f());
    })
    .join()
    .is_err()
}

fn rewrite_first_hunk(archive_dir: &Path, band: &str, f: impl Fn(&mut serde_json::Value)) {
    let hunk = archive_dir.join(band).join("i/00000/000000000");
    let compressed = fs::read(&hunk).unwrap();
    let json = snap::raw::Decoder::new().decompress_vec(&compressed).unwrap();
    let mut v: serde_json::Value = serde_json::from_slice(&json).unwrap();
    f(&mut v);
    let out = snap::raw::Encoder::new().compress_vec(&serde_json::to_vec(&v).unwrap()).unwrap();
    fs::write(&hunk, out).unwrap();
}

async fn one_file_archive() -> (tempfile::TempDir, tempfile::TempDir, Archive) {
    let adir = tempfile::tempdir().unwrap();
    let sdir = tempfile::tempdir().unwrap();
    fs::write(sdir.path().join("hello"), b"hello world").unwrap();
    let archive = Archive::create_path(adir.path()).await.unwrap();
    backup(&archive, sdir.path(), &BackupOptions::default(), TestMonitor::arc()).await.unwrap();
    (adir, sdir, archive)
}

/// D11 (C10): out-of-range decoded mtime_nanos panics every reader of the entry's mtime.
#[tokio::test(flavor = "multi_thread")]
async fn d11_garbage_mtime_nanos_panics_restore() {
    let (adir, _sdir, archive) = one_file_archive().await;
    rewrite_first_hunk(adir.path(), "b0000", |v| {
        for e in v.as_array_mut().unwrap() {
            e["mtime_nanos"] = serde_json::json!(4_000_000_000u64);
        }
    });
    let dest = tempfile::tempdir().unwrap();
    let dp = dest.path().to_owned();
    assert!(
        panics(move || async move {
            let _ = restore(&archive, &dp, RestoreOptions::default(), TestMonitor::arc()).await;
        }),
        "restore is expected to panic today"
    );
}

/// D12 (C10): a decoded entry of kind Unknown panics diff (KindMetadata::from).
#[tokio::test(flavor = "multi_thread")]
async fn d12_unknown_kind_panics_diff() {
    let (adir, sdir, archive) = one_file_archive().await;
    rewrite_first_hunk(adir.path(), "b0000", |v| {
        for e in v.as_array_mut().unwrap() {
            if e["apath"] == "/hello" {
                e["kind"] = serde_json::json!("Unknown");
            }
        }
    });
    let sp = sdir.path().to_owned();
    assert!(
        panics(move || async move {
            let st = archive.open_stored_tree(BandSelectionPolicy::Latest).await.unwrap();
            let lt = SourceTree::open(&sp).unwrap();
            let mut d = diff(&st, &lt, DiffOptions { include_unchanged: true, ..Default::default() }, TestMonitor::arc())
                .await
                .unwrap();
            let _ = d.collect().await;
        }),
        "diff is expected to panic today"
    );
}

/// D12b (C10): a decoded symlink entry without a target panics diff.
#[tokio::test(flavor = "multi_thread")]
async fn d12b_symlink_without_target_panics_diff() {
    let (adir, sdir, archive) = one_file_archive().await;
    rewrite_first_hunk(adir.path(), "b0000", |v| {
        for e in v.as_array_mut().unwrap() {
            if e["apath"] == "/hello" {
                e["kind"] = serde_json::json!("Symlink");
                e.as_object_mut().unwrap().remove("addrs");
            }
        }
    });
    let sp = sdir.path().to_owned();
    assert!(
        panics(move || async move {
            let st = archive.open_stored_tree(BandSelectionPolicy::Latest).await.unwrap();
            let lt = SourceTree::open(&sp).unwrap();
            let mut d = diff(&st, &lt, DiffOptions { include_unchanged: true, ..Default::default() }, TestMonitor::arc())
                .await
                .unwrap();
            let _ = d.collect().await;
        }),
        "diff is expected to panic today"
    );
}

// ---- D13 (C06): gc and backup interleaved at two points -----------------------------------

struct HookMonitor {
    inner: TestMonitor,
    hook: Mutex<Option<Box<dyn FnMut(&str) + Send>>>,
}

impl Monitor for HookMonitor {
    fn count(&self, c: Counter, n: usize) {
        self.inner.count(c, n)
    }
    fn set_counter(&self, c: Counter, v: usize) {
        self.inner.set_counter(c, v)
    }
    fn error(&self, e: Error) {
        self.inner.error(e)
    }
    fn start_task(&self, name: String) -> Task {
        if let Some(h) = self.hook.lock().unwrap().as_mut() {
            h(&name);
        }
        self.inner.start_task(name)
    }
}

/// Schedule: backup reads "no lock" -> gc takes the lock, plans, passes its check ->
/// backup creates its band, lists the (still present) garbage block and deduplicates
/// against it -> gc deletes the block. Both succeed; the new complete band names a
/// missing block.
#[test]
fn d13_gc_and_backup_interleaving_loses_a_block() {
    let rt = tokio::runtime::Builder::new_multi_thread().enable_all().build().unwrap();
    let adir = tempfile::tempdir().unwrap();
    let s1 = tempfile::tempdir().unwrap();
    let s2 = tempfile::tempdir().unwrap();
    // version b0000 holds file `a` (content X); b0001 is empty. Deleting b0000 leaves X as garbage.
    let content: Vec<u8> = (0..3_000_000u32).map(|i| (i % 251) as u8).collect(); // > small_file_cap
    fs::write(s1.path().join("a"), &content).unwrap();
    let archive = rt.block_on(async {
        let archive = Archive::create_path(adir.path()).await.unwrap();
        backup(&archive, s1.path(), &BackupOptions::default(), TestMonitor::arc()).await.unwrap();
        backup(&archive, s2.path(), &BackupOptions::default(), TestMonitor::arc()).await.unwrap();
        archive
    });
    // the new source contains the same content again
    fs::write(s2.path().join("again"), &content).unwrap();

    let (gc_checked_tx, gc_checked_rx): (Sender<()>, Receiver<()>) = channel();
    let (backup_done_tx, backup_done_rx): (Sender<()>, Receiver<()>) = channel();
    let backup_done_rx = Arc::new(Mutex::new(backup_done_rx));

    // gc side: after its check it announces itself ("Delete bands" task) and waits for the backup
    let gc_monitor = Arc::new(HookMonitor {
        inner: TestMonitor::new(),
        hook: Mutex::new(Some(Box::new({
            let rx = backup_done_rx.clone();
            let tx = gc_checked_tx.clone();
            move |name: &str| {
                if name == "Delete bands" {
                    tx.send(()).unwrap();
                    rx.lock().unwrap().recv().unwrap();
                }
            }
        }))),
    });
    let archive_gc = archive.clone();
    let gc_started = Arc::new(Mutex::new(None::<std::thread::JoinHandle<DeleteStats>>));
    // backup side: right after its own lock check ("Backup" task) it lets the gc run up to its check
    let backup_monitor = Arc::new(HookMonitor {
        inner: TestMonitor::new(),
        hook: Mutex::new(Some(Box::new({
            let gc_started = gc_started.clone();
            let gc_checked_rx = Mutex::new(gc_checked_rx);
            move |name: &str| {
                if name == "Backup" {
                    let archive_gc = archive_gc.clone();
                    let gc_monitor = gc_monitor.clone();
                    let h = std::thread::spawn(move || {
                        let rt = tokio::runtime::Builder::new_current_thread().enable_all().build().unwrap();
                        rt.block_on(async move {
                            archive_gc
                                .delete_bands(&[BandId::new(&[0])], &DeleteOptions::default(), gc_monitor)
                                .await
                                .expect("gc succeeds")
                        })
                    });
                    *gc_started.lock().unwrap() = Some(h);
                    gc_checked_rx.lock().unwrap().recv().unwrap();
                }
            }
        }))),
    });
    let stats = rt
        .block_on(backup(&archive, s2.path(), &BackupOptions::default(), backup_monitor.clone()))
        .expect("backup succeeds");
    backup_done_tx.send(()).unwrap();
    let gc_stats = gc_started.lock().unwrap().take().unwrap().join().unwrap();
    assert_eq!(gc_stats.deleted_band_count, 1);
    assert!(gc_stats.deleted_block_count >= 1, "gc deleted the garbage block");
    assert!(stats.deduplicated_blocks >= 1, "backup deduplicated against the doomed block");
    // Both operations reported success, yet the newest complete version cannot be restored.
    let vm = TestMonitor::arc();
    rt.block_on(archive.validate(&ValidateOptions::default(), vm.clone())).unwrap();
    let errors = vm.take_errors();
    assert!(
        errors.iter().any(|e| matches!(e, Error::BlockMissing { .. })),
        "a complete band references a block the collector removed: {errors:?}"
    );
}

/// D15 (C07): the local transport completes a zero-length file on a create-new write (so that the
/// leftover of a killed write can be filled in). A concurrent writer that has just created the file
/// and not yet written its content looks exactly like such a leftover: the second create-new write
/// of the same path is then NOT refused. Schedule: A creates `b0000/BANDHEAD` (exclusive create, as
/// `Protocol::write` does) -> B's create-new write of the same path returns Ok -> A writes its
/// content. Both writers believe they own the band.
#[tokio::test]
async fn d15_create_new_write_is_not_refused_while_the_winner_is_mid_write() {
    use conserve::transport::{Transport, WriteMode};
    use std::io::Write;
    let dir = tempfile::tempdir().unwrap();
    fs::create_dir(dir.path().join("b0000")).unwrap();
    let head = dir.path().join("b0000/BANDHEAD");
    // Winner A: the first half of Protocol::write (exclusive create succeeded, content not yet written).
    let mut a = fs::OpenOptions::new().write(true).create_new(true).open(&head).unwrap();
    // Loser B: a complete create-new write through the real transport.
    let transport = Transport::local(dir.path());
    let b = transport
        .write("b0000/BANDHEAD", b"{\"start_time\":2}\n", WriteMode::CreateNew)
        .await;
    assert!(b.is_ok(), "the loser's create-new write of a path the winner already created is not refused: {b:?}");
    // A finishes its write: the file now holds a mixture, and both writers go on into the band.
    a.write_all(b"{\"start_time\":1}\n").unwrap();
    drop(a);
    // For comparison: once the winner's content is there the same write IS refused.
    let again = transport
        .write("b0000/BANDHEAD", b"{\"start_time\":3}\n", WriteMode::CreateNew)
        .await;
    assert!(again.is_err());
}
