//! Regression demonstrations for the defects repaired by the `fix:` commits in /repo: every test
//! FAILS on the pinned snapshot and PASSES on the repaired tree. Copy to <conserve>/tests/ and run
//! `cargo test --test fixed_defects_demo --offline`.
use std::os::unix::fs::PermissionsExt;
use conserve::monitor::test::TestMonitor;
use conserve::transport::{Transport, WriteMode};
use conserve::*;

#[tokio::test]
async fn t1_pre_epoch_fractional_mtime() {
    let src = tempfile::tempdir().unwrap();
    let f = src.path().join("old");
    std::fs::write(&f, b"x").unwrap();
    let ft = filetime::FileTime::from_unix_time(-2, 500_000_000);
    filetime::set_file_mtime(&f, ft).unwrap();
    let af = Archive::create_temp().await;
    let m = TestMonitor::arc();
    backup(&af, src.path(), &BackupOptions::default(), m.clone()).await.unwrap();
    m.assert_no_errors();
    let dst = tempfile::tempdir().unwrap();
    let m = TestMonitor::arc();
    restore(&af, dst.path(), RestoreOptions::default(), m.clone()).await.unwrap();
    m.assert_no_errors();
    let got = filetime::FileTime::from_last_modification_time(&std::fs::metadata(dst.path().join("old")).unwrap());
    assert_eq!(got, ft);
}

#[tokio::test]
async fn t2_setuid_kept() {
    let src = tempfile::tempdir().unwrap();
    let f = src.path().join("suid");
    std::fs::write(&f, b"x").unwrap();
    std::fs::set_permissions(&f, std::fs::Permissions::from_mode(0o4755)).unwrap();
    let af = Archive::create_temp().await;
    backup(&af, src.path(), &BackupOptions::default(), TestMonitor::arc()).await.unwrap();
    let dst = tempfile::tempdir().unwrap();
    restore(&af, dst.path(), RestoreOptions::default(), TestMonitor::arc()).await.unwrap();
    let mode = std::fs::metadata(dst.path().join("suid")).unwrap().permissions().mode() & 0o7777;
    assert_eq!(mode, 0o4755);
}

#[test]
fn t3_prefix_multibyte() {
    let a: Apath = "/é".into();
    assert!(a.is_prefix_of(&"/é/x".into()));
    assert!(!a.is_prefix_of(&"/éx/b".into()));
    assert!(!a.is_prefix_of(&"/éx".into()));
    assert!(a.is_prefix_of(&"/é".into()));
    assert!(Apath::root().is_prefix_of(&"/é".into()));
}

#[tokio::test]
async fn t4_create_new_refuses_existing() {
    let t = Transport::temp();
    t.write("f", b"one", WriteMode::CreateNew).await.unwrap();
    let r = t.write("f", b"two", WriteMode::CreateNew).await;
    assert!(r.is_err());
    assert_eq!(t.read("f").await.unwrap().as_ref(), b"one");
    t.write("e", b"", WriteMode::Overwrite).await.unwrap();
    t.write("e", b"filled", WriteMode::CreateNew).await.unwrap();
    assert_eq!(t.read("e").await.unwrap().as_ref(), b"filled");
}

#[tokio::test]
async fn t5_combiner() {
    let src = tempfile::tempdir().unwrap();
    std::fs::write(src.path().join("a"), b"AAA").unwrap();
    std::fs::write(src.path().join("b"), b"BBB").unwrap();
    std::fs::write(src.path().join("c"), b"CCCCCC").unwrap();
    let af = Archive::create_temp().await;
    let h = BlockHash::hash_bytes(b"AAABBB");
    let p = af.transport().local_path().unwrap().join("d").join(conserve::blockdir::block_relpath(&h));
    std::fs::create_dir_all(&p).unwrap();
    let o = BackupOptions { max_block_size: 5, small_file_cap: 10, ..BackupOptions::default() };
    let r = backup(&af, src.path(), &o, TestMonitor::arc()).await.unwrap();
    println!("errors={}", r.errors);
    let dst = tempfile::tempdir().unwrap();
    restore(&af, dst.path(), RestoreOptions::default(), TestMonitor::arc()).await.unwrap();
    for n in ["a","b","c"] { println!("{} -> {:?}", n, std::fs::read(dst.path().join(n)).map(|b| String::from_utf8_lossy(&b).to_string())); }
    assert_eq!(std::fs::read(dst.path().join("c")).unwrap(), b"CCCCCC");
    assert!(std::fs::read(dst.path().join("a")).map(|b| b == b"AAA").unwrap_or(true));
}

#[tokio::test]
async fn t6_gc_unreadable_hunk() {
    let src = tempfile::tempdir().unwrap();
    std::fs::write(src.path().join("a"), b"some content here").unwrap();
    let af = Archive::create_temp().await;
    backup(&af, src.path(), &BackupOptions::default(), TestMonitor::arc()).await.unwrap();
    std::fs::write(af.transport().local_path().unwrap().join("b0000/i/00000/000000000"), b"garbage garbage").unwrap();
    let r = af.delete_bands(&[], &DeleteOptions::default(), TestMonitor::arc()).await;
    println!("gc -> {:?}", r.as_ref().map(|s| s.deleted_block_count).map_err(|e| e.to_string()));
    assert!(r.is_err());
    assert_eq!(af.block_dir().await.unwrap().blocks().len(), 1);
}

#[tokio::test]
async fn t7_validate_hunks() {
    let src = tempfile::tempdir().unwrap();
    for i in 0..6 { std::fs::write(src.path().join(format!("f{i}")), format!("content {i}")).unwrap(); }
    let af = Archive::create_temp().await;
    backup(&af, src.path(), &BackupOptions{max_entries_per_hunk: 2, ..BackupOptions::default()}, TestMonitor::arc()).await.unwrap();
    let m = TestMonitor::arc();
    af.validate(&ValidateOptions::default(), m.clone()).await.unwrap();
    assert_eq!(m.take_errors().len(), 0);
    let idir = af.transport().local_path().unwrap().join("b0000/i/00000");
    std::fs::write(idir.join("000000002"), b"junk").unwrap();
    let m = TestMonitor::arc();
    af.validate(&ValidateOptions::default(), m.clone()).await.unwrap();
    let n = m.take_errors().len(); println!("garbage hunk errors {n}"); assert!(n > 0);
    std::fs::remove_file(idir.join("000000002")).unwrap();
    std::fs::remove_file(idir.join("000000001")).unwrap();
    let m = TestMonitor::arc();
    af.validate(&ValidateOptions::default(), m.clone()).await.unwrap();
    let n = m.take_errors().len(); println!("missing hunk errors {n}"); assert!(n > 0);
}

#[tokio::test]
async fn t8_garbage_band_version() {
    let src = tempfile::tempdir().unwrap();
    std::fs::write(src.path().join("a"), b"x").unwrap();
    let af = Archive::create_temp().await;
    backup(&af, src.path(), &BackupOptions::default(), TestMonitor::arc()).await.unwrap();
    std::fs::write(af.transport().local_path().unwrap().join("b0000/BANDHEAD"), br#"{"start_time":1,"band_format_version":"zz"}"#).unwrap();
    let m = TestMonitor::arc();
    af.validate(&ValidateOptions::default(), m.clone()).await.unwrap();
    assert!(m.take_errors().len() > 0);
}


/// D9: a failing directory listing of the basis band's index no longer panics the backup.
#[tokio::test(flavor = "multi_thread")]
async fn t9_unlistable_basis_index_does_not_panic() {
    let adir = tempfile::tempdir().unwrap();
    let sdir = tempfile::tempdir().unwrap();
    std::fs::write(sdir.path().join("hello"), b"hello world").unwrap();
    let archive = Archive::create_path(adir.path()).await.unwrap();
    backup(&archive, sdir.path(), &BackupOptions::default(), TestMonitor::arc()).await.unwrap();
    std::fs::remove_dir_all(adir.path().join("b0000/i")).unwrap();
    std::fs::write(adir.path().join("b0000/i"), b"not a directory").unwrap();
    let m = TestMonitor::arc();
    let r = backup(&archive, sdir.path(), &BackupOptions::default(), m.clone()).await;
    assert!(r.is_ok(), "the basis is unreadable, the files are stored again: {r:?}");
    assert!(!m.take_errors().is_empty(), "the unreadable basis index is reported");
}
