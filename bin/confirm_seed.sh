#!/bin/bash
# confirm_seed.sh <ID> <worktree>: confirm a seeded change myself: suite passes with it, demo fails with it, demo passes without it.
ID=$1; WT=${2:-/tmp/seed/$ID}; export CARGO_TARGET_DIR=$WT-target
cd $WT || exit 2
demo=$(ls tests | grep -i "seed_" | head -1 | sed 's/\.rs$//')
echo "== $ID demo=$demo"
git diff --stat -- src | tail -1
echo "-- suite with change"
cargo nextest run --workspace --no-fail-fast --offline -E "not binary(=$demo)" 2>&1 | grep -E "Summary|FAIL " | sort -u | head -5
echo "-- demo with change (expect failure)"
cargo test --offline --test $demo 2>&1 | grep -E "^test result|^test .*FAILED|error(\[|:)" | head -5
git diff -- src > /tmp/confirm_$ID.diff; git apply -R /tmp/confirm_$ID.diff
echo "-- demo without change (expect pass)"
cargo test --offline --test $demo 2>&1 | grep -E "^test result|^test .*FAILED|error(\[|:)" | head -5
git apply /tmp/confirm_$ID.diff; rm -f /tmp/confirm_$ID.diff
