#!/opt/veriftools/pyvenv/bin/python
import json, sys, glob, jsonschema
jsonschema.validate(json.load(open('/verif/MANIFEST.json')), json.load(open('/root/.vp/MANIFEST.schema.json')))
es = json.load(open('/root/.vp/EVIDENCE.schema.json'))
for f in sorted(glob.glob('/verif/evidence/C*.json')):
    if f.endswith('.violations.json'): continue
    jsonschema.validate(json.load(open(f)), es)
print('manifest + %d evidence files valid' % len([f for f in glob.glob('/verif/evidence/C*.json') if not f.endswith('.violations.json')]))
