#!/bin/bash
# process_seed4.sh <ID>: confirm both variants of a round-4 agent, store them as seeded/<ID>-d (A) and <ID>-e (B), blind-run all checks on a scratch copy
ID=$1
for V in A B; do
  suf=d; [ $V = B ] && suf=e
  out=$(/verif/bin/confirm_seed2.sh $ID $V 2>&1)
  echo "$out" | grep -E "^==|Summary|^test result|does not apply|error" | cut -c1-170
  d=/verif/seeded/$ID-$suf; mkdir -p $d
  cp /tmp/seed/$ID/OUT/$V/patch.diff $d/; cp /tmp/seed/$ID/OUT/$V/NOTES.md $d/ 2>/dev/null; cp /tmp/seed/$ID/OUT/$V/seed_*.rs $d/
  echo "-- blind run $ID-$suf"
  /verif/bin/try_patch.sh $d/patch.diff 2>&1 | grep -E "^  violation|extract.*FAIL" | sort -u | cut -c1-230
done
