#!/bin/bash
# scratch_patch.sh <patch> <name>: apply a patch to a scratch copy of /repo under /tmp/cv-dbg/<name> and print the directory (development aid; remove the directory afterwards).
p=$(readlink -f "$1"); d=/tmp/cv-dbg/${2:-x}; rm -rf $d; mkdir -p $d
cp -a /repo/src /repo/Cargo.toml /repo/Cargo.lock $d/ ; [ -d /repo/doc ] && cp -a /repo/doc $d/
(cd $d && patch -p1 -s --no-backup-if-mismatch -i "$p") || { echo "patch does not apply"; rm -rf $d; exit 2; }
echo $d
