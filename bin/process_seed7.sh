#!/bin/bash
# process_seed7.sh <ID>: round 7 - confirm the breaking variant A (stored as <ID>-h), confirm the two neutral
# refactorings N1/N2 against the suite + demo (stored as selftest/benign/r7_<ID>_N<k>.patch); the checks themselves
# are run afterwards, one extraction at a time (selftest/run.py --only r7_ ; bin/run_seeded.py).
ID=$1; WT=/tmp/seed/$ID; export CARGO_TARGET_DIR=$WT-target
out=$(/verif/bin/confirm_seed2.sh $ID A 2>&1)
echo "$out" | grep -E "^==|Summary|^test result|does not apply" | cut -c1-170
d=/verif/seeded/$ID-h; mkdir -p $d
cp $WT/OUT/A/patch.diff $d/; cp $WT/OUT/A/NOTES.md $d/ 2>/dev/null; cp $WT/OUT/A/seed_*.rs $d/
for k in 1 2; do
  if [ -f $WT/OUT/N$k/patch.diff ]; then
    cd $WT; git checkout -q -- src; rm -f tests/seed_*.rs
    git apply OUT/N$k/patch.diff || { echo "N$k does not apply"; continue; }
    cp OUT/A/seed_*.rs tests/ 2>/dev/null
    echo "== $ID/N$k neutral: $(git diff --stat -- src | tail -1)"
    cargo nextest run --workspace --no-fail-fast --offline 2>&1 | grep -E "Summary|FAIL " | sort -u | head -6
    git checkout -q -- src; rm -f tests/seed_*.rs
    (printf "# property: all\n# expect: \n# desc: (round-7 agent, neutral refactoring %s N%s)\n" $ID $k; cat OUT/N$k/patch.diff) > /verif/selftest/benign/r7_${ID}_N$k.patch
    mkdir -p /tmp/seed/notes7; cp OUT/N$k/NOTES.md /tmp/seed/notes7/${ID}_N$k.md 2>/dev/null
  fi
done
