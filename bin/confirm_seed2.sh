#!/bin/bash
# confirm_seed2.sh <ID> <variant>: confirm variant A|B left by a round-4 agent in /tmp/seed/<ID>/OUT/<variant>/{patch.diff,seed_*.rs}
ID=$1; V=$2; WT=/tmp/seed/$ID; export CARGO_TARGET_DIR=$WT-target
cd $WT || exit 2
git checkout -q -- src; rm -f tests/seed_*.rs
demo_src=$(ls OUT/$V/seed_*.rs | head -1); demo=$(basename $demo_src .rs)
cp $demo_src tests/
git apply OUT/$V/patch.diff || { echo "patch does not apply"; exit 2; }
echo "== $ID/$V demo=$demo"; git diff --stat -- src | tail -1
echo "-- suite with change"
cargo nextest run --workspace --no-fail-fast --offline -E "not binary(=$demo)" 2>&1 | grep -E "Summary|FAIL " | sort -u | head -5
echo "-- demo with change (expect failure)"
cargo test --offline --test $demo 2>&1 | grep -E "^test result|error(\[|:)" | head -3
git apply -R OUT/$V/patch.diff
echo "-- demo without change (expect pass)"
cargo test --offline --test $demo 2>&1 | grep -E "^test result|error(\[|:)" | head -3
rm -f tests/seed_*.rs
