#!/bin/bash
# run_all.sh [tier]: run every check (in parallel), print the summary line of each and all failures.
cd "$(dirname "$0")/.."
tier=${1:-quick}
tmp=$(mktemp -d)
for i in $(seq -w 1 18); do
  ( ./check C$i --tier $tier > $tmp/C$i.log 2>&1; echo $? > $tmp/C$i.rc ) &
done
wait
rc=0
for i in $(seq -w 1 18); do
  grep -E "^  FAIL|^         ->|^  violation|^KNOWN-FINDING|^VIOLATION" $tmp/C$i.log | cut -c1-400
  tail -n 3 $tmp/C$i.log | grep -E "^C$i:" 
  [ "$(cat $tmp/C$i.rc)" != "0" ] && rc=1
done
rm -rf $tmp
exit $rc
