#!/bin/bash
# process_seed8.sh <ID>: round 9 (neutral only, measurement) - re-run the suite with each refactoring N1/N2 and stage it as selftest/benign/r9_<ID>_N<k>.patch
ID=$1; WT=/tmp/seed/$ID; export CARGO_TARGET_DIR=$WT-target
for k in 1 2; do
  if [ -f $WT/OUT/N$k/patch.diff ]; then
    cd $WT; git checkout -q -- src; rm -f tests/seed_*.rs
    git apply OUT/N$k/patch.diff || { echo "$ID N$k does not apply"; continue; }
    echo "== $ID/N$k neutral: $(git diff --stat -- src | tail -1)"
    cargo nextest run --workspace --no-fail-fast --offline 2>&1 | grep -E "Summary|FAIL " | sort -u | head -6
    git checkout -q -- src
    (printf "# property: all\n# expect: \n# desc: (round-9 agent, substantial neutral refactoring %s N%s)\n" $ID $k; cat OUT/N$k/patch.diff) > /verif/selftest/r9-staging/r9_${ID}_N$k.patch
  fi
done
