#!/usr/bin/env python3
"""Apply each seeded change to /repo, run every check (evidence redirected to a scratch dir),
record which checks report a violation, and undo the change straight afterwards."""
import json, os, re, subprocess, sys, tempfile, shutil
VERIF = os.path.dirname(os.path.dirname(os.path.abspath(__file__)))
ALL = ["C%02d" % i for i in range(1, 19)]
args_ = [a for a in sys.argv[1:] if a != "--scratch"]
SCRATCH = "--scratch" in sys.argv[1:]      # analyse a scratch copy of /repo with the change applied, leaving /repo alone
only = args_[0] if args_ else None
res = {}
st = subprocess.run(["git", "-C", "/repo", "status", "--porcelain", "--untracked-files=no"], stdout=subprocess.PIPE, text=True).stdout.strip()
if st:
    sys.exit("/repo has uncommitted changes: refusing to run")
for name in sorted(os.listdir(os.path.join(VERIF, "seeded"))):
    d = os.path.join(VERIF, "seeded", name)
    patch = os.path.join(d, "patch.diff")
    if not os.path.exists(patch) or (only and not re.search(only, name)):
        continue
    scratch = None
    if SCRATCH:
        scratch = tempfile.mkdtemp(prefix="cv-seedscratch-")
        for item in ("src", "Cargo.toml", "Cargo.lock", "doc"):
            sp = os.path.join("/repo", item)
            if os.path.isdir(sp):
                shutil.copytree(sp, os.path.join(scratch, item))
            elif os.path.exists(sp):
                shutil.copy2(sp, os.path.join(scratch, item))
        r = subprocess.run(["patch", "-p1", "-s", "--no-backup-if-mismatch", "-i", patch], cwd=scratch, stdout=subprocess.PIPE, stderr=subprocess.STDOUT, text=True)
    else:
        r = subprocess.run(["git", "-C", "/repo", "apply", patch], stdout=subprocess.PIPE, stderr=subprocess.STDOUT, text=True)
    if r.returncode != 0:
        res[name] = {"status": "patch does not apply", "detail": r.stdout[-300:]}
        print(name, "patch does not apply")
        continue
    ev = tempfile.mkdtemp(prefix="cv-seeded-")
    caught = {}
    try:
        def one(pid):
            env = dict(os.environ, CV_EVIDENCE_DIR=ev)
            if scratch:
                env["CV_REPO"] = scratch
            rr = subprocess.run([os.path.join(VERIF, "check"), pid], cwd=VERIF, env=env, stdout=subprocess.PIPE, stderr=subprocess.STDOUT, text=True)
            return pid, rr.returncode, re.findall(r"^  violation: (.*)$", rr.stdout, re.M)
        # the first check extracts the facts of the patched tree, the others reuse them in parallel
        from concurrent.futures import ThreadPoolExecutor
        results = [one(ALL[0])]
        with ThreadPoolExecutor(max_workers=12) as ex:
            results += list(ex.map(one, ALL[1:]))
        for pid, code, keys in results:
            if code != 0:
                caught[pid] = keys
    finally:
        if scratch:
            shutil.rmtree(scratch, ignore_errors=True)
        else:
            subprocess.run(["git", "-C", "/repo", "checkout", "--", "."], check=True)
        shutil.rmtree(ev, ignore_errors=True)
    res[name] = {"caught_by": caught}
    print("%-12s %s" % (name, {k: v[:2] for k, v in caught.items()} or "NOT CAUGHT"))
json.dump(res, open(os.path.join(VERIF, "seeded", "last_run_scratch.json" if SCRATCH else "last_run.json"), "w"), indent=1)
