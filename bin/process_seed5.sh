#!/bin/bash
# process_seed5.sh <ID>: round 5 - confirm variants A/B (stored as <ID>-f / <ID>-g), check the neutral variant N (stored as selftest/benign/n_<ID>.patch)
ID=$1; WT=/tmp/seed/$ID; export CARGO_TARGET_DIR=$WT-target
for V in A B; do
  suf=f; [ $V = B ] && suf=g
  out=$(/verif/bin/confirm_seed2.sh $ID $V 2>&1)
  echo "$out" | grep -E "^==|Summary|^test result|does not apply" | cut -c1-170
  d=/verif/seeded/$ID-$suf; mkdir -p $d
  cp $WT/OUT/$V/patch.diff $d/; cp $WT/OUT/$V/NOTES.md $d/ 2>/dev/null; cp $WT/OUT/$V/seed_*.rs $d/
  echo "-- blind run $ID-$suf"
  /verif/bin/try_patch.sh $d/patch.diff 2>&1 | grep -E "^  violation|extract.*FAIL" | sort -u | cut -c1-230
done
if [ -f $WT/OUT/N/patch.diff ]; then
  cd $WT; git checkout -q -- src; rm -f tests/seed_*.rs
  git apply OUT/N/patch.diff || echo "N does not apply"
  cp OUT/A/seed_*.rs OUT/B/seed_*.rs tests/ 2>/dev/null
  echo "== $ID/N neutral: $(git diff --stat -- src | tail -1)"
  cargo nextest run --workspace --no-fail-fast --offline 2>&1 | grep -E "Summary|FAIL " | sort -u | head -6
  git checkout -q -- src; rm -f tests/seed_*.rs
  (printf "# property: all\n# expect: \n# desc: (round-5 agent, neutral refactoring for %s)\n" $ID; cat OUT/N/patch.diff) > /verif/selftest/benign/n_$ID.patch
  echo "-- checks on the neutral variant (expect silence)"
  /verif/bin/try_patch.sh OUT/N/patch.diff 2>&1 | grep -E "^  violation|extract.*FAIL|does not apply" | sort -u | cut -c1-230
fi
