#!/bin/sh
# Run the repository's baseline suite (offline) and print the summary; exit 0 iff 212 passed and only source_unreadable failed.
cd /repo && cargo nextest run --workspace --no-fail-fast --tool-config-file pb:/w/lib/nextest.toml --profile pb --test-threads 8 --offline 2>&1 | grep -E "Summary|FAIL|error\[|^error" | sort -u | head -20
