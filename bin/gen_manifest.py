#!/usr/bin/env python3
"""Regenerate MANIFEST.json from the property modules under analysis/props."""
import importlib
import json
import os
import sys

HERE = os.path.dirname(os.path.dirname(os.path.abspath(__file__)))
sys.path.insert(0, os.path.join(HERE, "analysis"))

props = [json.loads(l) for l in open(os.path.join(HERE, "properties.jsonl"))]
checks = []
na = []
for p in props:
    pid = p["id"]
    try:
        mod = importlib.import_module("props." + pid)
    except ImportError:
        na.append({"property_id": pid, "reason": "check not built yet (work in progress; see DESIGN.md section 4 for the planned rules)"})
        continue
    if getattr(mod, "NOT_APPLICABLE", None):
        na.append({"property_id": pid, "reason": mod.NOT_APPLICABLE})
        continue
    checks.append({
        "property_id": pid,
        "quick_cmd": "./check %s --tier quick" % pid,
        "thorough_cmd": "./check %s --tier thorough" % pid,
        "evidence_file": "/verif/evidence/%s.json" % pid,
        "replay_cmd_template": "./check %s --tier quick" % pid,
        "engine": "cvfacts+rules",
        "level_claimed": {
            "category": "other",
            "text": getattr(mod, "LEVEL_TEXT", "") or (
                "Static analysis of the MIR of the current tree: structural necessary conditions of the property "
                "(listed as obligations in the evidence) are decided on every path of the control-flow graph and every "
                "caller in the call graph. It decides those clauses, not the behavioural property as a whole."),
            "design_ref": "DESIGN.md section 4, " + pid,
        },
        "level_note": getattr(mod, "LEVEL_NOTE", "") or (
            "Trusted: rustc MIR construction and callee resolution, the cvfacts serialisation, the effect table for external "
            "APIs; covers lib+bin with default features on Linux (cfg(test), cfg(windows) not analysed). "
            "Undecided clauses are listed in the evidence file."),
        "technique": getattr(mod, "TECHNIQUE", "static analysis: custom MIR dataflow / dominance / call-graph rules (rustc_private driver)"),
    })

manifest = {
    "version": 1,
    "setup_cmd": "./setup.sh",
    "hooks": {
        "guard": "none (no hooks: the analyses read the unmodified source through a rustc wrapper)",
        "enable": "RUSTC_WORKSPACE_WRAPPER=/verif/driver/target/release/cvfacts cargo +nightly check (see analysis/cv/extract.py); nothing is compiled into conserve",
        "baseline_off_cmd": "cd /repo && cargo nextest run --workspace --no-fail-fast --tool-config-file pb:/w/lib/nextest.toml --profile pb --test-threads 8 --offline",
        "source_commits": [],
        "add_only": True,
    },
    "engines": [
        {"name": "cvfacts", "path": "/verif/driver", "serves_properties": [c["property_id"] for c in checks],
         "kind_free_text": "rustc_private driver (nightly) overriding the mir_built query; dumps MIR bodies, resolved callees, ADTs, constants as JSON"},
        {"name": "rules", "path": "/verif/analysis", "serves_properties": [c["property_id"] for c in checks],
         "kind_free_text": "Python analysis library: CFG, edge-deletion dominance, call graph + effect summaries, provenance slices, taint, predicate shapes; one rule module per property"},
    ],
    "checks": checks,
    "not_applicable": na,
    "notes": "Static analysis only. Known findings are in /verif/known_findings.json; seeded breaking changes in /verif/seeded; "
             "checker self-validation (mutants that must be reported, benign edits that must not) in /verif/selftest.",
}
if os.path.exists(os.path.join(HERE, "hooks.json")):
    manifest["hooks"].update(json.load(open(os.path.join(HERE, "hooks.json"))))
json.dump(manifest, open(os.path.join(HERE, "MANIFEST.json"), "w"), indent=1)
print("claimed:", [c["property_id"] for c in checks])
print("not applicable:", [n["property_id"] for n in na])
