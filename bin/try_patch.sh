#!/bin/bash
# try_patch.sh <patch> [Cxx ...]: apply a patch to a scratch copy of /repo (outside /repo and /verif), run checks on it, delete it.
p=$(readlink -f "$1"); shift
d=/tmp/cv-try/$$; rm -rf $d; mkdir -p $d
cp -a /repo/src /repo/Cargo.toml /repo/Cargo.lock $d/ ; [ -d /repo/doc ] && cp -a /repo/doc $d/
(cd $d && patch -p1 -s --no-backup-if-mismatch -i "$p") || { echo "patch does not apply"; rm -rf $d; exit 2; }
cd "$(dirname "$0")/.."
checks=${@:-$(seq -f "C%02g" 1 18)}
for c in $checks; do
  CV_REPO=$d CV_EVIDENCE_DIR=$d/evidence ./check $c 2>&1 | grep -E "^  violation|^C[0-9]+:|extract" | cut -c1-300
done
rm -rf $d
