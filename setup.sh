#!/bin/sh
# Build the fact extractor and warm the dependency cache (offline).
set -e
cd "$(dirname "$0")"
export CARGO_NET_OFFLINE=true
(cd driver && cargo build --release --offline)
python3 analysis/cv/extract.py default
