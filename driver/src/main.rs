//! cvfacts: a rustc_private driver that dumps `mir_built` bodies of the crate being
//! compiled as JSON facts for the static analyses in /verif/analysis.
//!
//! Used as RUSTC_WORKSPACE_WRAPPER: argv[1] is the real rustc path and is dropped.
//! Output: $CVFACTS_OUT/<crate>-<kind>.json, one write per process.
#![feature(rustc_private)]
#![allow(clippy::all)]

extern crate rustc_abi;
extern crate rustc_ast;
extern crate rustc_data_structures;
extern crate rustc_driver;
extern crate rustc_hir;
extern crate rustc_interface;
extern crate rustc_middle;
extern crate rustc_session;
extern crate rustc_span;

use std::fmt::Write as _;
use std::sync::Mutex;

use rustc_driver::{Callbacks, Compilation};
use rustc_hir::def::DefKind;
use rustc_hir::def_id::{DefId, LocalDefId};
use rustc_interface::interface;
use rustc_middle::mir::*;
use rustc_middle::ty::print::{with_no_trimmed_paths, PrintTraitRefExt};
use rustc_middle::ty::{self, Instance, Ty, TyCtxt};
use rustc_span::Span;

static BODIES: Mutex<Vec<String>> = Mutex::new(Vec::new());

fn esc(s: &str) -> String {
    let mut o = String::with_capacity(s.len() + 2);
    o.push('"');
    for c in s.chars() {
        match c {
            '"' => o.push_str("\\\""),
            '\\' => o.push_str("\\\\"),
            '\n' => o.push_str("\\n"),
            '\r' => o.push_str("\\r"),
            '\t' => o.push_str("\\t"),
            c if (c as u32) < 0x20 => {
                let _ = write!(o, "\\u{:04x}", c as u32);
            }
            c => o.push(c),
        }
    }
    o.push('"');
    o
}

fn opt_s(s: Option<String>) -> String {
    match s {
        Some(s) => esc(&s),
        None => "null".to_string(),
    }
}

fn dp(tcx: TyCtxt<'_>, did: DefId) -> String {
    with_no_trimmed_paths!(tcx.def_path_str(did))
}

fn tys(ty: Ty<'_>) -> String {
    with_no_trimmed_paths!(format!("{}", ty))
}

fn is_str_like(ty: Ty<'_>) -> bool {
    match ty.kind() {
        ty::Ref(_, inner, _) => match inner.kind() {
            ty::Str => true,
            ty::Slice(e) => matches!(e.kind(), ty::Uint(ty::UintTy::U8)),
            _ => false,
        },
        _ => false,
    }
}

struct Cx<'a, 'tcx> {
    tcx: TyCtxt<'tcx>,
    body: &'a Body<'tcx>,
    env: ty::TypingEnv<'tcx>,
}

impl<'a, 'tcx> Cx<'a, 'tcx> {
    fn line(&self, sp: Span) -> usize {
        let sm = self.tcx.sess.source_map();
        let sp = sp.source_callsite();
        sm.lookup_char_pos(sp.lo()).line
    }

    fn span_info(&self, sp: Span) -> String {
        // line of the outermost call site, whether from expansion, outermost macro name
        let from_exp = sp.from_expansion();
        let mut mac = None;
        if from_exp {
            let mut s = sp;
            loop {
                let d = s.ctxt().outer_expn_data();
                if d.is_root() {
                    break;
                }
                mac = Some(format!("{}", d.kind.descr()));
                s = d.call_site;
            }
        }
        format!(
            "\"line\":{},\"exp\":{},\"mac\":{}",
            self.line(sp),
            from_exp,
            opt_s(mac)
        )
    }

    fn place(&self, p: &Place<'tcx>) -> String {
        let mut o = String::new();
        let _ = write!(o, "{{\"l\":{},\"p\":[", p.local.as_usize());
        let mut pty = rustc_middle::mir::PlaceTy::from_ty(self.body.local_decls[p.local].ty);
        let mut first = true;
        for elem in p.projection.iter() {
            if !first {
                o.push(',');
            }
            first = false;
            match elem {
                ProjectionElem::Deref => o.push_str("\"*\""),
                ProjectionElem::Field(f, _) => {
                    let mut name = None;
                    if let ty::Adt(adt, _) = pty.ty.kind() {
                        let v = match pty.variant_index {
                            Some(v) => Some(adt.variant(v)),
                            None => {
                                if adt.is_enum() {
                                    None
                                } else {
                                    Some(adt.non_enum_variant())
                                }
                            }
                        };
                        if let Some(v) = v {
                            if f.as_usize() < v.fields.len() {
                                name = Some(v.fields[f].name.to_string());
                            }
                        }
                    }
                    let _ = write!(
                        o,
                        "{}",
                        esc(&format!(
                            "f:{}:{}",
                            f.as_usize(),
                            name.unwrap_or_default()
                        ))
                    );
                }
                ProjectionElem::Downcast(name, idx) => {
                    let n = name
                        .map(|s| s.to_string())
                        .unwrap_or_else(|| format!("{}", idx.as_usize()));
                    let _ = write!(o, "{}", esc(&format!("dc:{}", n)));
                }
                ProjectionElem::Index(l) => {
                    let _ = write!(o, "{}", esc(&format!("idx:{}", l.as_usize())));
                }
                ProjectionElem::ConstantIndex { .. } => o.push_str("\"cidx\""),
                ProjectionElem::Subslice { .. } => o.push_str("\"sub\""),
                _ => o.push_str("\"other\""),
            }
            pty = pty.projection_ty(self.tcx, elem);
        }
        o.push_str("]}");
        o
    }

    fn operand(&self, op: &Operand<'tcx>) -> String {
        match op {
            Operand::Copy(p) => format!("{{\"k\":\"copy\",\"pl\":{}}}", self.place(p)),
            Operand::Move(p) => format!("{{\"k\":\"move\",\"pl\":{}}}", self.place(p)),
            Operand::Constant(c) => self.constant(c),
            #[allow(unreachable_patterns)]
            _ => "{\"k\":\"other\"}".to_string(),
        }
    }

    fn constant(&self, c: &ConstOperand<'tcx>) -> String {
        let ty = c.const_.ty();
        let mut o = String::new();
        let _ = write!(o, "{{\"k\":\"const\",\"ty\":{}", esc(&tys(ty)));
        match ty.kind() {
            ty::FnDef(did, args) => {
                let _ = write!(o, ",\"fn\":{}", esc(&dp(self.tcx, *did)));
                let _ = write!(
                    o,
                    ",\"fnargs\":{}",
                    esc(&with_no_trimmed_paths!(format!("{:?}", args)))
                );
            }
            ty::Closure(did, _) | ty::Coroutine(did, _) | ty::CoroutineClosure(did, _) => {
                let _ = write!(o, ",\"closure\":{}", esc(&dp(self.tcx, *did)));
            }
            _ => {}
        }
        match c.const_ {
            Const::Unevaluated(uv, _) => {
                let _ = write!(o, ",\"uneval\":{}", esc(&dp(self.tcx, uv.def)));
                if uv.promoted.is_some() {
                    o.push_str(",\"promoted\":true");
                }
            }
            Const::Val(val, vty) => {
                if let Some(si) = val.try_to_scalar_int() {
                    let bits = si.to_bits_unchecked();
                    let _ = write!(o, ",\"int\":{}", esc(&format!("{}", bits)));
                    if vty.is_bool() {
                        let _ = write!(o, ",\"bool\":{}", bits != 0);
                    }
                } else if matches!(val, ConstValue::Slice { .. }) && is_str_like(vty) {
                    if let Some(bytes) = val.try_get_slice_bytes_for_diagnostics(self.tcx) {
                        if let Ok(s) = std::str::from_utf8(bytes) {
                            let _ = write!(o, ",\"str\":{}", esc(s));
                        }
                    }
                } else if let ConstValue::Scalar(rustc_middle::mir::interpret::Scalar::Ptr(
                    ptr,
                    _,
                )) = val
                {
                    // pointer to a static, or to a byte-array literal (format_args! templates)
                    let (prov, offset) = ptr.into_raw_parts();
                    let alloc_id = prov.alloc_id();
                    match self.tcx.try_get_global_alloc(alloc_id) {
                        Some(rustc_middle::mir::interpret::GlobalAlloc::Static(sdid)) => {
                            let _ = write!(o, ",\"static\":{}", esc(&dp(self.tcx, sdid)));
                        }
                        Some(rustc_middle::mir::interpret::GlobalAlloc::Memory(mem)) => {
                            if let ty::Ref(_, inner, _) = vty.kind() {
                                if let ty::Array(elem, _) = inner.kind() {
                                    if matches!(elem.kind(), ty::Uint(ty::UintTy::U8)) {
                                        let a = mem.inner();
                                        let start = offset.bytes() as usize;
                                        let len = a.len();
                                        if start <= len && a.provenance().ptrs().is_empty() {
                                            let bytes = a.inspect_with_uninit_and_ptr_outside_interpreter(start..len);
                                            let mut hex = String::new();
                                            for b in bytes {
                                                let _ = write!(hex, "{:02x}", b);
                                            }
                                            let _ = write!(o, ",\"bytes\":{}", esc(&hex));
                                        }
                                    }
                                }
                            }
                        }
                        _ => {}
                    }
                }
            }
            Const::Ty(cty, ct) => {
                // a constant of a pattern (`matches!(s, "" | "." | "..")`): a valtree, not an evaluated allocation
                if is_str_like(cty) {
                    if let Some(v) = ct.try_to_value() {
                        if let Some(bytes) = v.try_to_raw_bytes(self.tcx) {
                            if let Ok(s) = std::str::from_utf8(bytes) {
                                let _ = write!(o, ",\"str\":{}", esc(s));
                            }
                        }
                    }
                }
            }
        }
        o.push('}');
        o
    }

    fn rvalue(&self, rv: &Rvalue<'tcx>) -> String {
        let mut o = String::new();
        let ops = |v: Vec<String>| format!("[{}]", v.join(","));
        match rv {
            Rvalue::Use(op, ..) => {
                let _ = write!(o, "{{\"rk\":\"use\",\"ops\":{}}}", ops(vec![self.operand(op)]));
            }
            Rvalue::Repeat(op, _) => {
                let _ = write!(
                    o,
                    "{{\"rk\":\"repeat\",\"ops\":{}}}",
                    ops(vec![self.operand(op)])
                );
            }
            Rvalue::Ref(_, bk, p) => {
                let m = match bk {
                    BorrowKind::Mut { .. } => "mut",
                    BorrowKind::Shared => "shared",
                    BorrowKind::Fake(_) => "fake",
                };
                let _ = write!(
                    o,
                    "{{\"rk\":\"ref\",\"bk\":\"{}\",\"pl\":{}}}",
                    m,
                    self.place(p)
                );
            }
            Rvalue::RawPtr(_, p) => {
                let _ = write!(o, "{{\"rk\":\"rawptr\",\"pl\":{}}}", self.place(p));
            }
            Rvalue::Cast(kind, op, ty) => {
                let _ = write!(
                    o,
                    "{{\"rk\":\"cast\",\"ck\":{},\"to\":{},\"ops\":{}}}",
                    esc(&format!("{:?}", kind)),
                    esc(&tys(*ty)),
                    ops(vec![self.operand(op)])
                );
            }
            Rvalue::BinaryOp(op, b) => {
                let (l, r) = &**b;
                let _ = write!(
                    o,
                    "{{\"rk\":\"binop\",\"op\":{},\"ops\":{}}}",
                    esc(&format!("{:?}", op)),
                    ops(vec![self.operand(l), self.operand(r)])
                );
            }
            Rvalue::UnaryOp(op, x) => {
                let _ = write!(
                    o,
                    "{{\"rk\":\"unop\",\"op\":{},\"ops\":{}}}",
                    esc(&format!("{:?}", op)),
                    ops(vec![self.operand(x)])
                );
            }
            Rvalue::Discriminant(p) => {
                let _ = write!(o, "{{\"rk\":\"discr\",\"pl\":{}}}", self.place(p));
            }
            Rvalue::Aggregate(kind, fields) => {
                let fops: Vec<String> = fields.iter().map(|f| self.operand(f)).collect();
                match &**kind {
                    AggregateKind::Adt(did, vidx, _, _, active) => {
                        let adt = self.tcx.adt_def(*did);
                        let v = adt.variant(*vidx);
                        let names: Vec<String> = if let Some(a) = active {
                            vec![esc(v.fields[*a].name.as_str())]
                        } else {
                            v.fields.iter().map(|f| esc(f.name.as_str())).collect()
                        };
                        let _ = write!(
                            o,
                            "{{\"rk\":\"agg\",\"ak\":\"adt\",\"adt\":{},\"variant\":{},\"vidx\":{},\"fields\":[{}],\"ops\":{}}}",
                            esc(&dp(self.tcx, *did)),
                            esc(v.name.as_str()),
                            vidx.as_usize(),
                            names.join(","),
                            ops(fops)
                        );
                    }
                    AggregateKind::Closure(did, _)
                    | AggregateKind::Coroutine(did, _)
                    | AggregateKind::CoroutineClosure(did, _) => {
                        let _ = write!(
                            o,
                            "{{\"rk\":\"agg\",\"ak\":\"closure\",\"closure\":{},\"ops\":{}}}",
                            esc(&dp(self.tcx, *did)),
                            ops(fops)
                        );
                    }
                    AggregateKind::Tuple => {
                        let _ = write!(o, "{{\"rk\":\"agg\",\"ak\":\"tuple\",\"ops\":{}}}", ops(fops));
                    }
                    AggregateKind::Array(_) => {
                        let _ = write!(o, "{{\"rk\":\"agg\",\"ak\":\"array\",\"ops\":{}}}", ops(fops));
                    }
                    _ => {
                        let _ = write!(o, "{{\"rk\":\"agg\",\"ak\":\"other\",\"ops\":{}}}", ops(fops));
                    }
                }
            }
            Rvalue::CopyForDeref(p) => {
                let _ = write!(
                    o,
                    "{{\"rk\":\"use\",\"ops\":[{{\"k\":\"copy\",\"pl\":{}}}]}}",
                    self.place(p)
                );
            }
            Rvalue::ThreadLocalRef(did) => {
                let _ = write!(o, "{{\"rk\":\"tls\",\"def\":{}}}", esc(&dp(self.tcx, *did)));
            }
            other => {
                let _ = write!(
                    o,
                    "{{\"rk\":\"other\",\"dbg\":{}}}",
                    esc(&with_no_trimmed_paths!(format!("{:?}", other)))
                );
            }
        }
        o
    }

    fn statement(&self, st: &Statement<'tcx>) -> Option<String> {
        match &st.kind {
            StatementKind::Assign(b) => {
                let (p, rv) = &**b;
                Some(format!(
                    "{{\"sk\":\"assign\",\"pl\":{},\"rv\":{},{}}}",
                    self.place(p),
                    self.rvalue(rv),
                    self.span_info(st.source_info.span)
                ))
            }
            StatementKind::SetDiscriminant { place, variant_index } => Some(format!(
                "{{\"sk\":\"setdiscr\",\"pl\":{},\"v\":{}}}",
                self.place(place),
                variant_index.as_usize()
            )),
            _ => None,
        }
    }

    fn callee(&self, func: &Operand<'tcx>) -> String {
        // declared + resolved callee
        let fty = func.ty(&self.body.local_decls, self.tcx);
        let mut o = String::new();
        match fty.kind() {
            ty::FnDef(did, args) => {
                let _ = write!(o, "\"callee\":{}", esc(&dp(self.tcx, *did)));
                let _ = write!(
                    o,
                    ",\"cargs\":{}",
                    esc(&with_no_trimmed_paths!(format!("{:?}", args)))
                );
                // self type of a method call (first generic arg for trait methods)
                if let Some(tr) = self.tcx.trait_of_assoc(*did) {
                    let _ = write!(o, ",\"trait\":{}", esc(&dp(self.tcx, tr)));
                    if let Some(st) = args.types().next() {
                        let _ = write!(o, ",\"self_ty\":{}", esc(&tys(st)));
                    }
                }
                let resolved = match Instance::try_resolve(self.tcx, self.env, *did, args) {
                    Ok(Some(inst)) => Some(inst),
                    _ => None,
                };
                match resolved {
                    Some(inst) => {
                        let rdid = inst.def_id();
                        let kind = match inst.def {
                            ty::InstanceKind::Item(_) => "item",
                            ty::InstanceKind::Virtual(..) => "virtual",
                            ty::InstanceKind::Intrinsic(_) => "intrinsic",
                            ty::InstanceKind::ClosureOnceShim { .. } => "closure_once",
                            ty::InstanceKind::FnPtrShim(..) => "fnptr_shim",
                            ty::InstanceKind::DropGlue(..) => "drop_glue",
                            ty::InstanceKind::CloneShim(..) => "clone_shim",
                            _ => "other",
                        };
                        let _ = write!(
                            o,
                            ",\"resolved\":{},\"rkind\":\"{}\",\"rargs\":{}",
                            esc(&dp(self.tcx, rdid)),
                            kind,
                            esc(&with_no_trimmed_paths!(format!("{:?}", inst.args)))
                        );
                    }
                    None => {
                        o.push_str(",\"resolved\":null");
                    }
                }
            }
            ty::FnPtr(..) => {
                let _ = write!(o, "\"callee\":null,\"fnptr\":{}", self.operand(func));
            }
            _ => {
                let _ = write!(
                    o,
                    "\"callee\":null,\"indirect\":{},\"fty\":{}",
                    self.operand(func),
                    esc(&tys(fty))
                );
            }
        }
        o
    }

    fn terminator(&self, t: &Terminator<'tcx>) -> String {
        let si = self.span_info(t.source_info.span);
        let bb = |b: BasicBlock| b.as_usize();
        let unwind = |u: &UnwindAction| match u {
            UnwindAction::Cleanup(b) => format!("{}", b.as_usize()),
            _ => "null".to_string(),
        };
        match &t.kind {
            TerminatorKind::Goto { target } => {
                format!("{{\"tk\":\"goto\",\"t\":{},{}}}", bb(*target), si)
            }
            TerminatorKind::SwitchInt { discr, targets } => {
                let mut arms = Vec::new();
                for (v, b) in targets.iter() {
                    arms.push(format!("[{},{}]", esc(&format!("{}", v)), bb(b)));
                }
                format!(
                    "{{\"tk\":\"switch\",\"discr\":{},\"arms\":[{}],\"otherwise\":{},{}}}",
                    self.operand(discr),
                    arms.join(","),
                    bb(targets.otherwise()),
                    si
                )
            }
            TerminatorKind::Return => format!("{{\"tk\":\"return\",{}}}", si),
            TerminatorKind::Unreachable => format!("{{\"tk\":\"unreachable\",{}}}", si),
            TerminatorKind::UnwindResume => format!("{{\"tk\":\"resume\",{}}}", si),
            TerminatorKind::UnwindTerminate(_) => format!("{{\"tk\":\"terminate\",{}}}", si),
            TerminatorKind::CoroutineDrop => format!("{{\"tk\":\"cordrop\",{}}}", si),
            TerminatorKind::Drop { place, target, unwind: u, .. } => format!(
                "{{\"tk\":\"drop\",\"pl\":{},\"t\":{},\"unwind\":{},\"ty\":{},{}}}",
                self.place(place),
                bb(*target),
                unwind(u),
                esc(&tys(place.ty(&self.body.local_decls, self.tcx).ty)),
                si
            ),
            TerminatorKind::Call { func, args, destination, target, unwind: u, .. } => {
                let a: Vec<String> = args.iter().map(|x| self.operand(&x.node)).collect();
                let at: Vec<String> = args
                    .iter()
                    .map(|x| esc(&tys(x.node.ty(&self.body.local_decls, self.tcx))))
                    .collect();
                format!(
                    "{{\"tk\":\"call\",{},\"args\":[{}],\"argtys\":[{}],\"dest\":{},\"t\":{},\"unwind\":{},{}}}",
                    self.callee(func),
                    a.join(","),
                    at.join(","),
                    self.place(destination),
                    target.map(|b| format!("{}", bb(b))).unwrap_or("null".into()),
                    unwind(u),
                    si
                )
            }
            TerminatorKind::TailCall { func, args, .. } => {
                let a: Vec<String> = args.iter().map(|x| self.operand(&x.node)).collect();
                format!(
                    "{{\"tk\":\"tailcall\",{},\"args\":[{}],{}}}",
                    self.callee(func),
                    a.join(","),
                    si
                )
            }
            TerminatorKind::Assert { cond, expected, msg, target, unwind: u } => {
                let (mk, mops): (String, Vec<String>) = match &**msg {
                    AssertKind::BoundsCheck { len, index } => (
                        "BoundsCheck".into(),
                        vec![self.operand(len), self.operand(index)],
                    ),
                    AssertKind::Overflow(op, a, b) => (
                        format!("Overflow:{:?}", op),
                        vec![self.operand(a), self.operand(b)],
                    ),
                    AssertKind::OverflowNeg(a) => ("OverflowNeg".into(), vec![self.operand(a)]),
                    AssertKind::DivisionByZero(a) => {
                        ("DivisionByZero".into(), vec![self.operand(a)])
                    }
                    AssertKind::RemainderByZero(a) => {
                        ("RemainderByZero".into(), vec![self.operand(a)])
                    }
                    other => (format!("{:?}", std::mem::discriminant(other)), vec![]),
                };
                format!(
                    "{{\"tk\":\"assert\",\"cond\":{},\"expected\":{},\"msg\":{},\"mops\":[{}],\"t\":{},\"unwind\":{},{}}}",
                    self.operand(cond),
                    expected,
                    esc(&mk),
                    mops.join(","),
                    bb(*target),
                    unwind(u),
                    si
                )
            }
            TerminatorKind::Yield { value, resume, resume_arg, drop } => format!(
                "{{\"tk\":\"yield\",\"value\":{},\"t\":{},\"resume_arg\":{},\"drop\":{},{}}}",
                self.operand(value),
                bb(*resume),
                self.place(resume_arg),
                drop.map(|b| format!("{}", bb(b))).unwrap_or("null".into()),
                si
            ),
            TerminatorKind::FalseEdge { real_target, imaginary_target } => format!(
                "{{\"tk\":\"goto\",\"t\":{},\"imag\":{},{}}}",
                bb(*real_target),
                bb(*imaginary_target),
                si
            ),
            TerminatorKind::FalseUnwind { real_target, .. } => {
                format!("{{\"tk\":\"goto\",\"t\":{},\"fu\":true,{}}}", bb(*real_target), si)
            }
            TerminatorKind::InlineAsm { .. } => format!("{{\"tk\":\"asm\",{}}}", si),
        }
    }
}

fn dump_body<'tcx>(tcx: TyCtxt<'tcx>, def: LocalDefId, body: &Body<'tcx>) -> String {
    let did = def.to_def_id();
    let env = ty::TypingEnv::post_analysis(tcx, did);
    let cx = Cx { tcx, body, env };
    let dk = tcx.def_kind(did);
    let kind = match dk {
        DefKind::Fn => "fn",
        DefKind::AssocFn => "assoc_fn",
        DefKind::Closure => {
            if tcx.is_coroutine(did) {
                "coroutine"
            } else {
                "closure"
            }
        }
        DefKind::Const { .. } | DefKind::AssocConst { .. } => "const",
        DefKind::Static { .. } => "static",
        DefKind::AnonConst | DefKind::InlineConst => "anon_const",
        _ => "other",
    };
    let parent = tcx.opt_parent(did).map(|p| dp(tcx, p));
    // typeck root (the enclosing fn for closures)
    let root = tcx.typeck_root_def_id(did);
    let sm = tcx.sess.source_map();
    let sp = body.span;
    let lo = sm.lookup_char_pos(sp.lo());
    let hi = sm.lookup_char_pos(sp.hi());
    let file = format!("{}", lo.file.name.prefer_local_unconditionally());
    // impl info
    let mut self_ty = None;
    let mut trait_ref = None;
    let mut is_assoc = false;
    if matches!(tcx.def_kind(root), DefKind::AssocFn | DefKind::AssocConst { .. }) {
        is_assoc = true;
        if let Some(impl_did) = tcx.impl_of_assoc(root) {
            self_ty = Some(tys(tcx.type_of(impl_did).instantiate_identity().skip_norm_wip()));
            if tcx.impl_opt_trait_ref(impl_did).is_some() {
                let tr = tcx.impl_trait_ref(impl_did).instantiate_identity().skip_norm_wip();
                trait_ref = Some(with_no_trimmed_paths!(format!("{}", tr.print_only_trait_path())));
            }
        }
    }
    let vis = if matches!(dk, DefKind::Fn | DefKind::AssocFn) {
        Some(format!("{:?}", tcx.visibility(did)))
    } else {
        None
    };
    // expansion of the definition span (derives)
    let def_span = tcx.def_span(root);
    let mut def_mac = None;
    if def_span.from_expansion() {
        let d = def_span.ctxt().outer_expn_data();
        def_mac = Some(format!("{}:{}", d.kind.descr(), match d.kind {
            rustc_span::ExpnKind::Macro(k, _) => format!("{:?}", k),
            _ => "x".to_string(),
        }));
    }
    let mut o = String::new();
    let _ = write!(
        o,
        "{{\"def\":{},\"kind\":\"{}\",\"parent\":{},\"root\":{},\"file\":{},\"lo\":{},\"hi\":{},\"self_ty\":{},\"trait\":{},\"assoc\":{},\"vis\":{},\"def_mac\":{},\"arg_count\":{},\"ret\":{}",
        esc(&dp(tcx, did)),
        kind,
        opt_s(parent),
        esc(&dp(tcx, root)),
        esc(&file),
        lo.line,
        hi.line,
        opt_s(self_ty),
        opt_s(trait_ref),
        is_assoc,
        opt_s(vis),
        opt_s(def_mac),
        body.arg_count,
        esc(&tys(body.local_decls[RETURN_PLACE].ty)),
    );
    // locals
    o.push_str(",\"locals\":[");
    for (i, d) in body.local_decls.iter().enumerate() {
        if i > 0 {
            o.push(',');
        }
        let _ = write!(o, "{}", esc(&tys(d.ty)));
    }
    o.push_str("],\"vars\":[");
    let mut first = true;
    for v in body.var_debug_info.iter() {
        if let VarDebugInfoContents::Place(p) = &v.value {
            if !first {
                o.push(',');
            }
            first = false;
            let _ = write!(
                o,
                "{{\"name\":{},\"pl\":{},\"arg\":{}}}",
                esc(v.name.as_str()),
                cx.place(p),
                v.argument_index.map(|a| a as i64).unwrap_or(-1)
            );
        }
    }
    o.push_str("],\"blocks\":[");
    for (i, (_bb, data)) in body.basic_blocks.iter_enumerated().enumerate() {
        if i > 0 {
            o.push(',');
        }
        let stmts: Vec<String> = data.statements.iter().filter_map(|s| cx.statement(s)).collect();
        let _ = write!(
            o,
            "{{\"cleanup\":{},\"stmts\":[{}],\"term\":{}}}",
            data.is_cleanup,
            stmts.join(","),
            cx.terminator(data.terminator())
        );
    }
    o.push_str("]}");
    o
}

fn dump_items(tcx: TyCtxt<'_>) -> String {
    // ADTs, consts and statics of the local crate
    let mut adts = Vec::new();
    let mut consts = Vec::new();
    let mut impls = Vec::new();
    for ldid in tcx.hir_crate_items(()).definitions() {
        let did = ldid.to_def_id();
        match tcx.def_kind(did) {
            DefKind::Struct | DefKind::Enum | DefKind::Union => {
                let adt = tcx.adt_def(did);
                let mut vs = Vec::new();
                for v in adt.variants().iter() {
                    let fs: Vec<String> = v
                        .fields
                        .iter()
                        .map(|f| {
                            format!(
                                "{{\"name\":{},\"ty\":{}}}",
                                esc(f.name.as_str()),
                                esc(&tys(tcx.type_of(f.did).instantiate_identity().skip_norm_wip()))
                            )
                        })
                        .collect();
                    vs.push(format!(
                        "{{\"name\":{},\"fields\":[{}]}}",
                        esc(v.name.as_str()),
                        fs.join(",")
                    ));
                }
                adts.push(format!(
                    "{{\"path\":{},\"enum\":{},\"variants\":[{}]}}",
                    esc(&dp(tcx, did)),
                    adt.is_enum(),
                    vs.join(",")
                ));
            }
            DefKind::Const { .. } | DefKind::Static { .. } => {
                // literal initialisers from HIR; otherwise try const-eval to a scalar
                let mut val = None;
                let mut kind = "none";
                if let Some(body_id) = tcx.hir_node_by_def_id(ldid).body_id() {
                    let body = tcx.hir_body(body_id);
                    let mut e = body.value;
                    loop {
                        match e.kind {
                            rustc_hir::ExprKind::AddrOf(_, _, inner) => e = inner,
                            rustc_hir::ExprKind::Block(b, _) if b.stmts.is_empty() && b.expr.is_some() => {
                                e = b.expr.unwrap()
                            }
                            _ => break,
                        }
                    }
                    if let rustc_hir::ExprKind::Lit(lit) = e.kind {
                        match lit.node {
                            rustc_ast::LitKind::Str(s, _) => {
                                val = Some(s.to_string());
                                kind = "str";
                            }
                            rustc_ast::LitKind::Int(n, _) => {
                                val = Some(format!("{}", n.get()));
                                kind = "int";
                            }
                            rustc_ast::LitKind::Bool(b) => {
                                val = Some(format!("{}", b));
                                kind = "bool";
                            }
                            _ => {}
                        }
                    }
                }
                if val.is_none() && matches!(tcx.def_kind(did), DefKind::Const { .. }) {
                    if tcx.generics_of(did).is_empty() {
                        if let Ok(cv) = tcx.const_eval_poly(did) {
                            if let Some(si) = cv.try_to_scalar_int() {
                                val = Some(format!("{}", si.to_bits_unchecked()));
                                kind = "int";
                            } else if matches!(cv, ConstValue::Slice { .. })
                                && is_str_like(tcx.type_of(did).instantiate_identity().skip_norm_wip())
                            {
                                if let Some(bytes) = cv.try_get_slice_bytes_for_diagnostics(tcx) {
                                    if let Ok(s) = std::str::from_utf8(bytes) {
                                        val = Some(s.to_string());
                                        kind = "str";
                                    }
                                }
                            }
                        }
                    }
                }
                consts.push(format!(
                    "{{\"path\":{},\"kind\":\"{}\",\"val\":{},\"ty\":{}}}",
                    esc(&dp(tcx, did)),
                    kind,
                    opt_s(val),
                    esc(&tys(tcx.type_of(did).instantiate_identity().skip_norm_wip()))
                ));
            }
            DefKind::Impl { of_trait } => {
                let st = tys(tcx.type_of(did).instantiate_identity().skip_norm_wip());
                let tr = if of_trait {
                    let tr = tcx.impl_trait_ref(did).instantiate_identity().skip_norm_wip();
                    Some(with_no_trimmed_paths!(format!("{}", tr.print_only_trait_path())))
                } else {
                    None
                };
                let sp = tcx.def_span(did);
                let mut mac = None;
                if sp.from_expansion() {
                    let d = sp.ctxt().outer_expn_data();
                    mac = Some(format!("{}", d.kind.descr()));
                }
                let items: Vec<String> = tcx
                    .associated_item_def_ids(did)
                    .iter()
                    .map(|i| esc(&dp(tcx, *i)))
                    .collect();
                impls.push(format!(
                    "{{\"self_ty\":{},\"trait\":{},\"mac\":{},\"items\":[{}]}}",
                    esc(&st),
                    opt_s(tr),
                    opt_s(mac),
                    items.join(",")
                ));
            }
            _ => {}
        }
    }
    format!(
        "\"adts\":[{}],\"consts\":[{}],\"impls\":[{}]",
        adts.join(","),
        consts.join(","),
        impls.join(",")
    )
}

struct Cb;

impl Callbacks for Cb {
    fn config(&mut self, config: &mut interface::Config) {
        config.override_queries = Some(|_sess, providers| {
            providers.queries.mir_built = |tcx, def| {
                let steal =
                    (rustc_interface::passes::DEFAULT_QUERY_PROVIDERS.queries.mir_built)(tcx, def);
                {
                    let body = steal.borrow();
                    let s = dump_body(tcx, def, &body);
                    BODIES.lock().unwrap().push(s);
                }
                steal
            };
        });
    }

    fn after_analysis<'tcx>(
        &mut self,
        _compiler: &interface::Compiler,
        tcx: TyCtxt<'tcx>,
    ) -> Compilation {
        let out_dir = match std::env::var("CVFACTS_OUT") {
            Ok(d) => d,
            Err(_) => return Compilation::Continue,
        };
        let crate_name = tcx.crate_name(rustc_hir::def_id::LOCAL_CRATE).to_string();
        let ctypes: Vec<String> =
            tcx.crate_types().iter().map(|c| format!("{:?}", c)).collect();
        let kind = if ctypes.iter().any(|c| c == "Executable") { "bin" } else { "lib" };
        let nonce = std::env::var("CVFACTS_NONCE").unwrap_or_default();
        let cfg_test = tcx.sess.opts.test;
        let debug_assertions = tcx.sess.opts.debug_assertions;
        let bodies = std::mem::take(&mut *BODIES.lock().unwrap());
        let mut o = String::new();
        let _ = write!(
            o,
            "{{\"crate\":{},\"kind\":\"{}\",\"nonce\":{},\"test\":{},\"debug_assertions\":{},\"n_bodies\":{},{},\"bodies\":[\n",
            esc(&crate_name),
            kind,
            esc(&nonce),
            cfg_test,
            debug_assertions,
            bodies.len(),
            dump_items(tcx)
        );
        o.push_str(&bodies.join(",\n"));
        o.push_str("\n]}\n");
        let suffix = if cfg_test { "-test" } else { "" };
        let path = format!("{}/{}-{}{}.json", out_dir, crate_name, kind, suffix);
        let tmp = format!("{}.tmp.{}", path, std::process::id());
        std::fs::write(&tmp, o).expect("write facts");
        std::fs::rename(&tmp, &path).expect("rename facts");
        Compilation::Continue
    }
}

fn main() {
    let mut args: Vec<String> = std::env::args().collect();
    // RUSTC_WORKSPACE_WRAPPER: argv[1] is the path of the real rustc.
    if args.len() > 1 && (args[1].ends_with("rustc") || args[1].contains("/rustc")) {
        args.remove(1);
    }
    // Only instrument when asked to and when compiling the target crate.
    let want = std::env::var("CVFACTS_CRATE").unwrap_or_else(|_| "conserve".to_string());
    let mut is_target = false;
    let mut i = 0;
    while i < args.len() {
        if args[i] == "--crate-name" && i + 1 < args.len() {
            is_target = want.split(',').any(|w| w == args[i + 1]);
        }
        i += 1;
    }
    if is_target && std::env::var("CVFACTS_OUT").is_ok() {
        rustc_driver::run_compiler(&args, &mut Cb);
    } else {
        struct Nop;
        impl Callbacks for Nop {}
        rustc_driver::run_compiler(&args, &mut Nop);
    }
}
