"""Rule instances shared between properties (each property evaluates them itself)."""
import re

from cv import flow, pred, rules
from cv.rules import events_of

COPY_FILE = "backup::BackupWriter::copy_file"
HEUR = "backup::content_heuristically_unchanged"


def reuse_sites(w):
    """IndexEntry constructions in copy_file whose addrs derive from the basis entry."""
    lib = w.lib
    cfb = w.body(COPY_FILE)
    out = []
    for bb, j, s in rules.agg_sites(cfb, "index::entry::IndexEntry"):
        aop = rules.field_operand(s, "addrs")
        orig = flow.origins_x(lib, cfb, aop)
        params = {(p[1], tuple(p[2])) for p in orig if p[0] == "param"}
        if params and all(p[0] == "basis_entry" and "addrs" in p[1] for p in params):
            out.append((bb, s, orig))
    return cfb, out


def presence_tests(w, cfb):
    """`.all(|a| block_dir.contains(&a.hash))` events over the basis entry's addrs."""
    lib = w.lib
    out = []
    for e in cfb.events:
        if e.bb in cfb.live and (e.callee or "") == "std::iter::Iterator::all":
            recv = flow.origins_x(lib, cfb, e.args[0], through_calls=[r"<impl \[T\]>::iter$"])
            over_basis = any(x[0] == "param" and x[1] == "basis_entry" and "addrs" in x[2] for x in recv)
            closure_ok = False
            for a in e.args[1:]:
                for oo in flow.origins(cfb, a):
                    if oo[0] == "agg" and oo[1] in lib.bodies:
                        cb = lib.bodies[oo[1]]
                        cont = events_of(lib, cb, "blockdir::BlockDir::contains")
                        if cont:
                            # the closure may return true only if contains(element.hash) was true
                            arg_from = flow.origins_x(lib, cb, cont[0].args[1])
                            if any(x[0] == "param" and "hash" in x[2] for x in arg_from) and _true_implies_call(lib, cb, "contains"):
                                closure_ok = True
            if over_basis and closure_ok:
                out.append(e)
    # second idiom: a named predicate `fn ..(.., basis_entry) -> bool` of the crate that is true only if every address'
    # block is present - written with all(), or as a loop that returns false at the first absent block
    for e in cfb.events:
        if e.bb not in cfb.live or e.callee == rules.POLL:
            continue
        tgt = e.resolved or e.callee or ""
        fb = lib.bodies.get(tgt)
        if fb is None or (fb.ret or "") != "bool" or not fb.file.startswith("src/") or e in out:
            continue
        if _presence_predicate(w, fb) and any(
                any(x[0] in ("param", "upvar") and x[1] == "basis_entry" for x in flow.origins_x(lib, cfb, a)) for a in e.args):
            out.append(e)
    return out


def _presence_predicate(w, fb):
    """Is bool-returning body `fb` 'all blocks of the given entry are present'?"""
    lib = w.lib
    inner = [x for x in presence_tests_in(w, fb)]
    if inner:
        # returns exactly the result of an all(contains) test
        ret = flow.origins_x(lib, fb, 0)
        return any(x[0] == "call" and re.search(r"Iterator>?::all$", x[1]) for x in ret) and not [x for x in ret if x[0] in ("arith",)]
    cont = events_of(lib, fb, "blockdir::BlockDir::contains")
    nxt = [x for x in fb.events if x.bb in fb.live and x.callee == "std::iter::Iterator::next"]
    if len(cont) != 1 or len(nxt) != 1:
        return False
    over = flow.origins_x(lib, fb, nxt[0].args[0], through_calls=[r"IntoIterator>?::into_iter$", r"<impl \[T\]>::iter$"])
    if not any(x[0] == "param" and "addrs" in x[2] for x in over):
        return False
    arg_from = flow.origins_x(lib, fb, cont[0].args[1])
    if not any("hash" in (x[3] if x[0] == "call" else x[2] if x[0] in ("param", "upvar") else ()) for x in arg_from):
        return False
    t_edges = rules.bool_switch_edges(fb, cont[0], True)
    trues = [bb for bb, j, st in fb.all_assigns() if st["pl"]["l"] == 0 and not st["pl"]["p"] and st["rv"]["rk"] == "use"
             and st["rv"]["ops"][0].get("k") == "const" and st["rv"]["ops"][0].get("int") == "1"]
    if not trues or not t_edges:
        return False
    some_t = None
    for (sb, tested, arms, other) in flow.discriminant_switches(fb, flow.result_carriers(fb, nxt[0].dest["l"])):
        some_t = arms.get(1)
    if some_t is None:
        return False
    # from "got an address", without contains()==true neither the next iteration nor `true` is reachable
    reach = fb.reachable(some_t, removed_edges=t_edges)
    if nxt[0].bb in reach or any(t in reach for t in trues):
        return False
    return True


def presence_tests_in(w, body):
    """all(|a| contains(a.hash)) tests over a parameter's addrs inside `body` (used for predicate helpers)."""
    lib = w.lib
    out = []
    for e in body.events:
        if e.bb in body.live and (e.callee or "") == "std::iter::Iterator::all":
            recv = flow.origins_x(lib, body, e.args[0], through_calls=[r"<impl \[T\]>::iter$"])
            if not any(x[0] == "param" and "addrs" in x[2] for x in recv):
                continue
            for a in e.args[1:]:
                for oo in flow.origins(body, a):
                    if oo[0] == "agg" and oo[1] in lib.bodies:
                        cb = lib.bodies[oo[1]]
                        cont = events_of(lib, cb, "blockdir::BlockDir::contains")
                        if cont and _true_implies_call(lib, cb, "contains"):
                            out.append(e)
    return out


def heuristic_shape(ck, w, rule_id):
    """PRED: content_heuristically_unchanged returns true only if kind, mtime and size
    are equal, each compared on BOTH parameters."""
    lib = w.lib
    o = ck.ob(rule_id, "content_heuristically_unchanged(new, basis) is true only when kind, mtime and size are all equal on both entries")
    hb = lib.bodies.get(HEUR)
    if hb is None:
        ck.fail(o, HEUR, "anchor-missing", "heuristic not found")
        return False
    try:
        paths = pred.enumerate_paths(lib, hb)
    except (pred.NotLoopFree, pred.TooManyPaths) as ex:
        ck.fail(o, HEUR, "not a finite predicate", str(ex))
        return False
    params = [hb.local_names.get(i, str(i)) for i in range(1, hb.arg_count + 1)]

    def sel(p):
        r = p["ret"]
        if r[0] == "const":
            return dict(p["constraints"]) if r[1] != 0 else None
        if r[0] == "atom":
            c = dict(p["constraints"])
            c[r[1]] = not r[2]
            return c
        return dict(p["constraints"])   # unknown result: may be true
    common, n = pred.atoms_true_when(paths, sel)
    need = []
    for acc in ("kind", "mtime", "size"):
        need.append(("eq", frozenset("%s(%s)" % (acc, p) for p in params)))
    missing = [a for a in need if (a, True) not in common]
    if n == 0:
        ck.fail(o, HEUR, "never true", "the heuristic can never return true")
        return False
    if missing:
        ck.fail(o, HEUR, "heuristic weaker than kind&&mtime&&size",
                "a true result does not imply %s (implied: %s)" % (
                    [sorted(a[1]) for a in missing], sorted(str(sorted(a[1])) + "=" + str(v) for a, v in common)))
        return False
    ck.ok(o, "%d path(s), %d true-paths; implied: %s" % (len(paths), n, sorted(sorted(a[1])[0].split("(")[0] for a in need)), instances=len(paths))
    return True


class Guard:
    """A test that decides the reuse of basis addresses: where it is evaluated (`inner_body`, `inner_event`), where the caller
    sees it (`event` in copy_file), and the edges of copy_file on which it is known to have been TRUE."""

    def __init__(self, event, inner_body, inner_event, true_edges, how):
        self.event, self.inner_body, self.inner_event, self.true_edges, self.how = event, inner_body, inner_event, set(true_edges), how

    def site(self):
        return self.event.site()

    def switches(self):
        return {u for (u, v) in self.true_edges}


_OPT_THROUGH = [r"^std::option::Option::<T>::(map|as_ref|as_mut|copied|cloned|filter|inspect)$"]


def _value_switch_edges(lib, body, ev, what):
    """Edges of `body` decided by the Option produced by call `ev` (followed through map / filter / as_ref, also when it was
    put into a tuple that is then matched): what='some' - taken when it is Some; what='payload' - taken when it is Some(true)."""
    out = set()
    own = ev.name.rsplit("::", 1)[1]
    thru = [r"^std::option::Option::<T>::(%s)$" % "|".join(m for m in ("map", "as_ref", "as_mut", "copied", "cloned", "filter", "inspect") if m != own)] \
        if what == "some" else [r"^std::option::Option::<T>::(as_ref|as_mut|copied|cloned|inspect)$"]
    for bb in sorted(body.live):
        t = body.blocks[bb]["term"]
        if t["tk"] != "switch":
            continue
        arms = {int(a[0]): a[1] for a in t["arms"]}
        d = t["discr"]
        if d.get("k") == "const":
            continue
        if what == "some":
            dl = flow.operand_local(d)
            for st in reversed(body.blocks[bb]["stmts"]):
                if st["sk"] == "assign" and st["pl"]["l"] == dl and not st["pl"]["p"]:
                    if st["rv"]["rk"] == "discr":
                        oo = flow.origins_x(lib, body, {"k": "copy", "pl": st["rv"]["pl"]}, through_calls=thru)
                        if any(x[0] == "call" and x[1] == ev.name and x[2] == ev.bb for x in oo):
                            tgt = arms.get(1, t["otherwise"] if 0 in arms else None)
                            if tgt is not None:
                                out.add((bb, tgt))
                    break
        else:
            if not d["pl"]["p"] or body.locals[d["pl"]["l"]] == "bool":
                continue
            oo = flow.origins_x(lib, body, d, through_calls=thru)
            if any(x[0] == "call" and x[1] == ev.name and x[2] == ev.bb for x in oo):
                tgt = t["otherwise"] if 0 in arms else arms.get(1)
                if tgt is not None:
                    out.add((bb, tgt))
    return out


def _closure_bodies(lib, body, op):
    return [lib.bodies[oo[1]] for oo in flow.origins(body, op) if oo[0] == "agg" and oo[1] in lib.bodies]


def heuristic_guards(w, cfb):
    """Where copy_file learns that content_heuristically_unchanged(source, basis) is true: a direct call that is branched on
    (also through a bool local or a private bool helper), or a closure given to Option::filter whose `true` implies it -
    then the guard holds wherever the filtered Option (or what is mapped from it) is Some."""
    lib = w.lib
    out = []
    for ps in rules.predicate_sites(lib, cfb, HEUR):
        out.append(Guard(ps.event, ps.inner_body, ps.inner_event, ps.edges[True], "call"))
    for e in cfb.events:
        if e.bb in cfb.live and e.name == "std::option::Option::<T>::filter" and len(e.args) > 1:
            for cb in _closure_bodies(lib, cfb, e.args[1]):
                if rules.helper_implies(lib, cb, HEUR, True, True):
                    inner = [x for x in cb.events if x.bb in cb.live and (x.resolved or x.callee) == HEUR][0]
                    out.append(Guard(e, cb, inner, _value_switch_edges(lib, cfb, e, "some"), "Option::filter"))
    return out


def presence_guards(w, cfb):
    """Where copy_file learns that every block of the basis entry is present: an all(contains) test / named predicate that is
    branched on, or a presence closure given to Option::map - then the guard holds where the mapped Option is Some(true)."""
    lib = w.lib
    out = []
    for e in presence_tests(w, cfb):
        out.append(Guard(e, cfb, e, rules.bool_switch_edges(cfb, e, True) | rules.joined_bool_edges(cfb, e, True), "call"))
    for e in cfb.events:
        if e.bb in cfb.live and e.name == "std::option::Option::<T>::map" and len(e.args) > 1:
            for cb in _closure_bodies(lib, cfb, e.args[1]):
                inner = presence_tests_in(w, cb)
                if inner and (cb.ret or "") == "bool" and _presence_predicate(w, cb):
                    out.append(Guard(e, cb, inner[0], _value_switch_edges(lib, cfb, e, "payload"), "Option::map"))
    return out


def reuse_guarded(ck, w, rule_id):
    """GUARD: the only construction that copies basis addrs is behind heuristic==true and
    all(contains)==true, with the heuristic applied to (source_entry, basis_entry)."""
    lib = w.lib
    cfb, sites = reuse_sites(w)
    o = ck.ob(rule_id, "copy_file reuses the basis entry's addresses only if the unchanged-heuristic AND the block-presence test were true")
    if not sites:
        ck.fail(o, cfb.name, "no reuse of basis addresses", "copy_file never reuses basis addresses (incremental backup lost)")
        return False
    heur = heuristic_guards(w, cfb)
    pres = presence_guards(w, cfb)
    if not heur:
        ck.fail(o, cfb.name, "heuristic not consulted", "content_heuristically_unchanged is not called in copy_file")
        return False
    if not pres:
        ck.fail(o, cfb.name, "presence test missing", "no all(|a| block_dir.contains(&a.hash)) over basis_entry.addrs")
        return False
    he = set()
    for g_ in heur:
        he |= g_.true_edges
        a0 = flow.origins_x(lib, g_.inner_body, g_.inner_event.args[0])
        a1 = flow.origins_x(lib, g_.inner_body, g_.inner_event.args[1])
        if g_.inner_body is not cfb and g_.how == "call":
            continue          # through a named helper: operands are checked where predicate_sites follows them
        if not any(x[0] in ("param", "upvar") and x[1] == "source_entry" for x in a0) or not any(x[0] in ("param", "upvar") and x[1] == "basis_entry" for x in a1):
            ck.fail(o, cfb.name, "heuristic applied to the wrong entries",
                    "arguments derive from %s / %s" % (flow.origin_summary(a0), flow.origin_summary(a1)), g_.site())
            return False
    pe = set()
    for g_ in pres:
        pe |= g_.true_edges
    good = True
    for bb, s, orig in sites:
        if not he or not cfb.must_pass_edges(he, bb):
            good = False
            ck.fail(o, cfb.name, "reuse not guarded by the unchanged-heuristic",
                    "basis addresses reused on a path where the heuristic was not true: %s" % rules.witness(cfb, bb, removed_edges=he),
                    "%s:%d" % (cfb.file, s["line"]))
        if not pe or not cfb.must_pass_edges(pe, bb):
            good = False
            ck.fail(o, cfb.name, "reuse not guarded by the presence test",
                    "basis addresses reused without all blocks present: %s" % rules.witness(cfb, bb, removed_edges=pe),
                    "%s:%d" % (cfb.file, s["line"]))
    if good:
        ck.ok(o, "%d reuse site(s)" % len(sites), sites=["%s:%d" % (cfb.file, s["line"]) for bb, s, _ in sites], instances=len(sites))
    return good


def cli_option(ck, w, rule_id, adt_suffix, field, want, floor=1):
    """The CLI builds `<adt>` with `field` taken from the named command-line argument
    (want = ('param', arg-name) ) or from a call (want = ('call', callee-suffix))."""
    b = w.bin
    o = ck.ob(rule_id, "CLI: %s.%s comes from %s" % (adt_suffix, field, want[1]))
    n = 0
    bad = []
    for name, body in b.bodies.items():
        if not body.file.startswith("src/"):
            continue
        for adt in ("conserve::" + adt_suffix, "conserve::%s" % adt_suffix.split("::")[-1]):
            for bb, j, s in rules.agg_sites(body, adt):
                if field not in s["rv"]["fields"]:
                    continue
                n += 1
                orig = flow.origins_x(b, body, rules.field_operand(s, field))
                if want[0] == "param":
                    okk = any(x[0] in ("param", "upvar") and x[2] and x[2][-1] == want[1] for x in orig) and \
                        not [x for x in orig if x[0] in ("const", "enum", "arith")]
                else:
                    okk = any(c.endswith(want[1]) for c in flow.origin_calls(orig))
                if not okk:
                    bad.append((body, s, flow.origin_summary(orig)))
    if n < floor:
        ck.fail(o, "bin::Command::run", "no %s construction in the CLI" % adt_suffix, "expected the CLI to build %s" % adt_suffix)
    elif bad:
        for body, s, why in bad:
            ck.fail(o, "bin::" + body.root, "%s.%s not from %s" % (adt_suffix.split("::")[-1], field, want[1]),
                    "%s.%s derives from %s" % (adt_suffix, field, why), "%s:%d" % (body.file, s["line"]))
    else:
        ck.ok(o, "%d construction(s)" % n, instances=n)


def deciding_switches(body, target_bb):
    """Switch blocks that decide whether `target_bb` can still be reached: blocks with at least
    two live successors of which some can reach the target and some cannot."""
    out = []
    for bb in sorted(body.live):
        succs = body.succ[bb]
        if len(succs) < 2 or body.blocks[bb]["term"]["tk"] != "switch":
            continue
        if target_bb not in body.reachable(bb):
            continue
        reach = [(s == target_bb) or (target_bb in body.reachable(s, removed_nodes={bb})) for s in succs]
        if any(reach) and not all(reach):
            out.append(bb)
    return out


def switch_subject(crate, body, bb):
    """Human-readable description of what a switch block tests."""
    from cv import pred
    t = body.blocks[bb]["term"]
    d = t["discr"]
    l = flow.operand_local(d)
    if l is None:
        return "const"
    # discriminant of something?
    for s in reversed(body.blocks[bb]["stmts"]):
        if s["sk"] == "assign" and s["pl"]["l"] == l and s["rv"]["rk"] == "discr":
            return "variant of " + pred.describe(crate, body, {"k": "copy", "pl": s["rv"]["pl"]})
    return pred.describe(crate, body, d)


def reuse_exactly_conditioned(ck, w, rule_id):
    """The reuse of basis addresses happens under EXACTLY: basis present, heuristic true, every
    block present - no further condition (an extra one silently turns unchanged files into
    re-stored ones)."""
    lib = w.lib
    cfb, sites = reuse_sites(w)
    o = ck.ob(rule_id, "copy_file: basis addresses are reused whenever the basis exists, the heuristic holds and all blocks are present - no additional condition")
    if not sites:
        ck.fail(o, cfb.name, "no reuse site", "no reuse of basis addresses")
        return
    heur_g = heuristic_guards(w, cfb)
    pres_g = presence_guards(w, cfb)
    expected = set()
    for g_ in heur_g + pres_g:
        # the switch(es) that branch on this test's result
        expected |= g_.switches()
        if g_.how != "call":
            expected |= {u for (u, v) in _value_switch_edges(lib, cfb, g_.event, "some")}
    pres = [g_.event for g_ in pres_g if g_.how == "call"]
    for g_ in pres_g:
        if g_.how != "call":
            pres.append(g_.inner_event)
    _pres_bodies = {id(g_.inner_event): g_.inner_body for g_ in pres_g}
    problems = []
    for bb, s, orig in sites:
        for sw in deciding_switches(cfb, bb):
            if sw in expected:
                continue
            subj = switch_subject(lib, cfb, sw)
            if "basis_entry" in subj and "variant" in subj:
                continue   # `if let Some(basis_entry)`
            if _is_await_switch(cfb, sw):
                continue
            problems.append("reuse additionally depends on %s" % subj)
    # the presence closure must be exactly `contains(hash)`
    for e in pres:
        for a in e.args[1:]:
            for oo in flow.origins(_pres_bodies.get(id(e), cfb), a):
                if oo[0] == "agg" and oo[1] in lib.bodies:
                    cb = lib.bodies[oo[1]]
                    from cv import pred
                    try:
                        paths = pred.enumerate_paths(lib, cb)
                    except (pred.NotLoopFree, pred.TooManyPaths):
                        problems.append("presence closure is not a simple predicate")
                        continue
                    atoms = set()
                    for p in paths:
                        atoms |= set(p["constraints"])
                        if p["ret"][0] == "atom":
                            atoms.add(p["ret"][1])
                    extra = [a_ for a_ in atoms if not (a_[0].startswith("call:contains"))]
                    if extra:
                        problems.append("presence closure tests more than block_dir.contains(hash): %s" % sorted(str(x[0]) for x in extra))
    if problems:
        for m in sorted(set(problems)):
            ck.fail(o, cfb.name, m, m, "%s:%d" % (cfb.file, sites[0][1]["line"]))
    else:
        ck.ok(o, "deciding tests: basis present, heuristic, presence", instances=len(sites))


def _is_await_switch(body, bb):
    """Switch on the Poll / resume state of an await (not a program condition)."""
    t = body.blocks[bb]["term"]
    l = flow.operand_local(t["discr"])
    for s in reversed(body.blocks[bb]["stmts"]):
        if s["sk"] == "assign" and s["pl"]["l"] == l and s["rv"]["rk"] == "discr":
            ty = body.locals[s["rv"]["pl"]["l"]]
            return ty.startswith("std::task::Poll<") or "ControlFlow" in ty
    return False


def stitch_buffer_next(sn):
    """The `next()` that takes an entry out of the hunk buffered in State::InBand (a Peekable, a vec::IntoIter ...)."""
    out = []
    for e in sn.events:
        if e.bb in sn.live and e.args and re.search(r"Iterator>?::next$", e.name):
            l = flow.operand_local(e.args[0])
            ty = sn.locals[l] if l is not None else ""
            if "index::entry::IndexEntry" in ty and "IndexHunkIter" not in ty and re.search(r"IntoIter|Peekable|Iter<|Drain", ty):
                out.append(e)
    return out


def stitch_drops_only_filtered(ck, w, rule_id):
    """In Stitch::next a buffered entry is either returned or rejected by exactly one of the two
    tests (outside the subtree / excluded): nothing else is dropped."""
    lib = w.lib
    sn = w.body("index::stitch::Stitch::next")
    o = ck.ob(rule_id, "Stitch::next: an entry read from the index is dropped only if is_prefix_of was false or exclude.matches was true - nothing else is dropped")
    nx = stitch_buffer_next(sn)
    pre = events_of(lib, sn, "apath::Apath::is_prefix_of")
    exc = events_of(lib, sn, "excludes::Exclude::matches")
    rets = [bb for bb, j, s in rules.agg_sites(sn, "std::option::Option", "Some") if s["pl"]["l"] == 0]
    retain = None
    if not pre:
        retain = stitch_retain_idiom(w)
    if not nx or (not pre and retain is None) or not exc or not rets:
        ck.fail(o, sn.name, "filter shape changed", "next=%d is_prefix_of=%d matches=%d returns=%d" % (len(nx), len(pre), len(exc), len(rets)))
        return
    some_targets = set()
    for (sb, tested, arms, other) in flow.discriminant_switches(sn, flow.result_carriers(sn, nx[0].dest["l"])):
        if 1 in arms:
            some_targets.add(arms[1])
    reject = set()
    for ps in rules.predicate_sites(lib, sn, "apath::Apath::is_prefix_of"):
        reject |= ps.edges[False]
    for ps in rules.predicate_sites(lib, sn, "excludes::Exclude::matches"):
        reject |= ps.edges[True]
    # a private bool helper that joins the two tests (`is_selected`): its false edge rejects if false implies one of them
    for e in sn.events:
        if e.bb not in sn.live or e.callee == rules.POLL:
            continue
        hb = lib.bodies.get(e.resolved or e.callee or "")
        if hb is not None and hb is not sn and (hb.ret or "") == "bool" and hb.kind in ("fn", "assoc_fn"):
            if rules.helper_implies_any(lib, hb, {"apath::Apath::is_prefix_of": False, "excludes::Exclude::matches": True}, False):
                reject |= rules.bool_switch_edges(sn, e, False)
            if rules.helper_implies_any(lib, hb, {"apath::Apath::is_prefix_of": False, "excludes::Exclude::matches": True}, True):
                reject |= rules.bool_switch_edges(sn, e, True)
    # from "got an entry", with the reject edges and the return removed, the loop must not continue
    bad = False
    for t in some_targets:
        reach = sn.reachable(t, removed_edges=reject, removed_nodes=set(rets))
        again = [e for e in nx if e.bb in reach]
        ends = [r for r in sn.return_blocks() if r in reach]
        if again or ends:
            bad = True
    if bad:
        ck.fail(o, sn.name, "entries dropped by something other than the subtree / exclusion tests",
                "an entry can be skipped (or the listing ended) without is_prefix_of==false or matches==true")
    else:
        ck.ok(o, "subtree filter applied per hunk with retain" if retain is not None else None, sites=[(pre[0] if pre else retain).site(), exc[0].site()])


def _true_implies_call(crate, body, short_name):
    """For a small bool-valued body: every path that may return true has the bool-returning
    call `short_name` decided true."""
    from cv import pred
    try:
        paths = pred.enumerate_paths(crate, body)
    except (pred.NotLoopFree, pred.TooManyPaths):
        return False
    seen_true = False
    for p in paths:
        r = p["ret"]
        c = dict(p["constraints"])
        if r[0] == "const":
            if r[1] == 0:
                continue
        elif r[0] == "atom":
            c[r[1]] = not r[2]
        seen_true = True
        if not any(a[0] == "call:" + short_name and v is True for a, v in c.items()):
            return False
    return seen_true


def merge_alignment(ck, w, rid_a, rid_b):
    """TABLE rule for MergeTrees::next: the two streams are aligned by Apath::cmp(a, b) and each ordering
    outcome consumes / emits the right side(s). Shared by C18 (diff) and C14 (pairing a source entry with its
    basis entry is the precondition of reusing it)."""
    lib = w.lib
    # ---- 3. TABLE MergeTrees::next ------------------------------------------------------------------------------
    mn = w.body("merge::MergeTrees::next")
    o = ck.ob(rid_a, "MergeTrees::next compares a.apath() with b.apath() (in that order) by Apath::cmp")
    cm = [e for e in mn.events if e.bb in mn.live and e.name == "<apath::Apath as std::cmp::Ord>::cmp"]
    good = len(cm) == 1
    if good:
        a0 = flow.origins_x(lib, mn, cm[0].args[0])
        a1 = flow.origins_x(lib, mn, cm[0].args[1])
        f0 = any("next_a" in (x[2] if x[0] in ("param", "upvar") else ()) for x in a0) or any("IndexEntry" in c for c in flow.origin_calls(a0))
        f1 = any("next_b" in (x[2] if x[0] in ("param", "upvar") else ()) for x in a1) or any("source::entry::Entry" in c for c in flow.origin_calls(a1))
        if not (f0 and f1):
            good = False
            ck.fail(o, mn.name, "comparison operands changed", "cmp(%s, %s)" % (flow.origin_summary(a0), flow.origin_summary(a1)), cm[0].site())
    else:
        ck.fail(o, mn.name, "no unique Apath::cmp", "found %d comparisons" % len(cm))
    if good:
        ck.ok(o, sites=[cm[0].site()])
    o = ck.ob(rid_b, "MergeTrees::next: Equal -> Both(take a, take b); Less -> Left(take a); Greater -> Right(take b); one-sided -> Left / Right")
    if cm:
        sw = None
        for (sb, tested, arms, other) in flow.discriminant_switches(mn, flow.result_carriers(mn, cm[0].dest["l"])):
            sw = (sb, arms, other)
        problems = []
        if sw is None:
            problems.append("no switch on the comparison result")
        else:
            sb, arms, other = sw
            want = {255: ("Left", {"next_a"}), 0: ("Both", {"next_a", "next_b"}), 1: ("Right", {"next_b"})}
            for val, (variant, takes) in want.items():
                tgt = arms.get(val)
                if tgt is None:
                    problems.append("no arm for ordering value %d" % val)
                    continue
                region = mn.reachable(tgt)
                aggs = [(bb, s) for bb, j, s in rules.agg_sites(mn, "merge::MatchedEntries") if bb in region and mn.must_pass_edges({(sb, tgt)}, bb)]
                vs = {s["rv"]["variant"] for bb, s in aggs}
                if vs != {variant}:
                    problems.append("ordering %s builds %s instead of %s" % ({255: "Less", 0: "Equal", 1: "Greater"}[val], sorted(vs), variant))
                    continue
                # which peeked entries are consumed: taken in this arm, or taken by value before the comparison (every path to the
                # switch passes the take) and not put back in this arm (`self.next_b = Some(b)`)
                took = set()
                for e in mn.events:
                    if e.bb not in mn.live or e.name not in ("std::option::Option::<T>::take", "std::mem::take", "std::mem::replace"):
                        continue
                    in_arm = e.bb in region and mn.must_pass_edges({(sb, tgt)}, e.bb)
                    before = e.bb != sb and mn.must_pass_nodes({e.bb}, sb) and e.bb not in mn.reachable(sb)
                    if in_arm or before:
                        for x in flow.origins_x(lib, mn, e.args[0]):
                            if x[0] in ("param", "upvar"):
                                took |= {f for f in x[2] if f in ("next_a", "next_b")}
                for bb_, j_, st_ in mn.all_assigns():
                    if bb_ in region and mn.must_pass_edges({(sb, tgt)}, bb_) and st_["pl"]["p"]:
                        fld_ = [x_.split(":", 2)[2] for x_ in st_["pl"]["p"] if x_.startswith("f:")]
                        if fld_ and fld_[-1] in ("next_a", "next_b") and not (st_["rv"]["rk"] == "agg" and st_["rv"].get("variant") == "None"):
                            vo_ = flow.origins_x(lib, mn, st_["rv"]["ops"][0]) if st_["rv"].get("ops") and st_["rv"]["ops"][0].get("k") != "const" else set()
                            if not any(x_[0] == "enum" and x_[2] == "None" for x_ in vo_):
                                took.discard(fld_[-1])
                if took != takes:
                    problems.append("ordering %s consumes %s instead of %s" % ({255: "Less", 0: "Equal", 1: "Greater"}[val], sorted(took), sorted(takes)))
                for bb, s in aggs:
                    ops = s["rv"]["ops"]
                    srcs = []
                    for op in ops:
                        oo = flow.origins_x(lib, mn, op)
                        srcs.append({f for x in oo if x[0] in ("param", "upvar") for f in x[2] if f in ("next_a", "next_b")})
                    exp = {"Left": [{"next_a"}], "Right": [{"next_b"}], "Both": [{"next_a"}, {"next_b"}]}[variant]
                    if srcs != exp:
                        problems.append("%s built from %s" % (variant, [sorted(x) for x in srcs]))
            # one-sided cases: the remaining constructions
            others = [(bb, s) for bb, j, s in rules.agg_sites(mn, "merge::MatchedEntries") if not mn.must_pass_nodes({sb}, bb)]
            for bb, s in others:
                variant = s["rv"]["variant"]
                oo = flow.origins_x(lib, mn, s["rv"]["ops"][0])
                src = {f for x in oo if x[0] in ("param", "upvar") for f in x[2] if f in ("next_a", "next_b")}
                if (variant, src) not in (("Left", frozenset({"next_a"})), ("Right", frozenset({"next_b"}))) and \
                        not ((variant == "Left" and src == {"next_a"}) or (variant == "Right" and src == {"next_b"})):
                    problems.append("one-sided case builds %s from %s" % (variant, sorted(src)))
            # one side exhausted: either built directly (above) or expressed as a constant ordering that joins the
            # comparison result before the switch (`(Some, None) => Less`). A constant must be guarded by the
            # exhaustion of the OTHER side; and in either form the merge ends (returns None) only when both
            # sides are exhausted.
            ne = {"next_a": _field_none_edges(lib, mn, "next_a"), "next_b": _field_none_edges(lib, mn, "next_b")}
            carr = flow.result_carriers(mn, cm[0].dest["l"])
            consts = [(bb, s) for bb, j, s in rules.agg_sites(mn, "std::cmp::Ordering") if s["pl"]["l"] in carr and not s["pl"]["p"]]
            for bb, s in consts:
                variant = s["rv"]["variant"]
                need = {"Less": "next_b", "Greater": "next_a"}.get(variant)
                if need is None:
                    problems.append("a constant %s joins the comparison result" % variant)
                elif not ne[need] or not mn.must_pass_edges(ne[need], bb):
                    problems.append("constant %s is not guarded by %s being exhausted" % (variant, need))
            if len(others) + len(consts) != 2:
                problems.append("expected 2 one-sided cases, found %d" % (len(others) + len(consts)))
            ends = [bb for bb, j, s in rules.agg_sites(mn, "std::option::Option", "None") if s["pl"]["l"] == 0 and not s["pl"]["p"]]
            for bb in ends:
                for f in ("next_a", "next_b"):
                    if not ne[f] or not mn.must_pass_edges(ne[f], bb):
                        problems.append("the merge can end while %s still holds an entry" % f)
        if problems:
            for m in problems:
                ck.fail(o, mn.name, m, m)
        else:
            ck.ok(o, instances=5)


def _field_none_edges(lib, body, field):
    """Edges taken exactly when `self.<field>` (an Option) is None: the None arm of a match on it (also through a
    tuple of references), the true edge of is_none(), the false edge of is_some()."""
    edges = set()

    def is_field(op):
        return any(x[0] in ("param", "upvar") and field in x[2] for x in flow.origins_x(lib, body, op))
    for bb in body.live:
        t = body.blocks[bb]["term"]
        if t["tk"] != "switch":
            continue
        dl = flow.operand_local(t["discr"])
        for s in reversed(body.blocks[bb]["stmts"]):
            if s["sk"] == "assign" and s["pl"]["l"] == dl and not s["pl"]["p"]:
                if s["rv"]["rk"] == "discr" and is_field({"k": "copy", "pl": s["rv"]["pl"]}):
                    arms = {int(a[0]): a[1] for a in t["arms"]}
                    tgt = arms.get(0, t["otherwise"])
                    if tgt is not None:
                        edges.add((bb, tgt))
                break
    for e in body.events:
        if e.bb in body.live and e.args and e.name in ("std::option::Option::<T>::is_none", "std::option::Option::<T>::is_some") and is_field(e.args[0]):
            te, fe = flow.bool_switch_edges(body, e.dest["l"])
            edges |= te if e.name.endswith("is_none") else fe
    return edges


HIDING = re.compile(r"Iterator::(skip|take|step_by|take_while|skip_while|nth|last|map_while|rev)$|Vec::<T, A>::(truncate|pop|remove|swap_remove|drain|retain|dedup\w*)$|<impl \[T\]>::(first|last|split_at|split_first|split_last)$")


def hunk_listing_complete(ck, w, rid):
    """The listing of hunk files every reader relies on (stitcher, validate, gc reference scan) hides no
    file: IndexRead::hunks_available selects directory entries by kind and by numeric name only - never by
    length or any other attribute - and uses no truncating adapter. A hidden (e.g. zero-length) hunk is a
    hunk nobody tries to read, hence nobody reports."""
    lib = w.lib
    o = ck.ob(rid, "IndexRead::hunks_available returns every file with a numeric name: entries are selected by kind and name only")
    fam = lib.family("index::IndexRead::hunks_available")
    if not fam:
        ck.fail(o, "index::IndexRead::hunks_available", "anchor-missing", "hunks_available not found")
        return
    problems = []
    n_sel = 0
    for b in fam:
        for e in b.events:
            if e.bb in b.live and HIDING.search(e.name) and not e.macro:
                problems.append(("a truncating adapter hides hunks", "%s in %s" % (e.name.split("::")[-1], b.name), e.site()))
            if e.bb in b.live and re.search(r"Iterator::(filter|filter_map)$", e.name):
                n_sel += 1
        for bb in b.live:
            blk = b.blocks[bb]
            places = []
            for st in blk["stmts"]:
                if st["sk"] != "assign":
                    continue
                rv = st["rv"]
                for op in rv.get("ops", []):
                    if op.get("k") in ("copy", "move"):
                        places.append((op["pl"], st.get("line")))
                if "pl" in rv:
                    places.append((rv["pl"], st.get("line")))
            t = blk["term"]
            for op in t.get("args", []) or []:
                if op.get("k") in ("copy", "move"):
                    places.append((op["pl"], t.get("line")))
            for pl, line in places:
                for pe in pl["p"]:
                    if pe.startswith("f:") and pe.split(":", 2)[2] == "len" and "DirEntry" in (b.locals[pl["l"]] or ""):
                        problems.append(("hunk files are selected by their length", "DirEntry.len read in %s" % b.name, "%s:%s" % (b.file, line)))
        for e in b.events:
            if e.bb in b.live and re.search(r"transport::DirEntry::(len|is_empty)$|transport::Transport::metadata$", e.name):
                problems.append(("hunk files are selected by their length", "%s called in %s" % (e.name, b.name), e.site()))
    if problems:
        seen = set()
        for k, m, site in problems:
            if k in seen:
                continue
            seen.add(k)
            ck.fail(o, "index::IndexRead::hunks_available", k, m, site)
    else:
        ck.ok(o, "%d selection(s) by kind / name" % n_sel, instances=n_sel)


def stitch_retain_idiom(w):
    """Alternative to the per-entry subtree test in Stitch::next: the freshly read hunk is filtered once with
    `hunk.retain(|e| self.subtree.is_prefix_of(&e.apath))` before it is installed as the buffered entries.
    Returns the retain event if that idiom is present and well-formed, else None."""
    lib = w.lib
    sn = w.body("index::stitch::Stitch::next")
    rets = [e for e in sn.events if e.bb in sn.live and re.search(r"Vec::<T, A>::retain(_mut)?$", e.name)]
    srcs = [e for e in sn.events if e.bb in sn.live and e.callee == rules.POLL and
            (e.resolved or "").startswith("index::IndexHunkIter::") and (e.resolved or "").split("::")[2] in ("try_next", "next")]
    for r in rets:
        recv = flow.origin_calls(flow.origins_x(lib, sn, r.args[0]))
        if not any(c.startswith("index::IndexHunkIter::") for c in recv):
            continue
        # the closure
        cb = None
        for oo in flow.origins(sn, r.args[1]):
            if oo[0] == "agg" and oo[1] in lib.bodies:
                cb = lib.bodies[oo[1]]
        if cb is None:
            continue
        ip = [e for e in cb.events if e.bb in cb.live and e.name == "apath::Apath::is_prefix_of"]
        if len(ip) != 1:
            continue
        ret = flow.origins_x(lib, cb, 0)
        if "apath::Apath::is_prefix_of" not in flow.origin_calls(ret) or any(x[0] == "arith" for x in ret):
            continue
        # no negation of the result
        neg = False
        for bb, j, st in cb.all_assigns():
            if st["rv"]["rk"] == "unop" and st["rv"]["op"] == "Not":
                neg = True
        if neg:
            continue
        recv_o = flow.origins_x(lib, cb, ip[0].args[0])
        arg_o = flow.origins_x(lib, cb, ip[0].args[1])
        if not any(x[0] in ("param", "upvar") and "subtree" in x[2] for x in recv_o):
            continue
        if not any(x[0] == "param" and "apath" in x[2] for x in arg_o) or any(x[0] in ("param", "upvar") and "subtree" in x[2] for x in arg_o):
            continue
        # every hunk that gets installed went through the retain
        installs = [bb for bb, j, st in sn.all_assigns() if st["pl"]["p"] and any(
            "buffered_entries" == sn.local_names.get(st["pl"]["l"]) for _ in [0])]
        if not installs:
            installs = [bb for bb, j, st in sn.all_assigns() if st["pl"]["p"] == ["*"] and
                        re.search(r"Peekable|vec::IntoIter<index::entry::IndexEntry", sn.locals[st["pl"]["l"]] or "")]
        ok_ = bool(installs) and bool(srcs)
        for ib in installs:
            for s_ in srcs:
                if ib in sn.reachable(s_.bb, removed_nodes={r.bb}) and s_.bb != ib:
                    # reachable around the retain within the same iteration? exclude paths that pass the source again
                    if ib in sn.reachable(s_.bb, removed_nodes={r.bb} | {x.bb for x in srcs if x is not s_}):
                        # the only way round must pass the source again (next iteration)
                        around = sn.reachable(s_.target if s_.target is not None else s_.bb, removed_nodes={r.bb, s_.bb})
                        if ib in around:
                            ok_ = False
        if ok_:
            return r
    return None


def list_blocks_present_set(ck, w, rid, rid0):
    """list_blocks: a listed file enters the present set unless its length is unknown or ZERO - the only length
    that is excluded. (C03: an empty leftover must not count as a stored block; C05: every real block file, however
    small, must be visible to the collector.)"""
    lib = w.lib
    lb = w.body("blockdir::list_blocks")
    o = ck.ob(rid, "list_blocks: a listed file counts as present only if its length is known and non-zero")
    ins = [e for e in lb.events if e.bb in lb.live and re.search(r"HashSet::<T, S, A>::insert$", e.name)]
    tests = [e for e in lb.events if e.bb in lb.live and re.search(r"Option::<T>::is_none_or$", e.name)]
    ok_guard = rules.guarded_by_bool(ck, o, lb, tests, False, ins, "len.is_none_or(==0)", "blocks.insert") if ins else \
        ck.fail(o, lb.name, "no insert", "list_blocks no longer inserts listed blocks")
    if ok_guard:
        # the closure must compare with zero
        oz = ck.ob(rid0, "the emptiness predicate compares the length with 0")
        found = False
        for e in tests:
            for a in e.args[1:]:
                for oo in flow.origins(lb, a):
                    if oo[0] == "agg" and oo[1] in lib.bodies:
                        cb = lib.bodies[oo[1]]
                        for bb, j, s in cb.all_assigns():
                            rv = s["rv"]
                            if rv["rk"] == "binop" and rv["op"] == "Eq":
                                for op in rv["ops"]:
                                    if op.get("k") == "const" and op.get("int") == "0":
                                        found = True
        if found:
            ck.ok(oz)
        else:
            ck.fail(oz, lb.name, "zero-length test changed", "is_none_or closure is not `len == 0`")



NARROW_USE = re.compile(r"Iterator::(take|skip|step_by|nth|last|next|find|position|take_while|skip_while|max_by_key|min_by_key)$|"
                        r"<impl \[T\]>::(first|last|get|split_at|split_first|split_last|chunks|windows)$|ops::Index<.*::index$|"
                        r"Vec::<T, A>::(truncate|pop|remove|swap_remove|drain|split_off)$")
WHOLE_THROUGH = [r"Iterator::(collect|cloned|copied|map)$", r"Itertools::collect_vec$", r"IntoIterator>?::into_iter$",
                 r"Deref>?::deref$", r"<impl \[T\]>::iter$", r"Vec::<T, A>::as_slice$"]


def narrowing_uses(lib, body, src_event):
    """Events in `body` that take a prefix / slice / single element of the collection produced by `src_event`
    (followed through collect, iter, map ... but not through a sort)."""
    out = []
    for x in body.events:
        if x.bb not in body.live or x is src_event or not NARROW_USE.search(x.name) or not x.args:
            continue
        if x.name.endswith("Iterator::next") and x.term.get("exp"):
            continue        # the next() of a desugared `for` loop consumes everything
        oo = flow.origins_x(lib, body, x.args[0], through_all=WHOLE_THROUGH)
        if any(o_[0] == "call" and o_[1] == src_event.name and o_[2] == src_event.bb for o_ in oo):
            out.append(x)
    return out


def finish_only_when_exhausted(ck, w, rid):
    """backup(): the band is closed (BackupWriter::finish -> Band::close writes the tail) only when the merge loop ended
    normally. Closing it on an error / early-exit path would mark an interrupted version complete."""
    lib = w.lib
    o = ck.ob(rid, "backup(): BackupWriter::finish (which writes the tail) is reached only when the merge of basis and source is exhausted - "
                        "never from an error or early-exit path")
    bkb = w.body("backup::backup")
    fins = events_of(lib, bkb, "backup::BackupWriter::finish")
    mnx = events_of(lib, bkb, "merge::MergeTrees::next")
    none_edges = set()
    for e in mnx:
        for (sb_, tested, arms_, other_) in flow.discriminant_switches(bkb, flow.result_carriers(bkb, e.dest["l"])):
            if bkb.locals[tested].startswith("std::option::Option"):
                none_edges.add((sb_, arms_[0] if 0 in arms_ else other_))
    if not fins or not none_edges:
        ck.fail(o, bkb.name, "anchor-missing", "finish events=%d, loop-exit edges=%d" % (len(fins), len(none_edges)))
    else:
        early = [f for f in fins if not bkb.must_pass_edges(none_edges, f.bb)]
        if early:
            ck.fail(o, bkb.name, "band closed on an early exit", "BackupWriter::finish is reachable while entries remain: %s" %
                    rules.witness(bkb, early[0].bb, removed_edges=none_edges), early[0].site())
        else:
            ck.ok(o, sites=[f.site() for f in fins])


def protocol_dispatch_by_name(ck, w, rid):
    lib = w.lib
    o = ck.ob(rid, "the Transport dispatcher calls, on its protocol, only the method of its own name: Protocol::remove_file / remove_dir_all are "
                        "called from Transport::remove_file / remove_dir_all only (a failed write never 'cleans up' at this level)")
    badp = []
    n_disp = 0
    for meth in ("remove_file", "remove_dir_all", "write", "create_dir"):
        decl = "transport::protocol::Protocol::" + meth
        for b in rules.user_bodies(lib):
            if rules.is_derive_body(b):
                continue
            for e in b.events:
                if e.bb in b.live and e.callee == decl:
                    n_disp += 1
                    inside_protocol = (b.trait or "") == "transport::protocol::Protocol" or \
                        (lib.bodies.get(b.root) is not None and (lib.bodies[b.root].trait or "") == "transport::protocol::Protocol")
                    if b.root != "transport::Transport::" + meth and not inside_protocol:
                        badp.append((b, e, meth))
    ck.floor(rid + ".n", "virtual Protocol::{write,create_dir,remove_*} calls", n_disp, 4)
    if badp:
        b, e, meth = badp[0]
        ck.fail(o, b.root, "Protocol::%s called outside Transport::%s" % (meth, meth), "%s calls Protocol::%s" % (b.root, meth), e.site())
    else:
        ck.ok(o, "%d dispatch site(s)" % n_disp, instances=n_disp)



FMT_THROUGH = [r"^alloc::fmt::format$|^std::fmt::format$", r"fmt::Arguments::<'a>::new", r"fmt::rt::Argument::<'_>::new_display$", r"^std::hint::must_use$",
               r"^blockdir::subdir_relpath$", r"ToString>?::to_string$", r"^blockdir::block_relpath$", r"String::as_str$", r"Deref>?::deref$"]


def block_path_sites(w, body):
    """Places in `body` where the relative path of a block file is formed: a call of blockdir::block_relpath, or (when a helper
    between the two was dissolved) the same `{subdir_relpath(hex)}/{hex}` format written in place. Returns [(site event, origins of the hash)]."""
    from cv import fmtshape
    lib = w.lib
    out = []
    for e in body.events:
        if e.bb in body.live and e.name == "blockdir::block_relpath" and e.callee != rules.POLL:
            out.append((e, flow.origins_x(lib, body, e.args[0], through_all=FMT_THROUGH)))
    for e, pieces, vals in fmtshape.format_sites(body):
        shape = [p[0] for p in pieces]
        if shape == ["arg", "lit", "arg"] and pieces[1][1] == "/" and len(vals) == 2 and vals[0] and vals[1]:
            o0 = flow.origins_x(lib, body, vals[0])
            if "blockdir::subdir_relpath" in flow.origin_calls(o0):
                out.append((e, flow.origins_x(lib, body, vals[1], through_all=FMT_THROUGH)))
    return out


def block_dir_fresh(ck, w, rid):
    """Archive::block_dir() lists the blocks anew for every operation: the present-block set an operation works with
    is never older than the operation. A cached accessor (a field of Archive, a OnceCell / static) would let a backup
    deduplicate against blocks that a delete or gc through another handle has removed since."""
    lib = w.lib
    o = ck.ob(rid, "Archive::block_dir() opens (and lists) the block directory on every call: no BlockDir is kept in Archive or in a static, "
                   "and each Ok result comes from a BlockDir::open performed by that call")
    problems = []
    adt = lib.adts.get("archive::Archive")
    if adt is None:
        ck.fail(o, "archive::Archive", "anchor-missing", "struct Archive not found")
        return
    for v in adt["variants"]:
        for f in v["fields"]:
            if re.search(r"blockdir::BlockDir(?![A-Za-z])", f["ty"]) or re.search(r"HashSet<blockhash::BlockHash>", f["ty"]):
                problems.append("Archive.%s holds a %s across operations" % (f["name"], f["ty"]))
    bd = lib.main_body("archive::Archive::block_dir")
    if bd is None:
        ck.fail(o, "archive::Archive::block_dir", "anchor-missing", "block_dir not found")
        return
    opens = events_of(lib, bd, "blockdir::BlockDir::open")
    oks = [bb for bb, j, st in rules.agg_sites(bd, "std::result::Result", "Ok") if st["pl"]["l"] == 0 and not st["pl"]["p"]]
    rets = [bb for bb in bd.return_blocks()]
    if not opens:
        problems.append("block_dir() does not call BlockDir::open itself (opened lazily or elsewhere)")
    else:
        edges, _, _ = rules.success_edges_union(bd, opens)
        if not oks:
            # the value is handed on without an explicit Ok(..): every return must still lie behind the open
            reach = bd.reachable(0, removed_nodes={e.bb for e in opens})
            if any(r in reach for r in rets):
                problems.append("block_dir() can return without having opened the block directory")
        for bb in oks:
            if not edges or not bd.must_pass_edges(edges, bb):
                problems.append("block_dir() can return Ok without a successful BlockDir::open in this call")
    for b in rules.user_bodies(lib):
        if b.kind == "static" and re.search(r"BlockDir(?![A-Za-z])", b.ret or ""):
            problems.append("static %s holds a BlockDir" % b.name)
    if problems:
        for m in sorted(set(problems)):
            ck.fail(o, "archive::Archive::block_dir", m.split(" (")[0], m)
    else:
        ck.ok(o, sites=[e.site() for e in opens], instances=len(oks) or 1)
