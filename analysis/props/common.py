"""Rule instances shared between properties (each property evaluates them itself)."""
import re

from cv import flow, pred, rules
from cv.rules import events_of

COPY_FILE = "backup::BackupWriter::copy_file"
HEUR = "backup::content_heuristically_unchanged"


def reuse_sites(w):
    """IndexEntry constructions in copy_file whose addrs derive from the basis entry."""
    lib = w.lib
    cfb = w.body(COPY_FILE)
    out = []
    for bb, j, s in rules.agg_sites(cfb, "index::entry::IndexEntry"):
        aop = rules.field_operand(s, "addrs")
        orig = flow.origins_x(lib, cfb, aop)
        params = {(p[1], tuple(p[2])) for p in orig if p[0] == "param"}
        if params and all(p[0] == "basis_entry" and "addrs" in p[1] for p in params):
            out.append((bb, s, orig))
    return cfb, out


def presence_tests(w, cfb):
    """`.all(|a| block_dir.contains(&a.hash))` events over the basis entry's addrs."""
    lib = w.lib
    out = []
    for e in cfb.events:
        if e.bb in cfb.live and (e.callee or "") == "std::iter::Iterator::all":
            recv = flow.origins_x(lib, cfb, e.args[0], through_calls=[r"<impl \[T\]>::iter$"])
            over_basis = any(x[0] == "param" and x[1] == "basis_entry" and "addrs" in x[2] for x in recv)
            closure_ok = False
            for a in e.args[1:]:
                for oo in flow.origins(cfb, a):
                    if oo[0] == "agg" and oo[1] in lib.bodies:
                        cb = lib.bodies[oo[1]]
                        cont = events_of(lib, cb, "blockdir::BlockDir::contains")
                        if cont:
                            # the closure must return the result of contains on the element's hash
                            ret_from = flow.origins_x(lib, cb, 0)
                            arg_from = flow.origins_x(lib, cb, cont[0].args[1])
                            if "blockdir::BlockDir::contains" in flow.origin_calls(ret_from) and \
                                    any(x[0] == "param" and "hash" in x[2] for x in arg_from):
                                closure_ok = True
            if over_basis and closure_ok:
                out.append(e)
    return out


def heuristic_shape(ck, w, rule_id):
    """PRED: content_heuristically_unchanged returns true only if kind, mtime and size
    are equal, each compared on BOTH parameters."""
    lib = w.lib
    o = ck.ob(rule_id, "content_heuristically_unchanged(new, basis) is true only when kind, mtime and size are all equal on both entries")
    hb = lib.bodies.get(HEUR)
    if hb is None:
        ck.fail(o, HEUR, "anchor-missing", "heuristic not found")
        return False
    try:
        paths = pred.enumerate_paths(lib, hb)
    except (pred.NotLoopFree, pred.TooManyPaths) as ex:
        ck.fail(o, HEUR, "not a finite predicate", str(ex))
        return False
    params = [hb.local_names.get(i, str(i)) for i in range(1, hb.arg_count + 1)]

    def sel(p):
        r = p["ret"]
        if r[0] == "const":
            return dict(p["constraints"]) if r[1] != 0 else None
        if r[0] == "atom":
            c = dict(p["constraints"])
            c[r[1]] = not r[2]
            return c
        return dict(p["constraints"])   # unknown result: may be true
    common, n = pred.atoms_true_when(paths, sel)
    need = []
    for acc in ("kind", "mtime", "size"):
        need.append(("eq", frozenset("%s(%s)" % (acc, p) for p in params)))
    missing = [a for a in need if (a, True) not in common]
    if n == 0:
        ck.fail(o, HEUR, "never true", "the heuristic can never return true")
        return False
    if missing:
        ck.fail(o, HEUR, "heuristic weaker than kind&&mtime&&size",
                "a true result does not imply %s (implied: %s)" % (
                    [sorted(a[1]) for a in missing], sorted(str(sorted(a[1])) + "=" + str(v) for a, v in common)))
        return False
    ck.ok(o, "%d path(s), %d true-paths; implied: %s" % (len(paths), n, sorted(sorted(a[1])[0].split("(")[0] for a in need)), instances=len(paths))
    return True


def reuse_guarded(ck, w, rule_id):
    """GUARD: the only construction that copies basis addrs is behind heuristic==true and
    all(contains)==true, with the heuristic applied to (source_entry, basis_entry)."""
    lib = w.lib
    cfb, sites = reuse_sites(w)
    o = ck.ob(rule_id, "copy_file reuses the basis entry's addresses only if the unchanged-heuristic AND the block-presence test were true")
    if not sites:
        ck.fail(o, cfb.name, "no reuse of basis addresses", "copy_file never reuses basis addresses (incremental backup lost)")
        return False
    heur = events_of(lib, cfb, HEUR)
    pres = presence_tests(w, cfb)
    if not heur:
        ck.fail(o, cfb.name, "heuristic not consulted", "content_heuristically_unchanged is not called in copy_file")
        return False
    if not pres:
        ck.fail(o, cfb.name, "presence test missing", "no all(|a| block_dir.contains(&a.hash)) over basis_entry.addrs")
        return False
    he = set()
    for e in heur:
        he |= rules.bool_switch_edges(cfb, e, True)
        a0 = flow.origins_x(lib, cfb, e.args[0])
        a1 = flow.origins_x(lib, cfb, e.args[1])
        if not any(x[0] == "param" and x[1] == "source_entry" for x in a0) or not any(x[0] == "param" and x[1] == "basis_entry" for x in a1):
            ck.fail(o, cfb.name, "heuristic applied to the wrong entries",
                    "arguments derive from %s / %s" % (flow.origin_summary(a0), flow.origin_summary(a1)), e.site())
            return False
    pe = set()
    for e in pres:
        pe |= rules.bool_switch_edges(cfb, e, True)
    good = True
    for bb, s, orig in sites:
        if not he or not cfb.must_pass_edges(he, bb):
            good = False
            ck.fail(o, cfb.name, "reuse not guarded by the unchanged-heuristic",
                    "basis addresses reused on a path where the heuristic was not true: %s" % rules.witness(cfb, bb, removed_edges=he),
                    "%s:%d" % (cfb.file, s["line"]))
        if not pe or not cfb.must_pass_edges(pe, bb):
            good = False
            ck.fail(o, cfb.name, "reuse not guarded by the presence test",
                    "basis addresses reused without all blocks present: %s" % rules.witness(cfb, bb, removed_edges=pe),
                    "%s:%d" % (cfb.file, s["line"]))
    if good:
        ck.ok(o, "%d reuse site(s)" % len(sites), sites=["%s:%d" % (cfb.file, s["line"]) for bb, s, _ in sites], instances=len(sites))
    return good
