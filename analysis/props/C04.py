"""C04 - Storage errors never make the archive record wrong content or a false success."""
import re

from cv import err, flow, pair, rules
from cv.rules import events_of, order_after_success
from props import common

from props import errscope

TITLE = "Storage errors never make the archive record wrong content or a false success"
TECHNIQUE = 'static analysis: paired-state dataflow (buffer/queue), error-discipline classification of storage results over the call graph, dominance'
EXPLANATION = (
    "Decided: (1) PAIR - the small-file buffer and the queue of offsets into it are reset together on every exit "
    "(success and error) of every FileCombiner method, so a failed combined-block write cannot leave queued files "
    "pointing into a later buffer; (2) ERR - every result of a storage operation in the bodies reachable from "
    "backup() is propagated, reported through the monitor, or a listed conservative idiom, and none is unwrapped; "
    "(3) the arm of backup() that contains a per-entry failure reports it (monitor.error and stats.errors); "
    "(4) failures of the index hunk / tail writes are propagated out of backup() and those writes are not "
    "reachable from inside the contained region; (5) caches are updated only after the write succeeded."
)
UNDECIDED = ["'restores exactly if it reported success' as a whole (run-time)", "multi-fault sequences beyond what the per-site rules imply"]
ASSUMPTIONS = ["fault model: any Transport operation may return Err; source-file read errors are outside this property"]

# ERR idioms accepted on the backup path (function, callee, detail) -> reason
ERR_ALLOWED = {
    ("index::IndexHunkIter::next", "index::IndexRead::read_hunk", None):
        "a basis hunk that cannot be read only makes the affected files look new: they are stored again (no wrong content); "
        "the same site IS a violation for gc (C05) and validate/restore (C09/C10)",
    ("index::stitch::Stitch::next", "archive::Archive::band_is_closed", "unwrap_or"):
        "basis stitching: an unreadable tail is treated as 'incomplete', which only widens the basis",
    ("index::stitch::previous_existing_band", "archive::Archive::band_exists", "unwrap_or"):
        "basis stitching: an unreadable head ends the walk back; files are stored again",
    ("index::stitch::Stitch::next", "band::Band::open", None):
        "reported through monitor.error; the basis band is skipped and files are stored again",
}


def run(ck, w):
    lib = w.lib
    g = w.graph

    # ---- 1. PAIR(FileCombiner, buf, queue) -----------------------------------------------------------
    methods = [n for n, b in lib.bodies.items() if b.kind == "assoc_fn" and (b.self_ty or "") == "backup::FileCombiner"]
    ck.floor("C04.1.n", "FileCombiner methods analysed (flush, drain, push_file at least)", len(methods), 3)
    touched = 0
    for m in sorted(methods):
        b = lib.main_body(m)
        ra = pair.reset_events(lib, b, "buf")
        rq = pair.reset_events(lib, b, "queue")
        if not ra and not rq:
            continue
        touched += 1
        o = ck.ob("C04.1." + m.split("::")[-1], "%s: buf and queue are reset together on every exit" % m)
        states = pair.exit_states(b, ra, rq)
        bad = sorted({st for sts in states.values() for st in sts if st[0] != st[1]})
        if bad:
            for st in bad:
                path = pair.mismatch_witness(b, ra, rq, st)
                desc = []
                for bb in path or []:
                    t = b.blocks[bb]["term"]
                    if t["tk"] == "call" and not (t.get("mac") or "").startswith(("trace", "debug")):
                        nm = (t.get("resolved") or t.get("callee") or "?")
                        if re.search(r"take$|drain$|from_residual|store_or_deduplicate|clear$", nm):
                            desc.append("%s@L%s" % (nm.split("::")[-1].replace("{closure#0}", "poll"), t["line"]))
                which = "buf reset but queue kept" if st[0] else "queue reset but buf kept"
                ck.fail(o, m, which + " on an exit",
                        "an exit leaves %s (resets: buf %s, queue %s); path: %s" % (
                            which, [d for _, d in ra], [d for _, d in rq], " -> ".join(desc)),
                        "%s:%d" % (b.file, b.lo))
        else:
            ck.ok(o, "buf resets %s, queue resets %s, %d exit(s)" % ([d for _, d in ra], [d for _, d in rq], len(states)), instances=len(states))
    ck.floor("C04.1.m", "FileCombiner methods that reset buf or queue", touched, 1)

    # ---- 2. ERR scoped to backup -------------------------------------------------------------------------
    o = ck.ob("C04.2", "no result of a storage operation reachable from backup() is swallowed or unwrapped")
    scope = g.reachable_from(["backup::backup"])
    storage = {"T_READ", "T_LIST", "T_META", "T_MKDIR", "T_WRITE", "T_REMOVE"}
    n_sites = 0
    bad = []
    for n in sorted(scope):
        b = lib.bodies.get(n)
        if b is None or not b.file.startswith("src/") or b.kind in ("const", "static", "anon_const"):
            continue
        if re.match(r"src/(transport|monitor|termui|source)", b.file) or rules.is_derive_body(b):
            continue
        for s in err.result_sites(b):
            callee = s.callee_short()
            eff = g.effects.get(callee, set()) | __import__("cv.graph", fromlist=["x"]).primitive_effects(callee)
            if not (eff & storage):
                continue
            n_sites += 1
            if s.fate in ("swallowed", "panicked", "logged"):
                k1 = (b.root, callee, s.detail)
                k2 = (b.root, callee, None)
                if k1 in ERR_ALLOWED or k2 in ERR_ALLOWED or errscope.allowed_kind_conversion(s):
                    continue
                bad.append(s)
            elif s.fate == "reported" and (b.root, callee, None) not in ERR_ALLOWED and b.root not in ("backup::backup",):
                # reported-only outside the containment loop: fine if it is monitor.error
                pass
    ck.floor("C04.2.n", "storage-operation results on the backup path", n_sites, 20)
    if bad:
        for s in bad:
            ck.fail(o, s.body.root, "%s result %s (%s)" % (s.callee_short().split("::")[-1], s.fate, s.detail),
                    "the result of %s is %s (%s) on the backup path" % (s.callee_short(), s.fate, s.detail), s.event.site())
    else:
        ck.ok(o, "%d site(s); accepted idioms: %d" % (n_sites, len(ERR_ALLOWED)), instances=n_sites)

    # ---- 3. containment reports ----------------------------------------------------------------------------
    bk = w.body("backup::backup")
    o = ck.ob("C04.3", "backup(): a failed copy_entry is reported (monitor.error) and counted (stats.errors) before continuing")
    ce = events_of(lib, bk, "backup::BackupWriter::copy_entry")
    if not ce:
        ck.fail(o, bk.name, "no copy_entry", "copy_entry is not awaited in backup()")
    else:
        site = err.classify(bk, ce[0])
        err_edges = set()
        carr = flow.result_carriers(bk, ce[0].dest["l"])
        for (sb, tested, arms, other) in flow.discriminant_switches(bk, carr):
            if bk.locals[tested].startswith("std::result::Result"):
                err_edges.add((sb, arms[1] if 1 in arms else other))
        counted = False
        for bb, j, s in bk.all_assigns():
            p = s["pl"]["p"]
            if p and p[-1].startswith("f:") and p[-1].split(":", 2)[2] == "errors":
                if err_edges and bk.must_pass_edges(err_edges, bb):
                    counted = True
        if site.fate == "propagated":
            ck.ok(o, "copy_entry errors abort the backup (propagated)")
        elif site.fate != "reported":
            ck.fail(o, bk.name, "copy_entry error %s" % site.fate, "a failed entry is %s (%s)" % (site.fate, site.detail), ce[0].site())
        elif not counted:
            ck.fail(o, bk.name, "copy_entry error not counted", "stats.errors is not incremented on the containment arm", ce[0].site())
        else:
            ck.ok(o, "monitor.error + stats.errors += 1", sites=[ce[0].site()])
    o = ck.ob("C04.3b", "the error count incremented in backup() is part of the returned stats")
    okr = False
    for bb, j, s in [x for x in rules.agg_sites(bk, "std::result::Result", "Ok") if x[2]["pl"]["l"] == 0]:
        orig = flow.origins_x(lib, bk, s["rv"]["ops"][0])
        okr = True
    # stats local: the one whose .errors is incremented must be the one returned
    inc_locals = set()
    for bb, j, s in bk.all_assigns():
        p = s["pl"]["p"]
        if p and p[-1].startswith("f:") and p[-1].split(":", 2)[2] == "errors":
            inc_locals.add(s["pl"]["l"])
    ret_locals = set()
    for bb, j, s in [x for x in rules.agg_sites(bk, "std::result::Result", "Ok") if x[2]["pl"]["l"] == 0]:
        l = flow.operand_local(s["rv"]["ops"][0])
        if l is not None:
            ret_locals |= flow.result_carriers(bk, l) | {l}
            # follow moves backwards
            for (b2, i2, kind, payload) in bk.defs.get(l, []):
                if kind == "assign" and payload["rv"]["rk"] == "use":
                    l2 = flow.operand_local(payload["rv"]["ops"][0])
                    if l2 is not None:
                        ret_locals.add(l2)
    if inc_locals and inc_locals & ret_locals:
        ck.ok(o)
    else:
        ck.fail(o, bk.name, "error count not returned", "the stats whose errors are incremented (%s) are not the returned ones (%s)" % (sorted(inc_locals), sorted(ret_locals)))

    # ---- 4. abort on index / tail failure ---------------------------------------------------------------------
    for rid, fn in (("C04.4a", "backup::BackupWriter::flush_group"), ("C04.4b", "backup::BackupWriter::finish")):
        o = ck.ob(rid, "backup(): a failure of %s is propagated to the caller" % fn.split("::")[-1])
        evs = events_of(lib, bk, fn)
        if not evs:
            ck.fail(o, bk.name, "no %s" % fn, "%s not awaited in backup()" % fn)
            continue
        fates = [err.classify(bk, e) for e in evs]
        badf = [s for s in fates if s.fate != "propagated"]
        if badf:
            ck.fail(o, bk.name, "%s error %s" % (fn.split("::")[-1], badf[0].fate), "result is %s (%s)" % (badf[0].fate, badf[0].detail), evs[0].site())
        else:
            ck.ok(o, sites=[e.site() for e in evs], instances=len(evs))
    o = ck.ob("C04.4c", "hunk and tail writes are not reachable from the contained region (copy_entry)")
    inner = g.reachable_from(["backup::BackupWriter::copy_entry"])
    hit = [n for n in ("index::write::IndexWriter::finish_hunk", "band::Band::close", "jsonio::write_json") if n in inner]
    if hit:
        ck.fail(o, "backup::BackupWriter::copy_entry", "index write inside the contained region", "%s reachable from copy_entry" % hit)
    else:
        ck.ok(o, "%d bodies reachable from copy_entry" % len(inner))
    for rid, fn, inner_fn in (("C04.4d", "backup::BackupWriter::flush_group", "index::write::IndexWriter::finish_hunk"),
                              ("C04.4e", "backup::BackupWriter::flush_group", "backup::FileCombiner::drain"),
                              ("C04.4f", "backup::BackupWriter::finish", "band::Band::close"),
                              ("C04.4g", "backup::BackupWriter::finish", "index::write::IndexWriter::finish"),
                              ("C04.4h", "index::write::IndexWriter::finish_hunk", "transport::Transport::write"),
                              ("C04.4i", "backup::FileCombiner::flush", "blockdir::BlockDir::store_or_deduplicate"),
                              ("C04.4j", "backup::store_file_content", "blockdir::BlockDir::store_or_deduplicate"),
                              ("C04.4k", "blockdir::BlockDir::store_or_deduplicate", "transport::Transport::write"),
                              ("C04.4l", "band::Band::close", "jsonio::write_json"),
                              ("C04.4m", "jsonio::write_json", "transport::Transport::write")):
        if inner_fn == "backup::FileCombiner::drain" and lib.main_body(inner_fn) is None:
            inner_fn = "backup::FileCombiner::flush"          # drain merged into flush_group, its only caller
        o = ck.ob(rid, "%s propagates a failure of %s" % (fn.split("::")[-1], inner_fn.split("::")[-1]))
        b = w.body(fn)
        evs = events_of(lib, b, inner_fn)
        if not evs:
            ck.fail(o, fn, "no %s" % inner_fn, "%s not called in %s" % (inner_fn, fn))
            continue
        badf = [s for s in (err.classify(b, e) for e in evs) if s.fate != "propagated"]
        if badf:
            ck.fail(o, fn, "%s error %s" % (inner_fn.split("::")[-1], badf[0].fate), "result is %s (%s)" % (badf[0].fate, badf[0].detail), evs[0].site())
        else:
            ck.ok(o, instances=len(evs))

    # ---- 5. caches after success -------------------------------------------------------------------------------
    sd = w.body("blockdir::BlockDir::store_or_deduplicate")
    o = ck.ob("C04.5", "store_or_deduplicate updates the present set and the content cache only after the write succeeded")
    ins = [e for e in sd.events if e.bb in sd.live and re.search(r"HashSet::<T, S, A>::insert$|LruCache::<K, V, S>::(put|push)$", e.name)]
    order_after_success(ck, o, sd, events_of(lib, sd, "transport::Transport::write"), ins, "Transport::write", "cache update")
    common.protocol_dispatch_by_name(ck, w, "C04.2c")
