"""C15 - Exclusions mean the same thing at backup, list and restore time."""
import re

from cv import flow, fmtshape, rules
from cv.rules import events_of

from props import common

TITLE = "Exclusions mean the same thing at backup, list and restore time"
TECHNIQUE = 'static analysis: provenance of matcher arguments on both sides, sibling agreement of the two glob builders incl. decoded format templates, dominance (prune before queue)'
EXPLANATION = (
    "Equivalence of prune-while-walking and filter-each-entry for all patterns and trees is glob algebra and is not "
    "decided. Decided is that both sides ask the same question of the same matcher: (1) the walk calls "
    "Exclude::matches with the child's full apath (parent.append(name)) and the reader with the entry's apath; "
    "Exclude::matches is the only user of the one GlobSet; (2) add_pattern adds two globs per pattern - the pattern "
    "and the pattern followed by '/**' - both built with literal_separator(true), and prefixes '**/' exactly when the "
    "pattern does not start with '/'; (3) in the walk the exclusion test comes before the child is queued either as "
    "an entry or as a directory to descend into; (4) backup passes options.exclude to the walk and excludes nothing "
    "from the basis; restore and diff pass options.exclude to iter_entries."
    " Added: both globs are added for every pattern (C15.2); pattern lines from a file are only trimmed (C15.2b); entries read from an index are dropped only by the two tests (C15.1d)."
)
UNDECIDED = ["semantic equivalence of pruning and per-entry filtering for every glob and tree (needs glob algebra / enumeration)",
             "globset's own matching semantics (trusted)"]
ASSUMPTIONS = []


def run(ck, w):
    lib = w.lib

    # ---- 1. one matcher on full apaths ------------------------------------------------------------------
    vd = w.raw("source::Iter::visit_next_directory")
    # the per-child work may sit in a closure of the function (`dir_iter.filter_map(|de| ..)`): take the body that holds the test
    for fb_ in lib.family("source::Iter::visit_next_directory"):
        if events_of(lib, fb_, "excludes::Exclude::matches"):
            vd = fb_
            break
    o = ck.ob("C15.1a", "source walk: Exclude::matches is asked about parent_apath.append(child_name)")
    m = events_of(lib, vd, "excludes::Exclude::matches")
    if len(m) != 1:
        ck.fail(o, vd.name, "no unique exclusion test in the walk", "found %d" % len(m))
    else:
        a = flow.origins_x(lib, vd, m[0].args[1])
        r = flow.origins_x(lib, vd, m[0].args[0])
        app_bbs = {x[2] for x in a if x[0] == "call" and x[1] == "apath::Apath::append"}
        app = [e for e in vd.events if e.bb in vd.live and e.name == "apath::Apath::append" and e.bb in app_bbs]
        okk = flow.origin_calls(a) == {"apath::Apath::append"} and len(app) == 1 and any(x[0] == "param" and "exclude" in x[2] for x in r)
        if okk and app:
            ar = flow.origins_x(lib, vd, app[0].args[0])
            an = flow.origins_x(lib, vd, app[0].args[1], through_calls=[r"^std::ffi::OsStr::to_str$", r"OsString.*deref$", r"Deref>::deref$"])
            if not any(x[0] == "param" and x[1] == "parent_apath" for x in ar) or not any("file_name" in c for c in flow.origin_calls(an) | {x[1] for x in an if x[0] == "via"}):
                okk = False
        if okk:
            ck.ok(o, sites=[m[0].site()])
        else:
            ck.fail(o, vd.name, "walk tests something other than the child's full apath", "argument from %s" % flow.origin_summary(a), m[0].site())
    sn = w.body("index::stitch::Stitch::next")
    o = ck.ob("C15.1b", "archive reader: Exclude::matches is asked about the entry's own apath, on self.exclude")
    m2 = rules.predicate_sites(lib, sn, "excludes::Exclude::matches")     # direct, or through a private bool helper
    if len(m2) != 1:
        ck.fail(o, sn.name, "no unique exclusion test in the reader", "found %d" % len(m2))
    else:
        a = m2[0].arg_origins(1)
        r = m2[0].arg_origins(0)
        if any(x[0] == "call" and "apath" in x[3] for x in a) and any(x[0] in ("param", "upvar") and "exclude" in x[2] for x in r):
            ck.ok(o, sites=[m2[0].site()])
        else:
            ck.fail(o, sn.name, "reader tests something other than entry.apath", "argument from %s" % flow.origin_summary(a), m2[0].site())
    o = ck.ob("C15.1c", "Exclude::matches converts its argument to an Apath and asks the one GlobSet; nobody else uses GlobSet::is_match")
    users = {b.root for b in rules.user_bodies(lib) for e in b.events if e.bb in b.live and re.search(r"^globset::GlobSet::(is_match|matches|is_match_candidate)", e.name)}
    mb = lib.bodies.get("excludes::Exclude::matches")
    if users != {"excludes::Exclude::matches"} or mb is None:
        ck.fail(o, ",".join(sorted(users)) or "-", "matcher used elsewhere", "GlobSet::is_match users: %s" % sorted(users))
    else:
        im = [e for e in mb.events if e.bb in mb.live and e.name == "globset::GlobSet::is_match"][0]
        r = flow.origins_x(lib, mb, im.args[0])
        a = flow.origins_x(lib, mb, im.args[1])
        if any(x[0] == "param" and "globset" in x[2] for x in r) and any(x[0] == "param" and x[1] == "apath" for x in a):
            ck.ok(o)
        else:
            ck.fail(o, mb.name, "matches() no longer tests its argument against self.globset", "receiver %s argument %s" % (flow.origin_summary(r), flow.origin_summary(a)))

    # ---- 2. pattern expansion --------------------------------------------------------------------------------
    ap = lib.bodies.get("excludes::add_pattern")
    o = ck.ob("C15.2", "add_pattern: adds `pattern` and `pattern/**`, both with literal_separator(true); prefixes `**/` iff the pattern does not start with '/'")
    if ap is None:
        ck.fail(o, "excludes::add_pattern", "anchor-missing", "not found")
    else:
        problems = []
        adds = [e for e in ap.events if e.bb in ap.live and e.name == "globset::GlobSetBuilder::add"]
        builds = [e for e in ap.events if e.bb in ap.live and e.name == "globset::GlobBuilder::<'a>::build"]
        news = [e for e in ap.events if e.bb in ap.live and e.name == "globset::GlobBuilder::<'a>::new"]
        seps = [e for e in ap.events if e.bb in ap.live and e.name == "globset::GlobBuilder::<'a>::literal_separator"]
        if len(adds) != 2 or len(news) != 2:
            problems.append("expected two globs per pattern, found %d add / %d new" % (len(adds), len(news)))
        # both globs are added for EVERY pattern: each add lies on every path to the Ok return
        ok_rets = [bb for bb, j, st in rules.agg_sites(ap, "std::result::Result", "Ok") if st["pl"]["l"] == 0 and not st["pl"]["p"]]
        if not ok_rets:
            problems.append("no Ok(()) return found")
        for a_ in adds:
            for rb in ok_rets:
                if not ap.must_pass_nodes({a_.bb}, rb):
                    problems.append("a glob is added only for some patterns (a GlobSetBuilder::add can be bypassed)")
        if len(seps) != len(news) or not all(len(e.args) > 1 and e.args[1].get("int") == "1" for e in seps):
            problems.append("not every glob is built with literal_separator(true)")
        other_opts = [e for e in ap.events if e.bb in ap.live and e.name.startswith("globset::GlobBuilder::<'a>::") and
                      e.name.split("::")[-1] not in ("new", "literal_separator", "build")]
        if other_opts:
            problems.append("glob builders differ in options: %s" % sorted({e.name.split("::")[-1] for e in other_opts}))
        sites = fmtshape.format_sites(ap)
        shapes = [tuple((p[0], p[1]) if p[0] == "lit" else ("arg",) for p in pieces) for e, pieces, vals in sites]
        if (("lit", "**/"), ("arg",)) not in shapes:
            problems.append("no `**/{pattern}` prefixing")
        if (("arg",), ("lit", "/**")) not in shapes:
            problems.append("no `{pattern}/**` expansion")
        sw = [e for e in ap.events if e.bb in ap.live and e.name.endswith("<impl str>::starts_with")]
        if not sw or not (sw[0].args[1].get("int") == "47"):
            problems.append("anchoring test is not starts_with('/')")
        else:
            # the prefixing format is on the starts_with == false side
            fe = rules.bool_switch_edges(ap, sw[0], False)
            for e, pieces, vals in sites:
                if pieces and pieces[0] == ("lit", "**/"):
                    if not ap.must_pass_edges(fe, e.bb):
                        problems.append("`**/` is added to anchored patterns too")
        # second glob derives from the (possibly prefixed) first pattern
        if len(news) == 2 and sites:
            for e, pieces, vals in sites:
                if pieces and pieces[-1] == ("lit", "/**"):
                    src = flow.origins_x(lib, ap, vals[0]) if vals and vals[0] else set()
                    first = flow.origins_x(lib, ap, news[0].args[0])
                    if not ({x for x in src if x[0] in ("param", "call")} & {x for x in first if x[0] in ("param", "call")}):
                        problems.append("the `/**` glob is not derived from the same pattern as the first glob")
        if problems:
            for m_ in problems:
                ck.fail(o, ap.name, m_, m_)
        else:
            ck.ok(o, "shapes=%s" % shapes, instances=2)

    # ---- 2b. patterns read from a file ---------------------------------------------------------------------------
    o = ck.ob("C15.2b", "add_patterns_from_file gives add_pattern each non-blank line that does not START with '#', trimmed but otherwise whole "
                        "(a pattern is never cut at a '#', split, or rewritten)")
    fam = lib.family("excludes::add_patterns_from_file")
    if not fam:
        fam = [b_ for b_ in lib.family("excludes::Exclude::from_patterns_and_files")]
    cutters = re.compile(r"<impl str>::(split|splitn|rsplit|rsplitn|split_once|rsplit_once|split_terminator|find|rfind|replace|replacen|trim_matches|"
                         r"trim_start_matches|trim_end_matches|strip_prefix|strip_suffix|to_lowercase|to_uppercase|to_ascii_lowercase|char_indices|get)$|"
                         r"str>::index$|ops::Index<.*> for str>::index$|<impl std::ops::Index<I> for str>::index$|"
                         # ... or built anew from the line: format!, push_str, +, concat / join
                         r"^(alloc|std)::fmt::format$|String::(push_str|push|insert|insert_str)$|<impl \[.*\]>::(concat|join)$|"
                         r"ops::Add<&str>>::add$|ops::Add<.*> for std::string::String>::add$")
    builders = re.compile(r"^(alloc|std)::fmt::format$|String::(push_str|push|insert|insert_str)$|<impl \[.*\]>::(concat|join)$|ops::Add<.*>>::add$")
    fed = set()          # what the pattern handed to add_pattern is made by
    for fb in fam:
        for e in fb.events:
            if e.bb in fb.live and e.name == "excludes::add_pattern" and len(e.args) > 1:
                oo = flow.origins_x(lib, fb, e.args[1], through_all=[r"Deref>?::deref$", r"String::as_str$", r"AsRef<.*>>?::as_ref$", r"Borrow<.*>>?::borrow$"])
                fed |= flow.origin_calls(oo)
    cut = [(fb, e) for fb in fam for e in fb.events if e.bb in fb.live and cutters.search(e.name) and (not builders.search(e.name) or e.name in fed)]
    has_lines = any(e.name.endswith("<impl str>::lines") for fb in fam for e in fb.events if e.bb in fb.live)
    hash_test = False
    for fb in fam:
        for e in fb.events:
            if e.bb in fb.live and e.name.endswith("<impl str>::starts_with") and len(e.args) > 1 and e.args[1].get("int") == "35":
                hash_test = True
    if not fam or not has_lines:
        ck.fail(o, "excludes::add_patterns_from_file", "anchor-missing", "no line-wise reading of the pattern file found")
    elif cut:
        fb, e = cut[0]
        ck.fail(o, "excludes::add_patterns_from_file", "a pattern line is cut or rewritten", "%s is applied to a line of the pattern file: "
                "patterns containing that text are no longer used as written" % e.name.split("::")[-1], e.site())
    elif not hash_test:
        ck.fail(o, "excludes::add_patterns_from_file", "comment lines are not recognised by starts_with('#')", "no starts_with('#') test on the lines")
    else:
        ck.ok(o)

    o = ck.ob("C15.2c", "Exclude::from_patterns_and_files consumes ALL the patterns and ALL the pattern files it is given: its only Ok result is built "
                        "from the GlobSetBuilder that received them (no shortcut returns an empty or partial set)")
    fpf = lib.bodies.get("excludes::Exclude::from_patterns_and_files")
    if fpf is None:
        ck.fail(o, "excludes::Exclude::from_patterns_and_files", "anchor-missing", "not found")
    else:
        oks_ = [(bb, st) for bb, j, st in rules.agg_sites(fpf, "std::result::Result", "Ok") if st["pl"]["l"] == 0]
        probs_ = []
        for bb, st in oks_:
            ro = flow.origins_x(lib, fpf, st["rv"]["ops"][0], through_calls=[r"Try>?::branch$"])
            rc = flow.origin_calls(ro)
            if not any(c.endswith("GlobSetBuilder::build") for c in rc) or any(c.endswith("Exclude::nothing") or c.endswith("GlobSet::empty") for c in rc):
                probs_.append("an Ok result is not built from the filled GlobSetBuilder (%s)" % sorted(c.split("::")[-1] for c in rc))
        loops = [e for e in fpf.events if e.bb in fpf.live and e.callee == "std::iter::Iterator::next"]
        srcs_ = set()
        for e in loops:
            for x in flow.origins_x(lib, fpf, e.args[0], through_calls=[r"IntoIterator>?::into_iter$"]):
                if x[0] == "param":
                    srcs_.add(x[1])
        adapters_ = {x[1] for e in fpf.events if e.bb in fpf.live and re.search(r"Iterator>?::(try_for_each|for_each|try_fold)$", e.name)
                     for x in flow.origins_x(lib, fpf, e.args[0], through_calls=[r"IntoIterator>?::into_iter$"]) if x[0] == "param"}
        if not ({"exclude", "exclude_from"} <= (srcs_ | adapters_)):
            probs_.append("not both inputs are iterated (iterated: %s)" % sorted(srcs_ | adapters_))
        builds = [e for e in fpf.events if e.bb in fpf.live and e.name.endswith("GlobSetBuilder::build")]
        for e in loops:
            # each loop is unavoidable before the build
            if builds and not all(fpf.must_pass_nodes({e.bb}, b_.bb) for b_ in builds):
                probs_.append("an input loop can be bypassed before the set is built")
        if not oks_:
            probs_.append("no Ok return")
        if probs_:
            for m_ in sorted(set(probs_)):
                ck.fail(o, fpf.name, m_.split(" (")[0], m_)
        else:
            ck.ok(o, "%d Ok return(s)" % len(oks_), instances=len(oks_))

    # ---- 3. prune really prunes ---------------------------------------------------------------------------------
    o = ck.ob("C15.3", "source walk: a child is queued (as an entry, or as a directory to descend into) only after Exclude::matches was false")
    if m:
        fe = rules.bool_switch_edges(vd, m[0], False)
        pushes = [e for e in vd.events if e.bb in vd.live and e.name.endswith("Vec::<T, A>::push")]
        named = []
        for e in pushes:
            l = flow.operand_local(e.args[0])
            nm = None
            for (bb, idx, kind, payload) in vd.defs.get(l, []):
                if kind == "assign" and payload["rv"]["rk"] == "ref":
                    nm = vd.local_names.get(payload["rv"]["pl"]["l"])
            named.append((nm, e))
        # inside a closure the two queues are captured variables; a child may also be handed on by returning Some((name, entry))
        for i_, (nm, e) in enumerate(named):
            if nm is None:
                for x in flow.origins_x(lib, vd, e.args[0]):
                    if x[0] in ("upvar", "param") and (x[1] in ("children", "subdir_apaths") or (x[2] and x[2][-1] in ("children", "subdir_apaths"))):
                        named[i_] = (x[1] if x[1] in ("children", "subdir_apaths") else x[2][-1], e)
        class _Ret:
            def __init__(self, bb):
                self.bb = bb
            def site(self):
                return "%s:bb%d" % (vd.file, self.bb)
        for i_, (nm, e) in enumerate(named):
            if nm is None and "Vec<apath::Apath>" in (vd.locals[flow.operand_local(e.args[0])] or ""):
                named[i_] = ("subdir_apaths", e)
        if vd.kind == "closure" and "children" not in {n for n, e in named}:
            for bb_, j_, st_ in rules.agg_sites(vd, "std::option::Option", "Some"):
                if not st_["pl"]["p"] and 0 in flow.result_carriers(vd, st_["pl"]["l"]) and "Entry" in (vd.locals[st_["pl"]["l"]] or ""):
                    named.append(("children", _Ret(bb_)))
        need = {"children", "subdir_apaths"}
        have = {n for n, e in named}
        if not need <= have:
            ck.fail(o, vd.name, "queueing changed", "pushes onto %s" % sorted(str(x) for x in have))
        else:
            bad = [(n, e) for n, e in named if n in need and not vd.must_pass_edges(fe, e.bb)]
            if bad:
                for n, e in bad:
                    ck.fail(o, vd.name, "%s.push not behind the exclusion test" % n, "an excluded child can still be queued in %s" % n, e.site())
            else:
                ck.ok(o, instances=len(named))
    else:
        ck.fail(o, vd.name, "no exclusion test", "walk does not consult the exclusions")

    # ---- 4. plumbing -----------------------------------------------------------------------------------------------
    bk = w.body("backup::backup")
    o = ck.ob("C15.4a", "backup(): the source walk gets options.exclude; the basis is read with Exclude::nothing()")
    ie = rules.creators_of(bk, "source::SourceTree::iter_entries")
    sn_new = rules.creators_of(bk, "index::stitch::Stitch::new")
    good = bool(ie) and bool(sn_new)
    if good:
        a = flow.origins_x(lib, bk, ie[0].args[2])
        b_ = flow.origins_x(lib, bk, sn_new[0].args[3])
        if not any(x[0] in ("param", "upvar") and "exclude" in x[2] and x[1] == "options" for x in a):
            good = False
            ck.fail(o, bk.name, "walk not given options.exclude", "exclude from %s" % flow.origin_summary(a), ie[0].site())
        if flow.origin_calls(b_) != {"excludes::Exclude::nothing"}:
            good = False
            ck.fail(o, bk.name, "basis filtered", "basis exclude from %s" % flow.origin_summary(b_), sn_new[0].site())
    else:
        ck.fail(o, bk.name, "plumbing changed", "iter_entries / Stitch::new not found")
    if good:
        ck.ok(o)
    it = lib.bodies.get("source::SourceTree::iter_entries")
    inew = lib.bodies.get("source::Iter::new")
    o = ck.ob("C15.4b", "SourceTree::iter_entries -> Iter::new -> Iter.exclude keep the exclusion set unchanged")
    good = it is not None and inew is not None
    if good:
        c = rules.creators_of(it, "source::Iter::new")
        a = flow.origins_x(lib, it, c[0].args[2]) if c else set()
        if not c or {x[1] for x in a if x[0] == "param"} != {"exclude"}:
            good = False
        st = rules.agg_sites(inew, "source::Iter")
        if not st or {x[1] for x in flow.origins_x(lib, inew, rules.field_operand(st[0][2], "exclude")) if x[0] == "param"} != {"exclude"}:
            good = False
    if good:
        ck.ok(o)
    else:
        ck.fail(o, "source::SourceTree::iter_entries", "exclude not forwarded to the walk", "plumbing changed")
    for rid, fn, callee, idx in (("C15.4c", "restore::restore", "stored_tree::StoredTree::iter_entries", 2),
                                 ("C15.4d", "diff::diff", "stored_tree::StoredTree::iter_entries", 2),
                                 ("C15.4e", "diff::diff", "source::SourceTree::iter_entries", 2)):
        o = ck.ob(rid, "%s passes options.exclude to %s" % (fn, callee.split("::", 1)[1]))
        b = w.body(fn)
        c = rules.creators_of(b, callee)
        if not c:
            ck.fail(o, fn, "no %s" % callee, "call not found")
            continue
        a = flow.origins_x(lib, b, c[0].args[idx])
        if any(x[0] in ("param", "upvar") and "exclude" in x[2] and x[1] == "options" for x in a):
            ck.ok(o, sites=[c[0].site()])
        else:
            ck.fail(o, fn, "exclude not from options", "exclude from %s" % flow.origin_summary(a), c[0].site())
    for rid, fn, callee, idx in (("C15.4f", "archive::Archive::iter_entries", "stored_tree::StoredTree::iter_entries", 2),
                                 ("C15.4g", "stored_tree::StoredTree::iter_entries", "index::stitch::Stitch::new", 3)):
        o = ck.ob(rid, "%s forwards its exclude parameter unchanged" % fn.split("::", 1)[1])
        b = w.body(fn)
        c = rules.creators_of(b, callee)
        a = flow.origins_x(lib, b, c[0].args[idx]) if c else set()
        if c and {x[1] for x in a if x[0] == "param"} == {"exclude"} and not [x for x in a if x[0] not in ("param", "via")]:
            ck.ok(o)
        else:
            ck.fail(o, fn, "exclude not forwarded by identity", "argument from %s" % flow.origin_summary(a))
    for i, adt in enumerate(("BackupOptions", "RestoreOptions", "DiffOptions")):
        common.cli_option(ck, w, "C15.4h%d" % i, adt, "exclude", ("call", "Exclude::from_patterns_and_files"))
    common.stitch_drops_only_filtered(ck, w, "C15.1d")
