"""C14 - Work already stored is never stored again."""
import re

from cv import flow, rules
from cv.rules import events_of
from props import common

TITLE = "Work already stored is never stored again"
TECHNIQUE = 'static analysis: guard analysis (dedup before write), effect-free region after the unchanged guard, provenance of the basis choice, ordering table of the basis/source merge'
EXPLANATION = (
    "Decided: (1) a block file is written only when the present set says the hash is absent, and the present set "
    "is initialised from a listing of the block directory when it is opened (which is what lets a resumed run skip "
    "blocks the interrupted run stored); (2) on the unchanged path of copy_file (heuristic true and all blocks "
    "present) nothing opens the source file, stores content or writes to the archive, and the recorded addresses "
    "are the basis entry's; (3) the basis of a backup is the NEWEST band (last_band_id), complete or not, read "
    "through the stitcher, so a resumed run reuses the interrupted run's entries; (4) the merge that pairs each "
    "source entry with its basis entry aligns the two streams by Apath::cmp and emits Both only on Equal, which is "
    "the precondition of any reuse (a mis-paired unchanged file would be stored again)."
    " Added in later rounds: every Ok return after a write has recorded the block as present (C14.1d); the reuse site's deciding tests are exactly {basis present, heuristic, presence} (C14.2d); the heuristic consults kind, mtime and size only (C14.2e); the basis/source merge table (C14.4)."
)
UNDECIDED = ["'each distinct content written at most once in any history' (needs the history; concurrent writers excluded)",
             "counts of block writes for particular trees"]
ASSUMPTIONS = []


def run(ck, w):
    lib = w.lib
    g = w.graph
    sd = w.body("blockdir::BlockDir::store_or_deduplicate")
    o = ck.ob("C14.1a", "store_or_deduplicate writes (and creates the subdirectory) only when contains(hash) was false")
    writes = events_of(lib, sd, "transport::Transport::write") + events_of(lib, sd, "transport::Transport::create_dir")
    cont = events_of(lib, sd, "blockdir::BlockDir::contains")
    rules.guarded_by_bool(ck, o, sd, cont, False, writes, "contains(hash)", "block write")
    o = ck.ob("C14.1b", "on the contains==true path store_or_deduplicate returns the hash without compressing or writing")
    te = set()
    for e in cont:
        te |= rules.bool_switch_edges(sd, e, True)
    if not te:
        ck.fail(o, sd.name, "contains not branched on", "no branch on contains(hash)")
    else:
        region = set()
        for (u, v) in te:
            region |= sd.reachable(v)
        bad = [e for e in sd.events if e.bb in region and e.bb in sd.live and
               ({"T_WRITE", "T_MKDIR"} & g.event_effects(lib, e) or e.name.endswith("Compressor::compress"))]
        if bad:
            ck.fail(o, sd.name, "work on the dedup path", "%s reachable after contains==true" % bad[0].name, bad[0].site())
        else:
            ck.ok(o)
    o = ck.ob("C14.1c", "contains() consults the present set, which BlockDir::open fills from list_blocks")
    cb = w.raw("blockdir::BlockDir::contains")
    reads = [e for e in cb.events if e.bb in cb.live and e.name.endswith("HashSet::<T, S, A>::contains")]
    op = w.body("blockdir::BlockDir::open")
    okk = False
    for bb, j, s in rules.agg_sites(op, "blockdir::BlockDir"):
        orig = flow.origins_x(lib, op, rules.field_operand(s, "exists"), through_calls=[r"^std::sync::RwLock::<T>::new$"])
        if "blockdir::list_blocks" in flow.origin_calls(orig):
            okk = True
    recv_ok = False
    for e in reads:
        orig = flow.origins_x(lib, cb, e.args[0], through_calls=[r"RwLock::<T>::read$", r"RwLockReadGuard.*deref$"])
        if any(x[0] == "param" and "exists" in x[2] for x in orig):
            recv_ok = True
    if okk and recv_ok:
        ck.ok(o)
    else:
        ck.fail(o, "blockdir::BlockDir::contains", "present set plumbing changed", "open fills exists from list_blocks=%s; contains reads exists=%s" % (okk, recv_ok))

    o = ck.ob("C14.1e", "backup(): every writer of blocks in one backup (the BackupWriter and its FileCombiner) works on ONE BlockDir - the same "
                        "present set - so content first stored by one is found present by the other")
    bkb = w.body("backup::backup")
    holders = []
    for fb in lib.family("backup::backup"):
        for bb, j, st in fb.all_assigns():
            rv = st["rv"]
            if rv["rk"] == "agg" and rv.get("ak") == "adt" and "block_dir" in (rv.get("fields") or []) and str(rv.get("adt", "")).startswith("backup::"):
                oo = flow.origins_x(lib, fb, rules.field_operand(st, "block_dir"), through_calls=[r"Try>?::branch$", r"Arc::<T, A>::clone$|Arc<T, A> as std::clone::Clone>::clone$"])
                srcs = {(x[1], x[2]) for x in oo if x[0] == "call" and (x[1].endswith("Archive::block_dir") or x[1].endswith("BlockDir::open"))}
                holders.append((rv["adt"], srcs, "%s:%s" % (fb.file, st.get("line"))))
    for e in bkb.events:
        if e.bb in bkb.live and e.name == "backup::FileCombiner::new" and e.args:
            oo = flow.origins_x(lib, bkb, e.args[0], through_calls=[r"Try>?::branch$", r"Arc::<T, A>::clone$|Arc<T, A> as std::clone::Clone>::clone$"])
            holders.append(("backup::FileCombiner", {(x[1], x[2]) for x in oo if x[0] == "call" and (x[1].endswith("Archive::block_dir") or x[1].endswith("BlockDir::open"))}, e.site()))
    allsrc = set()
    for _, srcs, _ in holders:
        allsrc |= srcs
    if len(holders) < 2 or not allsrc:
        ck.fail(o, bkb.name, "anchor-missing", "holders of a block_dir built in backup(): %s" % [(h[0], sorted(h[1])) for h in holders])
    elif len(allsrc) != 1 or any(h[1] != allsrc for h in holders):
        ck.fail(o, bkb.name, "block writers work on different BlockDir instances",
                "each Archive::block_dir() call lists the blocks into its own present set: %s" % [(h[0].split("::")[-1], sorted(h[1])) for h in holders], holders[0][2])
    else:
        ck.ok(o, "%d holder(s), one source" % len(holders), sites=[h[2] for h in holders], instances=len(holders))

    o = ck.ob("C14.1d", "store_or_deduplicate: every Ok return after a write has recorded the hash in the present set (the same content later in "
                        "this run is then deduplicated, whatever its size)")
    ins = [e for e in sd.events if e.bb in sd.live and re.search(r"HashSet::<T, S, A>::insert$", e.name)]
    ins = [e for e in ins if any(x[0] in ("param", "upvar") and "exists" in x[2] for x in
                                 flow.origins_x(lib, sd, e.args[0], through_calls=[r"RwLock::<T>::write$", r"RwLockWriteGuard.*deref_mut$", r"Result::<T, E>::unwrap$"]))]
    wr_edges = set()
    for e in events_of(lib, sd, "transport::Transport::write"):
        ed, _ = flow.success_edges(sd, e, "ok")
        wr_edges |= ed
    ok_rets = [bb for bb, j, s_ in rules.agg_sites(sd, "std::result::Result", "Ok") if s_["pl"]["l"] == 0]
    if not ins:
        ck.fail(o, sd.name, "present set never updated", "store_or_deduplicate does not insert into exists")
    elif not wr_edges or not ok_rets:
        ck.fail(o, sd.name, "anchor-missing", "no checked write or no Ok return")
    else:
        # Ok returns reachable over a successful write but around every exists.insert
        bad_ = []
        for (u, v) in wr_edges:
            around = sd.reachable(v, removed_nodes={e.bb for e in ins})
            bad_ += [r for r in ok_rets if r in around]
        if bad_:
            ck.fail(o, sd.name, "Ok after a write without recording the block as present",
                    "a stored block can be returned without exists.insert: identical content later in the run is written again", "%s:bb%d" % (sd.file, bad_[0]))
        else:
            ck.ok(o, sites=[ins[0].site()])

    # ---- 2. unchanged path does no content I/O -----------------------------------------------------
    common.reuse_guarded(ck, w, "C14.2a")
    cfb, sites = common.reuse_sites(w)
    o = ck.ob("C14.2b", "copy_file: once the entry is known unchanged and present, no source file is opened and nothing is stored")
    edges = set()
    for g_ in common.presence_guards(w, cfb):
        edges |= g_.true_edges
    if not edges:
        ck.fail(o, cfb.name, "no presence-true edge", "cannot locate the unchanged path")
    else:
        region = set()
        for (u, v) in edges:
            region |= cfb.reachable(v)
        forbidden = re.compile(r"^source::SourceTree::open_file$|^backup::store_file_content|^backup::FileCombiner::push_file|^std::fs::File::open$")
        bad = [e for e in cfb.events if e.bb in region and e.bb in cfb.live and
               (forbidden.search(e.name) or ({"T_WRITE", "T_MKDIR"} & g.event_effects(lib, e)))]
        pushes = [e for e in events_of(lib, cfb, "index::write::IndexWriter::push_entry") if e.bb in region]
        if bad:
            ck.fail(o, cfb.name, "content I/O on the unchanged path", "%s reachable on the unchanged path" % bad[0].name, bad[0].site())
        elif len(pushes) != 1:
            ck.fail(o, cfb.name, "unchanged path does not record exactly one entry", "%d push_entry event(s) on the unchanged path" % len(pushes))
        else:
            # and it returns from there without falling through to the store path
            rets = cfb.return_blocks()
            ck.ok(o, "region of %d block(s), 1 push_entry" % len(region), sites=[pushes[0].site()])
    o = ck.ob("C14.2c", "the entry pushed on the unchanged path is the one carrying the basis addresses")
    if sites and edges:
        region = set()
        for (u, v) in edges:
            region |= cfb.reachable(v)
        pushes = [e for e in events_of(lib, cfb, "index::write::IndexWriter::push_entry") if e.bb in region]
        good = False
        for p in pushes:
            orig = flow.origins_x(lib, cfb, p.args[1])
            if any(x[0] == "param" and x[1] == "basis_entry" and "addrs" in x[2] for x in orig):
                good = True
        if good:
            ck.ok(o)
        else:
            ck.fail(o, cfb.name, "pushed entry lacks the basis addresses", "push_entry argument does not derive from basis_entry.addrs")
    else:
        ck.fail(o, cfb.name, "no reuse site", "no reuse site found")

    # ---- 3. basis is the newest band ---------------------------------------------------------------------
    bk = w.body("backup::backup")
    o = ck.ob("C14.3", "backup(): the basis is Stitch::new(last_band_id()) - the newest band even if incomplete - merged with the source walk")
    sn = events_of(lib, bk, "index::stitch::Stitch::new")
    mt = events_of(lib, bk, "merge::MergeTrees::new")
    if not sn or not mt:
        ck.fail(o, bk.name, "basis plumbing changed", "Stitch::new or MergeTrees::new missing")
    else:
        orig = flow.origins_x(lib, bk, sn[0].args[1])
        calls = flow.origin_calls(orig)
        a0 = flow.origins_x(lib, bk, mt[0].args[0])
        if "archive::Archive::last_band_id" not in calls or "archive::Archive::last_complete_band" in calls:
            ck.fail(o, bk.name, "basis is not the newest band", "basis id derives from %s" % flow.origin_summary(orig), sn[0].site())
        elif "index::stitch::Stitch::new" not in flow.origin_calls(a0):
            ck.fail(o, bk.name, "merge does not read the basis", "MergeTrees::new first argument derives from %s" % flow.origin_summary(a0), mt[0].site())
        else:
            ck.ok(o, sites=[sn[0].site()])
    common.reuse_exactly_conditioned(ck, w, "C14.2d")
    o = ck.ob("C14.3b", "backup(): the only reason to start without a basis is that the archive has no band at all (Stitch::empty only on the None side "
                        "of last_band_id): an unopenable or interrupted newest band is left to the stitcher, which falls back to the band before it")
    se = events_of(lib, bk, "index::stitch::Stitch::empty")
    lbi_ = events_of(lib, bk, "archive::Archive::last_band_id")
    none_edges = set()
    for e in lbi_:
        car = flow.result_carriers(bk, e.dest["l"])
        for x in bk.events:
            if x.bb in bk.live and (x.callee or "").endswith("Try::branch") and x.args and flow.operand_local(x.args[0]) in car:
                car |= flow.result_carriers(bk, x.dest["l"])
        # the payload of the `?`: Option<BandId>
        pay = set()
        for bb_, j_, st_ in bk.all_assigns():
            rv_ = st_["rv"]
            if rv_["rk"] == "use" and rv_["ops"][0].get("k") in ("copy", "move") and rv_["ops"][0]["pl"]["l"] in car and rv_["ops"][0]["pl"]["p"]:
                pay |= flow.result_carriers(bk, st_["pl"]["l"])
        for (sb_, tested, arms_, other_) in flow.discriminant_switches(bk, pay | car):
            if (bk.locals[tested] or "").startswith("std::option::Option<bandid::BandId"):
                none_edges.add((sb_, arms_[0] if 0 in arms_ else other_))
    if not lbi_:
        ck.fail(o, bk.name, "anchor-missing", "backup() does not call last_band_id")
    elif se and not none_edges:
        ck.fail(o, bk.name, "anchor-missing", "cannot find the test of last_band_id() being None")
    elif se and not all(bk.must_pass_edges(none_edges, e.bb) for e in se):
        ck.fail(o, bk.name, "backup can start without a basis although bands exist", "Stitch::empty is reachable when last_band_id() returned Some(..)", se[0].site())
    else:
        ck.ok(o, "%d empty-basis site(s)" % len(se), instances=len(se))
    # ---- 2e. the unchanged test is not stricter than kind + mtime + size --------------------------------------
    o = ck.ob("C14.2e", "content_heuristically_unchanged looks at kind, mtime and size only: a metadata-only change (mode, owner) does not "
                        "make the content look changed")
    fam = lib.family(common.HEUR)
    extra = []
    n_acc = 0
    for fb in fam:
        for e in fb.events:
            if e.bb not in fb.live:
                continue
            m = re.search(r"EntryTrait>?::(\w+)$", e.callee or "") or re.search(r"EntryTrait>::(\w+)$", e.name)
            if m:
                n_acc += 1
                if m.group(1) not in ("kind", "mtime", "size", "apath"):
                    extra.append((e, m.group(1)))
            elif re.search(r"change::EntryChange::|diff_metadata", e.name):
                extra.append((e, e.name.split("::")[-1]))
    if fam and extra:
        ck.fail(o, common.HEUR, "unchanged test depends on more than kind, mtime and size",
                "the reuse decision also consults %s: an unchanged file with different metadata would be stored again" % sorted({x[1] for x in extra}), extra[0][0].site())
    elif not fam or n_acc == 0:
        ck.fail(o, common.HEUR, "anchor-missing", "no entry accessors found in %s" % common.HEUR)
    else:
        ck.ok(o, "%d accessor call(s): kind / mtime / size only" % n_acc, instances=n_acc)

    # ---- 4. a source entry meets ITS basis entry ----------------------------------------------------------
    # copy_file can only reuse what the merge pairs: a mis-aligned merge presents unchanged files as new
    common.merge_alignment(ck, w, "C14.4a", "C14.4b")
