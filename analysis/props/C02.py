"""C02 - Every completed version keeps restoring to its own snapshot."""
import re

from cv import flow, rules
from cv.rules import events_of, order_after_success
from props import common

TITLE = "Every completed version keeps restoring to its own snapshot"
TECHNIQUE = 'static analysis: MIR guard analysis by edge deletion (reuse of basis addresses), finite predicate enumeration of the unchanged-heuristic, arm table of band selection'
EXPLANATION = (
    "The snapshot-isolation core quantifies over histories and is not decided. Decided are two structural "
    "necessary conditions: (1) the only statement that copies block addresses from the basis entry into a new "
    "entry is reachable only when content_heuristically_unchanged(source, basis) was true AND every basis block is "
    "present, and that heuristic is true only if kind, mtime and size are equal on both entries (the statement's "
    "last sentence); (2) 'latest complete version' is the newest band whose tail exists: last_complete_band "
    "returns a band only under is_closed()==true, walking list_band_ids in reverse; LatestClosed resolves through it; "
    "last_band_id is the maximum of list_band_ids."
)
UNDECIDED = ["restoring every surviving version exactly after every history (needs the history)",
             "interaction of dedup with deleted versions (see C05 for the gc side)"]
ASSUMPTIONS = []


def run(ck, w):
    lib = w.lib
    common.reuse_guarded(ck, w, "C02.1a")
    common.heuristic_shape(ck, w, "C02.1b")

    # ---- 2. version selection ---------------------------------------------------------------
    lcb = w.body("archive::Archive::last_complete_band")
    o = ck.ob("C02.2a", "last_complete_band returns Some(band) only when band.is_closed() was true")
    closed = events_of(lib, lcb, "band::Band::is_closed")
    somes = [bb for bb, j, s in rules.agg_sites(lcb, "std::option::Option", "Some")]
    edges = set()
    for e in closed:
        edges |= rules.local_bool_edges(lcb, rules.ok_payload_locals(lcb, e), True)
    if not closed or not edges:
        ck.fail(o, lcb.name, "is_closed not tested", "last_complete_band does not branch on Band::is_closed")
    elif not somes:
        ck.fail(o, lcb.name, "never returns a band", "no Some(..) constructed")
    else:
        bad = [bb for bb in somes if not lcb.must_pass_edges(edges, bb)]
        if bad:
            ck.fail(o, lcb.name, "returns a band without is_closed==true",
                    "Some(band) reachable without the tail test: %s" % rules.witness(lcb, bad[0], removed_edges=edges))
        else:
            # the returned band is the one tested
            s0 = rules.agg_sites(lcb, "std::option::Option", "Some")[0][2]
            ret = flow.origins_x(lib, lcb, s0["rv"]["ops"][0])
            tested = flow.origins_x(lib, lcb, rules.creators_of(lcb, "band::Band::is_closed")[0].args[0])
            if "band::Band::open" in flow.origin_calls(ret) and "band::Band::open" in flow.origin_calls(tested):
                ck.ok(o, sites=[e.site() for e in closed])
            else:
                ck.fail(o, lcb.name, "tested band differs from returned band", "returned %s, tested %s" % (flow.origin_summary(ret), flow.origin_summary(tested)))
    o = ck.ob("C02.2b", "last_complete_band walks list_band_ids() newest first")
    revs = [e for e in lcb.events if e.bb in lcb.live and e.name == "std::iter::Iterator::rev"]
    opens = rules.creators_of(lcb, "band::Band::open")
    pops = [e for e in lcb.events if e.bb in lcb.live and e.name == "std::vec::Vec::<T, A>::pop" and e.args and
            "archive::Archive::list_band_ids" in flow.origin_calls(flow.origins_x(lib, lcb, e.args[0], through_calls=[r"Try>?::branch$"]))]
    if pops and opens and not revs:
        # the ascending list (C02.2e) is consumed from its end: `while let Some(id) = ids.pop()`
        bid = flow.origins_x(lib, lcb, opens[0].args[1])
        if any(x[0] == "call" and x[1] == "std::vec::Vec::<T, A>::pop" for x in bid):
            ck.ok(o, "ids taken with pop() from the end of the ascending list", sites=[pops[0].site()])
        else:
            ck.fail(o, lcb.name, "band order changed", "opened id from %s" % flow.origin_summary(bid))
    elif not revs or not opens:
        ck.fail(o, lcb.name, "not newest-first", "no .rev() over the band list or no Band::open")
    else:
        src = flow.origins_x(lib, lcb, revs[0].args[0])
        bid = flow.origins_x(lib, lcb, opens[0].args[1], through_calls=[r"Iterator>::next$", r"IntoIterator>::into_iter$"])
        if "archive::Archive::list_band_ids" in flow.origin_calls(src) and any(c.endswith("Iterator::rev") for c in flow.origin_calls(bid) | {x[1] for x in bid if x[0] == "via"}):
            ck.ok(o, sites=[revs[0].site()])
        else:
            ck.fail(o, lcb.name, "band order changed", "rev source %s; opened id from %s" % (flow.origin_summary(src), flow.origin_summary(bid)))
    lbi = w.body("archive::Archive::list_band_ids")
    o = ck.ob("C02.2c", "list_band_ids returns the band ids sorted; last_band_id is their maximum")
    srt = [e for e in lbi.events if e.bb in lbi.live and re.search(r"Itertools::sorted$|::sort(_unstable)?$", e.name)]
    lb = w.body("archive::Archive::last_band_id")
    # the maximum, or the last element of the (ascending, see C02.2e) list
    mx = [e for e in lb.events if e.bb in lb.live and (e.name == "std::iter::Iterator::max" or re.search(r"<impl \[T\]>::last$|Iterator::last$|Vec::<T, A>::pop$", e.name))]
    if not srt:
        ck.fail(o, lbi.name, "band list not sorted", "list_band_ids no longer sorts")
    elif not mx or "archive::Archive::list_band_ids" not in flow.origin_calls(flow.origins_x(lib, lb, mx[0].args[0], through_calls=[r"Deref>?::deref$", r"Vec::<T, A>::as_slice$"])):
        ck.fail(o, lb.name, "last_band_id is not max(list_band_ids)", "no Iterator::max over list_band_ids")
    else:
        ck.ok(o)
    rb = w.body("archive::Archive::resolve_band_id")
    o = ck.ob("C02.2d", "BandSelectionPolicy::LatestClosed resolves through last_complete_band, Specified(id) to that id")
    paths_ok = False
    # the switch on the policy: arm 0 (LatestClosed) must reach last_complete_band and not last_band_id
    lc = events_of(lib, rb, "archive::Archive::last_complete_band")
    ll = events_of(lib, rb, "archive::Archive::last_band_id")
    sw = None
    for bb in rb.live:
        t = rb.blocks[bb]["term"]
        if t["tk"] == "switch":
            dl = flow.operand_local(t["discr"])
            for s in reversed(rb.blocks[bb]["stmts"]):
                if s["sk"] == "assign" and s["pl"]["l"] == dl and s["rv"]["rk"] == "discr" and "BandSelectionPolicy" in rb.locals[s["rv"]["pl"]["l"]]:
                    sw = (bb, t)
                break
    adt = lib.adts.get("band::BandSelectionPolicy")
    if sw is None or adt is None or not lc:
        ck.fail(o, rb.name, "policy dispatch changed", "no switch on BandSelectionPolicy or no last_complete_band call")
    else:
        vnames = [v["name"] for v in adt["variants"]]
        arms = {int(a[0]): a[1] for a in sw[1]["arms"]}
        idx = vnames.index("LatestClosed") if "LatestClosed" in vnames else None
        tgt = arms.get(idx, sw[1]["otherwise"]) if idx is not None else None
        if tgt is None:
            ck.fail(o, rb.name, "LatestClosed variant missing", "variants: %s" % vnames)
        else:
            reach = rb.reachable(tgt)
            if all(e.bb in reach for e in lc) and not any(e.bb in reach for e in ll):
                ck.ok(o, "LatestClosed -> last_complete_band", sites=[e.site() for e in lc])
            else:
                ck.fail(o, rb.name, "LatestClosed does not use last_complete_band", "LatestClosed arm reaches last_band_id or misses last_complete_band")
    _band_order_and_cache(ck, w)


def _band_order_and_cache(ck, w):
    lib = w.lib
    o = ck.ob("C02.2e", "band ids are ordered numerically: BandId is a single u32 with a derived Ord, parsed before the band list is sorted")
    impls = {im["trait"]: im["mac"] for im in lib.impls if im["self_ty"] == "bandid::BandId"}
    adt = lib.adts.get("bandid::BandId")
    lbi = w.body("archive::Archive::list_band_ids")
    problems = []
    if adt is None or [f["ty"] for f in adt["variants"][0]["fields"]] != ["u32"]:
        problems.append("BandId is no longer a single u32")
    for tr in ("std::cmp::Ord", "std::cmp::PartialOrd"):
        if not impls.get(tr) or "derive" not in impls[tr]:
            problems.append("%s for BandId is not derived (needs review)" % tr)
    srt = [e for e in lbi.events if e.bb in lbi.live and re.search(r"Itertools::sorted$|::sort(_unstable)?$", e.name)]
    if srt:
        # what is sorted are BandId values (numeric order), not names: the element type of the sorted collection
        def _ty(op):
            return lbi.locals[op["pl"]["l"]] if op.get("k") in ("copy", "move") else ""
        tys = " ".join([_ty(a) for a in srt[0].args[:1]] + [lbi.locals[srt[0].dest["l"]] if srt[0].dest else ""])
        src = flow.origins_x(lib, lbi, srt[0].args[0])
        via_parse = any(c.endswith("Iterator::filter_map") for c in flow.origin_calls(src) | {x[1] for x in src if x[0] == "via"})
        if "bandid::BandId" not in tys and not via_parse:
            problems.append("the band list is sorted before the names are parsed into BandId")
        parsed = False
        for fb in lib.family("archive::Archive::list_band_ids"):
            for e in fb.events:
                if e.bb in fb.live and e.name.endswith("<impl str>::parse") and "bandid::BandId" in (e.term.get("cargs") or ""):
                    parsed = True
        if not parsed:
            problems.append("directory names are not parsed as BandId")
    else:
        problems.append("band list not sorted")
    if problems:
        for m in problems:
            ck.fail(o, "bandid::BandId", m, m)
    else:
        ck.ok(o)
    gb = w.body("blockdir::BlockDir::get_block_content")
    o = ck.ob("C02.3", "the block content cache is filled only with (hash, bytes) pairs whose bytes hash to that hash")
    problems = []
    puts = [e for e in gb.events if e.bb in gb.live and re.search(r"LruCache::<K, V, S>::(put|push)$", e.name)]
    tests = rules.eq_tests(gb, r"blockhash::BlockHash")
    ed = set()
    for e, pol in tests:
        ed |= rules.bool_switch_edges(gb, e, pol)
    for e in puts:
        if not ed or not gb.must_pass_edges(ed, e.bb):
            problems.append("get_block_content caches content before its hash was verified")
        k = flow.origins_x(lib, gb, e.args[1])
        v = flow.origins_x(lib, gb, e.args[2], through_calls=[r"Try>?::branch$"])
        if not any(x[0] in ("param", "upvar") and x[1] == "hash" for x in k) or not any(c.endswith("Decompressor::decompress") for c in flow.origin_calls(v)):
            problems.append("get_block_content caches under a key/value that is not (requested hash, decompressed bytes)")
    sd = w.body("blockdir::BlockDir::store_or_deduplicate")
    for e in [e for e in sd.events if e.bb in sd.live and re.search(r"LruCache::<K, V, S>::(put|push)$", e.name)]:
        k = flow.origins_x(lib, sd, e.args[1])
        v = flow.origins_x(lib, sd, e.args[2])
        if "blockhash::BlockHash::hash_bytes" not in flow.origin_calls(k) or not any(x[0] in ("param", "upvar") and x[1] == "block_data" for x in v):
            problems.append("store_or_deduplicate caches under a key that is not the hash of the cached data")
    hits = [e for e in gb.events if e.bb in gb.live and re.search(r"LruCache::<K, V, S>::(get|peek)$", e.name)]
    for e in hits:
        k = flow.origins_x(lib, gb, e.args[1])
        if not any(x[0] in ("param", "upvar") and x[1] == "hash" for x in k):
            problems.append("cache looked up under something other than the requested hash")
    if problems:
        for m in sorted(set(problems)):
            ck.fail(o, gb.name, m, m)
    else:
        ck.ok(o, "%d put site(s)" % (len(puts) + 1), instances=len(puts) + 1)
    common.finish_only_when_exhausted(ck, w, "C02.2f")
    common.block_dir_fresh(ck, w, "C02.2g")
