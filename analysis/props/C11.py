"""C11 - Paths have one total order, shared by the source walk and every index."""
import re

from cv import flow, rules
from cv.rules import events_of

TITLE = "Paths have one total order, shared by the source walk and every index"
TECHNIQUE = 'static analysis: callee resolution of every ordering operation on paths, dominance (sorted before emitted), provenance of comparator operands, validated constructors'
EXPLANATION = (
    "The comparator's algebra and the exact language of is_valid quantify over all strings and are not decided. "
    "Decided is the SHARING: (1) every ordering operation on Apath values resolves to the hand-written "
    "<Apath as Ord>::cmp (Apath does not derive an order; partial_cmp is Some(cmp)); outside apath.rs no string "
    "ordering is applied to a string obtained from an Apath; (2) finish_hunk sorts self.entries by apath with that "
    "comparator before serialising, with nothing pushed in between; the source walk sorts one directory's children "
    "by name and its subdirectories by apath before queueing, children go to the entry queue and subdirectories "
    "only to the directory queue; (3) every hand-written construction of an Apath from an external string is behind "
    "is_valid (append takes one file-system name)."
    " Added: is_valid carries the complete set of tests for the idiom it uses and the failing outcome of each test can never lead to acceptance (C11.3b: presence and polarity); the comparator byte-compares single components only (C11.1d)."
)
UNDECIDED = ["totality / transitivity / agreement of the comparator with the documented rule for all strings",
             "the language accepted by is_valid beyond the presence and polarity of the complete test set for the idiom used (C11.3b)", "serde's derive(Deserialize) bypasses is_valid (reported as an observation, see C10)"]
ASSUMPTIONS = []

ORDER_CALLS = ("std::cmp::Ord::cmp", "std::cmp::PartialOrd::lt", "std::cmp::PartialOrd::le", "std::cmp::PartialOrd::gt",
               "std::cmp::PartialOrd::ge", "std::cmp::PartialOrd::partial_cmp", "std::cmp::Ord::max", "std::cmp::Ord::min")


def run(ck, w):
    lib = w.lib

    # ---- 1. single comparator ---------------------------------------------------------------------
    o = ck.ob("C11.1a", "every comparison of Apath values resolves to <Apath as Ord>::cmp (directly or through the PartialOrd defaults)")
    n = 0
    bad = []
    allowed_res = re.compile(r"^<apath::Apath as std::cmp::Ord>::cmp$|^std::cmp::PartialOrd::(lt|le|gt|ge)$"
                             r"|^<apath::Apath as std::cmp::PartialOrd>::partial_cmp$|^std::cmp::impls::<impl std::cmp::PartialOrd<&B> for &A>::(lt|le|gt|ge|partial_cmp)$"
                             r"|^std::cmp::impls::<impl std::cmp::Ord for &A>::cmp$")
    for b in rules.user_bodies(lib):
        if rules.is_derive_body(b):
            continue
        for e in b.events:
            if e.bb not in b.live or (e.callee or "") not in ORDER_CALLS:
                continue
            st = e.term.get("self_ty") or ""
            if "apath::Apath" in st:
                n += 1
                if not allowed_res.search(e.resolved or ""):
                    bad.append((b, e))
    ck.floor("C11.1a.n", "comparisons on Apath values", n, 6)
    if bad:
        for b, e in bad:
            ck.fail(o, b.root, "Apath compared through %s" % e.resolved, "resolves to %s" % e.resolved, e.site())
    else:
        ck.ok(o, "%d comparison(s)" % n, instances=n)
    o = ck.ob("C11.1b", "Apath implements Ord and PartialOrd by hand (no derived order), and partial_cmp is Some(self.cmp(other))")
    impls = {im["trait"]: im["mac"] for im in lib.impls if im["self_ty"] == "apath::Apath"}
    pc = lib.bodies.get("<apath::Apath as std::cmp::PartialOrd>::partial_cmp")
    good = True
    for tr in ("std::cmp::Ord", "std::cmp::PartialOrd"):
        if tr not in impls:
            good = False
            ck.fail(o, "apath::Apath", "%s impl missing" % tr, "no %s impl" % tr)
        elif impls[tr]:
            good = False
            ck.fail(o, "apath::Apath", "%s is derived" % tr, "derived order = plain string order, not the archive order")
    if pc is not None:
        cm = [e for e in pc.events if e.bb in pc.live and e.name == "<apath::Apath as std::cmp::Ord>::cmp"]
        somes = rules.agg_sites(pc, "std::option::Option", "Some")
        if not cm or not somes or cm[0].dest["l"] != flow.operand_local(somes[0][2]["rv"]["ops"][0]):
            good = False
            ck.fail(o, pc.name, "partial_cmp is not Some(cmp)", "partial_cmp no longer forwards to cmp")
    else:
        good = False
        ck.fail(o, "apath::Apath", "partial_cmp missing", "no partial_cmp body")
    if good:
        ck.ok(o)
    o = ck.ob("C11.1c", "outside apath.rs no string ordering is applied to text obtained from an Apath")
    conv = re.compile(r"^<apath::Apath as std::ops::Deref>::deref$|^<apath::Apath as std::convert::AsRef<str>>::as_ref$"
                      r"|^<std::string::String as std::convert::From<apath::Apath>>::from$|^<apath::Apath as std::fmt::Display>::fmt$")
    n_conv = 0
    bad = []
    for b in rules.user_bodies(lib):
        if b.file == "src/apath.rs" or rules.is_derive_body(b):
            continue
        starts = []
        for e in b.events:
            if e.bb not in b.live:
                continue
            if conv.search(e.name) or ((e.callee or "").endswith("ToString::to_string") and "apath::Apath" in (e.term.get("self_ty") or "")):
                starts.append(e)
        # field .0 reads are impossible outside the module (private field)
        for st in starts:
            n_conv += 1
            tracked = {st.dest["l"]}
            changed = True
            while changed:
                changed = False
                for bb, j, s in b.all_assigns():
                    rv = s["rv"]
                    srcs = [flow.operand_local(op) for op in rv.get("ops", [])]
                    if rv["rk"] in ("ref",):
                        srcs.append(rv["pl"]["l"])
                    if any(x in tracked for x in srcs) and s["pl"]["l"] not in tracked:
                        tracked.add(s["pl"]["l"])
                        changed = True
                for e in b.events:
                    if e.bb in b.live and any(flow.operand_local(a) in tracked for a in e.args):
                        st_ty = e.term.get("self_ty") or ""
                        if ((e.callee or "") in ORDER_CALLS and re.search(r"\bstr\b|String", st_ty)) or \
                                (re.search(r"sort|binary_search", e.name) and False):
                            bad.append((b, e))
                        if re.search(r"Deref>::deref$|as_str$|AsRef<.*>>::as_ref$|Borrow", e.name) and e.dest and e.dest["l"] not in tracked:
                            tracked.add(e.dest["l"])
                            changed = True
    if bad:
        for b, e in bad:
            ck.fail(o, b.root, "string order applied to an apath", "%s on text derived from an Apath" % e.resolved, e.site())
    else:
        ck.ok(o, "%d Apath->str conversion(s) followed" % n_conv, instances=n_conv)

    o = ck.ob("C11.1d", "<Apath as Ord>::cmp only ever byte-compares single path components (pieces produced by split('/')), never text that can contain '/'")
    cb = lib.bodies.get("<apath::Apath as std::cmp::Ord>::cmp")
    if cb is None:
        ck.fail(o, "<apath::Apath as std::cmp::Ord>::cmp", "anchor-missing", "comparator not found")
    else:
        fam = [cb] + [b for b in lib.family(cb.name) if b is not cb]
        # ... and the private functions of the same file it hands the work to (a recursive `cmp_from_component(a, b)`)
        seen_ = {b.name for b in fam}
        work_ = list(fam)
        while work_:
            fb = work_.pop()
            for n_ in sorted(rules._local_callees(lib, fb)):
                nb_ = lib.bodies.get(n_)
                if nb_ is not None and n_ not in seen_ and nb_.file == cb.file and nb_.kind in ("fn", "assoc_fn", "closure") and not nb_.trait \
                        and (nb_.d.get("vis") or "").startswith("Restricted") and "is_valid" not in n_:
                    seen_.add(n_)
                    for x_ in lib.family(n_):
                        if x_.name not in {y.name for y in fam}:
                            fam.append(x_)
                            work_.append(x_)
        n_cmp = 0
        problems = []
        comp_src = re.compile(r"<std::str::Split<'a, P> as std::iter::Iterator>::next$|<std::str::SplitN<.*> as std::iter::Iterator>::next$|std::path::Components.*Iterator>::next$")
        for b in fam:
            splits_ok = True
            for e in b.events:
                if e.bb in b.live and re.search(r"<impl str>::(split|splitn|rsplit|rsplitn|split_terminator)$", e.name):
                    pat = e.args[1] if len(e.args) > 1 else {}
                    if not (pat.get("k") == "const" and pat.get("int") == "47"):
                        splits_ok = False
            for e in b.events:
                if e.bb not in b.live:
                    continue
                st = e.term.get("self_ty") or ""
                if (e.callee or "") in ORDER_CALLS + ("std::cmp::PartialEq::eq", "std::cmp::PartialEq::ne") and re.search(r"^(std::option::Option<)?&?(str|std::string::String|\[u8\]|std::vec::Vec<u8>)>?$", re.sub(r"&'\w+ ", "&", st)):
                    n_cmp += 1
                    for a in e.args[:2]:
                        orig = flow.origins_x(lib, b, a, through_calls=[r"<impl str>::as_bytes$", r"String::as_bytes$", r"String::as_str$"])
                        calls = flow.origin_calls(orig)
                        others = [x for x in orig if x[0] in ("param", "upvar", "const", "agg", "unknown")]
                        if calls and all(comp_src.search(c) for c in calls) and not others and splits_ok:
                            continue
                        # second idiom: the path is consumed with split_once('/'): the directory part (.0) is one component,
                        # and the remaining tail is compared only after split_once found no further '/' in it
                        so_ok = False
                        so_calls = [x for x in orig if x[0] == "call" and re.search(r"<impl str>::r?split_once$", x[1])]
                        # (in a recursive helper the tail arrives as a parameter: `fn cmp_from(a: &str, b: &str)` compares `a` itself
                        # only where a.split_once('/') found no '/')
                        tail_param = not so_calls and b is not cb and orig and all(x[0] in ("param", "via") for x in orig)
                        if (so_calls or tail_param) and all(x[0] != "call" or re.search(r"<impl str>::r?split_once$", x[1]) for x in orig):
                            # split_once('/'): the part BEFORE the first '/' is one component; rsplit_once('/'): the part AFTER the last
                            heads_only = bool(so_calls) and all(
                                (x[3][:2] in (("as Some", "0"),) or (x[3] and x[3][-1] == "0")) if x[1].endswith("::split_once")
                                else (x[3][:2] in (("as Some", "1"),) or (x[3] and x[3][-1] == "1")) for x in so_calls)
                            examined = [x2 for x2 in b.events if x2.bb in b.live and re.search(r"<impl str>::r?split_once$", x2.name) and len(x2.args) > 1
                                        and x2.args[1].get("int") == "47" and flow.operand_local(x2.args[0]) is not None]
                            al = flow.operand_local(a)
                            same_var = False
                            if al is not None:
                                ca = flow.result_carriers(b, al)
                                for x2 in examined:
                                    rl = flow.operand_local(x2.args[0])
                                    if rl in ca or al in flow.result_carriers(b, rl) or (flow.origins(b, al) & flow.origins(b, rl)):
                                        same_var = True
                            if all(x2.args[1].get("int") == "47" for x2 in b.events if x2.bb in b.live and re.search(r"<impl str>::r?split_once$", x2.name) and len(x2.args) > 1) \
                                    and (heads_only or same_var):
                                so_ok = True
                        if not so_ok:
                            problems.append((e, flow.origin_summary(orig)))
        if problems:
            for e, why in problems[:4]:
                ck.fail(o, cb.name, "comparator byte-compares text that is not a single component",
                        "a string comparison inside Apath::cmp takes an operand derived from %s: '/' then takes part in the byte order, "
                        "so '/a/b/f' and '/a-b/f' order differently from the documented component-wise rule" % why, e.site())
        elif n_cmp == 0:
            ck.fail(o, cb.name, "no component comparison", "Apath::cmp contains no string comparison")
        else:
            ck.ok(o, "%d string comparison(s), all on split('/') components" % n_cmp, instances=n_cmp)

    # ---- 2. sorted before emitted --------------------------------------------------------------------
    fh = w.body("index::write::IndexWriter::finish_hunk")
    o = ck.ob("C11.2a", "finish_hunk: self.entries is sorted by apath (Apath::cmp) before it is serialised, nothing pushed in between")
    srt = [e for e in fh.events if e.bb in fh.live and re.search(r"<impl \[T\]>::sort(_unstable)?(_by|_by_key|_by_cached_key)?$", e.name)]
    ser = [e for e in fh.events if e.bb in fh.live and e.name.startswith("serde_json::to_")]
    good = True
    if not srt or not ser:
        good = False
        ck.fail(o, fh.name, "hunk not sorted before serialisation", "sort events=%d serialise events=%d" % (len(srt), len(ser)))
    else:
        so = flow.origins_x(lib, fh, srt[0].args[0])
        if not any("entries" in (x[2] if x[0] in ("param", "upvar") else ()) for x in so):
            good = False
            ck.fail(o, fh.name, "sort is not over self.entries", "sorted %s" % flow.origin_summary(so), srt[0].site())
        if not all(fh.must_pass_nodes({x.bb for x in srt}, e.bb) for e in ser):
            good = False
            ck.fail(o, fh.name, "serialised before sorting", "to_vec reachable without the sort")
        # comparator closure
        cmp_ok = srt[0].name.endswith("sort") or srt[0].name.endswith("sort_unstable")
        for a in srt[0].args[1:]:
            cands = [oo[1] for oo in flow.origins(fh, a) if oo[0] == "agg" and oo[1] in lib.bodies]
            if a.get("k") == "const" and a.get("fn") in lib.bodies:
                cands.append(a["fn"])          # a named comparator function
            cands += [oo[2] for oo in flow.origins(fh, a) if oo[0] == "const" and oo[1] == "fn" and oo[2] in lib.bodies]
            for cname in cands:
                if True:
                    cb = lib.bodies[cname]
                    cs = [e for e in cb.events if e.bb in cb.live and e.name == "<apath::Apath as std::cmp::Ord>::cmp"]
                    if cs:
                        a0 = flow.origins_x(lib, cb, cs[0].args[0])
                        a1 = flow.origins_x(lib, cb, cs[0].args[1])
                        p0 = {x[1] for x in a0 if x[0] == "param" and "apath" in x[2]}
                        p1 = {x[1] for x in a1 if x[0] == "param" and "apath" in x[2]}
                        # closure params a, b in that order (ascending)
                        first = 2 if cb.kind in ("closure", "coroutine") else 1
                        names = [cb.local_names.get(i) for i in range(first, cb.arg_count + 1)]
                        if len(names) == 2 and p0 == {names[0]} and p1 == {names[1]}:
                            ret = flow.origins_x(lib, cb, 0)
                            if flow.origin_calls(ret) == {"<apath::Apath as std::cmp::Ord>::cmp"} and not [e for e in cb.events if e.bb in cb.live and e.name.endswith("Ordering::reverse")]:
                                cmp_ok = True
        if not cmp_ok and re.search(r"_by(_cached)?_key$", srt[0].name):
            # sort_by_key(|e| e.apath.clone()): the key must be the entry's apath itself (ordered by Apath::cmp)
            for a in srt[0].args[1:]:
                for cname in [oo[1] for oo in flow.origins(fh, a) if oo[0] == "agg" and oo[1] in lib.bodies]:
                    kb = lib.bodies[cname]
                    ko = flow.origins_x(lib, kb, 0)
                    if "apath::Apath" in (kb.ret or "") and not kb.ret.startswith("(") and \
                            any(x[0] == "param" and "apath" in x[2] for x in ko) and not [x for x in ko if x[0] in ("call", "arith", "agg")]:
                        cmp_ok = True
        if not cmp_ok:
            good = False
            ck.fail(o, fh.name, "sort comparator is not a.apath.cmp(&b.apath)", "comparator closure changed", srt[0].site())
        # no push into entries between sort and serialise
        muts = [e for e in fh.events if e.bb in fh.live and re.search(r"Vec::<T, A>::(push|insert|append|extend|swap|reverse)|<impl \[T\]>::(reverse|swap|rotate)", e.name) and
                any("entries" in (x[2] if x[0] in ("param", "upvar") else ()) for x in flow.origins_x(lib, fh, e.args[0]))]
        between = [m for m in muts if fh.reaches(srt[0].bb, m.bb) and any(fh.reaches(m.bb, s.bb) for s in ser)]
        if between:
            good = False
            ck.fail(o, fh.name, "entries modified between sort and serialisation", "%s after the sort" % between[0].name, between[0].site())
        so2 = flow.origins_x(lib, fh, ser[0].args[0])
        if not any("entries" in (x[2] if x[0] in ("param", "upvar") else ()) for x in so2):
            good = False
            ck.fail(o, fh.name, "serialised value is not self.entries", "serialises %s" % flow.origin_summary(so2))
    if good:
        ck.ok(o, sites=[srt[0].site(), ser[0].site()])
    vd = w.raw("source::Iter::visit_next_directory")
    o = ck.ob("C11.2b", "source walk: children are sorted by name before they are queued; subdirectories are sorted by apath before they are queued; "
                        "children go to the entry queue only, subdirectories to the directory queue only")
    sorts = [e for e in vd.events if e.bb in vd.live and re.search(r"<impl \[T\]>::sort(_unstable)?(_by|_by_key)?$", e.name)]
    ext = [e for e in vd.events if e.bb in vd.live and re.search(r"Extend<.*>>::extend$|VecDeque::<T, A>::(push_back|extend)", e.name) and
           any("entry_deque" in (x[2] if x[0] in ("param", "upvar") else ()) for x in flow.origins_x(lib, vd, e.args[0]))]
    pf = [e for e in vd.events if e.bb in vd.live and re.search(r"VecDeque::<T, A>::push_(front|back)$", e.name) and
          any("dir_deque" in (x[2] if x[0] in ("param", "upvar") else ()) for x in flow.origins_x(lib, vd, e.args[0]))]
    problems = []
    child_sort = [e for e in sorts if "(std::string::String, source::entry::Entry)" in vd.locals[flow.operand_local(e.args[0])] or
                  "children" in str(flow.origins_x(lib, vd, e.args[0]))]
    sub_sort = [e for e in sorts if e not in child_sort]
    def _of(e, name):
        return any(x[0] == "call" and False for x in ()) or name
    # identify by the local variable names
    def var_of(e):
        for x in flow.origins(vd, e.args[0]):
            pass
        l = None
        for (bb, idx, kind, payload) in vd.defs.get(flow.operand_local(e.args[0]), []):
            if kind == "call" and payload.get("args"):
                l = flow.operand_local(payload["args"][0])
            elif kind == "assign" and payload["rv"]["rk"] == "ref":
                l = payload["rv"]["pl"]["l"]
        while l is not None and vd.local_names.get(l) is None:
            nxt = None
            for (bb, idx, kind, payload) in vd.defs.get(l, []):
                if kind == "assign" and payload["rv"]["rk"] == "ref":
                    nxt = payload["rv"]["pl"]["l"]
                elif kind == "call" and payload.get("args"):
                    nxt = flow.operand_local(payload["args"][0])
            if nxt == l:
                break
            l = nxt
        return vd.local_names.get(l) if l is not None else None
    by_var = {var_of(e): e for e in sorts}
    if "children" not in by_var or "subdir_apaths" not in by_var:
        problems.append("children / subdir_apaths are not both sorted (sorted: %s)" % sorted(str(k) for k in by_var))
    else:
        cs, ss = by_var["children"], by_var["subdir_apaths"]
        if not ext or not all(vd.must_pass_nodes({cs.bb}, e.bb) for e in ext):
            problems.append("children reach the entry queue unsorted")
        if not pf or not all(vd.must_pass_nodes({ss.bb}, e.bb) for e in pf):
            problems.append("subdirectories are queued unsorted")
        # what is extended into entry_deque derives from children only
        for e in ext:
            src = flow.origins_x(lib, vd, e.args[1], through_calls=[r"Iterator::map$", r"IntoIterator>?::into_iter$"])
            if not any(x[0] == "call" and False for x in src):
                pass
        for e in pf:
            src = flow.origins(vd, e.args[1], through_calls=[r"Iterator>::next$", r"Iterator::rev$", r"IntoIterator>?::into_iter$"])
        # the children comparator compares names (tuple field 0), ascending
        ok_cmp = False
        for a in cs.args[1:]:
            for oo in flow.origins(vd, a):
                if oo[0] == "agg" and oo[1] in lib.bodies:
                    cb = lib.bodies[oo[1]]
                    cc = [e for e in cb.events if e.bb in cb.live and (e.callee or "") == "std::cmp::Ord::cmp"]
                    if cc:
                        names = [cb.local_names.get(i) for i in range(2, cb.arg_count + 1)]
                        a0 = {x[1] for x in flow.origins_x(lib, cb, cc[0].args[0]) if x[0] == "param"}
                        a1 = {x[1] for x in flow.origins_x(lib, cb, cc[0].args[1]) if x[0] == "param"}
                        if len(names) == 2 and a0 == {names[0]} and a1 == {names[1]}:
                            ok_cmp = True
        if cs.name.endswith("sort_unstable") or cs.name.endswith("::sort"):
            ok_cmp = True
        if not ok_cmp:
            problems.append("children comparator is not ascending by name")
        # subdirs are pushed to the FRONT in reverse order (so they come out ascending, before older pending dirs)
        revs = [e for e in vd.events if e.bb in vd.live and e.name == "std::iter::Iterator::rev"]
        if pf and pf[0].name.endswith("push_front") and not revs:
            problems.append("subdirectories pushed to the front without reversing")
    if problems:
        for m in problems:
            ck.fail(o, vd.name, m, m)
    else:
        ck.ok(o, "sorts: %s" % sorted(str(k) for k in by_var), instances=len(sorts))
    it = lib.bodies.get("<source::Iter as std::iter::Iterator>::next")
    o = ck.ob("C11.2c", "source walk: queued entries are all returned before the next directory is visited")
    if it is None:
        ck.fail(o, "source::Iter::next", "anchor-missing", "not found")
    else:
        pe = [e for e in it.events if e.bb in it.live and e.name.endswith("VecDeque::<T, A>::pop_front") and
              any("entry_deque" in (x[2] if x[0] in ("param", "upvar") else ()) for x in flow.origins_x(lib, it, e.args[0]))]
        vis = [e for e in it.events if e.bb in it.live and e.name == "source::Iter::visit_next_directory"]
        def on_queue(e_):
            return any("entry_deque" in (x[2] if x[0] in ("param", "upvar") else ()) for x in flow.origins_x(lib, it, e_.args[0]))
        emp = [e for e in it.events if e.bb in it.live and e.args and re.search(r"VecDeque::<T, A>::is_empty$", e.name) and on_queue(e)]
        if (pe or emp) and vis:
            # visit happens only where the entry queue is known to be empty: the None arm of entry_deque.pop_front()
            # (match, let-else or `?`), or the true edge of entry_deque.is_empty()
            ed = set()
            for e in pe:
                ed |= flow.none_edges(it, e)[0]
            for e in emp:
                ed |= rules.bool_switch_edges(it, e, True)
            if ed and all(it.must_pass_edges(ed, v.bb) for v in vis):
                ck.ok(o)
            else:
                ck.fail(o, it.name, "directory visited while entries are still queued", "visit_next_directory not confined to the empty-queue arm")
        else:
            ck.fail(o, it.name, "iterator shape changed", "pop_front/visit events: %d/%d" % (len(pe), len(vis)))

    # ---- 3. constructors validate ------------------------------------------------------------------------
    o = ck.ob("C11.3", "every hand-written construction of an Apath from a string is behind is_valid (append adds one name to a valid path)")
    n = 0
    problems = []
    for b in rules.user_bodies(lib):
        if rules.is_derive_body(b):
            continue
        for bb, j, s in rules.agg_sites(b, "apath::Apath"):
            n += 1
            if b.root == "apath::Apath::append":
                # (the new string may be a mutated clone of self, or `[self, "/", child].concat()`)
                src = flow.origins_x(lib, b, s["rv"]["ops"][0], through_all=[r"<impl \[.*\]>::(concat|join)$|Concat<.*>>?::concat$|Join<.*>>?::join$"])
                if not any(x[0] == "param" and x[1] == "self" for x in src):
                    problems.append((b, "append does not extend self"))
                continue
            iv = [e for e in b.events if e.bb in b.live and e.name == "apath::Apath::is_valid"]
            ed = set()
            for e in iv:
                ed |= rules.bool_switch_edges(b, e, True)
            if not iv or not ed or not b.must_pass_edges(ed, bb):
                problems.append((b, "Apath constructed without is_valid==true"))
    ck.floor("C11.3.n", "hand-written Apath constructions", n, 2)
    if problems:
        for b, m in problems:
            ck.fail(o, b.root, m, m, "%s:%d" % (b.file, b.lo))
    else:
        ck.ok(o, "%d construction(s)" % n, instances=n)
    _is_valid_language(ck, w)
    o = ck.ob("C11.3c", "the string conversions of Apath (FromStr, From<&str>, From<String>) validate and keep exactly the text they were given: "
                        "nothing trims, normalises or rewrites it first")
    rewriters = re.compile(r"<impl str>::(trim|trim_start|trim_end|trim_matches|trim_start_matches|trim_end_matches|to_lowercase|to_uppercase|"
                           r"to_ascii_lowercase|to_ascii_uppercase|replace|replacen|strip_prefix|strip_suffix|split|rsplit|nfc|nfd)$|"
                           r"unicode_normalization|Path::(canonicalize|components)$")
    n_conv = 0
    bad = []
    for b in rules.user_bodies(lib):
        if rules.is_derive_body(b) or b.file != "src/apath.rs":
            continue
        if not ((b.trait or "").startswith("std::str::FromStr") or (b.trait or "").startswith("std::convert::From<") or (b.trait or "").startswith("std::convert::TryFrom<")):
            continue
        if "apath::Apath" not in (b.self_ty or ""):
            continue
        n_conv += 1
        for e in b.events:
            if e.bb in b.live and rewriters.search(e.name):
                bad.append((b, e))
    ck.floor("C11.3c.n", "string conversions into Apath", n_conv, 2)
    if bad:
        b, e = bad[0]
        ck.fail(o, b.root, "the text is rewritten before it becomes an Apath", "%s calls %s: distinct strings then map to one path, and the accepted "
                "language is no longer the documented one" % (b.root, e.name.split("::")[-1]), e.site())
    else:
        ck.ok(o, "%d conversion(s)" % n_conv, instances=n_conv)


def _is_valid_language(ck, w):
    """C11.3b: Apath::is_valid rejects everything but '/'-rooted paths without an empty, '.', '..' component or
    NUL. Two idioms are recognised, each with its complete set of tests; a missing test is a hole in the language.
      A (per component): starts_with('/'), split('/') and for every piece is_empty, == ".", == "..", contains(NUL)
      B (pattern scan):  starts_with('/'), ends_with('/') [len>1], contains("//"), contains("/./"), ends_with("/."),
                         contains("/../"), ends_with("/.."), contains(NUL)"""
    lib = w.lib
    o = ck.ob("C11.3b", "Apath::is_valid tests the root slash and, for every component, emptiness, '.', '..' and NUL (complete set for the idiom used)")
    b = lib.bodies.get("apath::Apath::is_valid")
    if b is None:
        ck.fail(o, "apath::Apath::is_valid", "anchor-missing", "is_valid not found")
        return
    fam = lib.family("apath::Apath::is_valid")
    # ... and the private functions of the same file it calls or hands to an adapter by name (`.all(Apath::is_valid_component)`)
    seen_ = {fb.name for fb in fam}
    work_ = list(fam)
    while work_:
        fb = work_.pop()
        refs_ = set(rules._local_callees(lib, fb))
        for blk_ in fb.blocks:
            if blk_["cleanup"]:
                continue
            for st_ in blk_["stmts"]:
                if st_["sk"] == "assign":
                    refs_ |= {op_["fn"] for op_ in st_["rv"].get("ops", []) if op_.get("k") == "const" and "fn" in op_}
            refs_ |= {op_["fn"] for op_ in blk_["term"].get("args", []) if op_.get("k") == "const" and "fn" in op_}
        for n_ in sorted(refs_):
            nb_ = lib.bodies.get(n_)
            if nb_ is not None and n_ not in seen_ and nb_.file == b.file and n_ != "apath::Apath::is_valid":
                seen_.add(n_)
                for x_ in lib.family(n_):
                    fam.append(x_)
                    work_.append(x_)
    tests = set()
    occ = []          # (body, event, test, is strip_prefix, negated)
    has_split = False
    for fb in fam:
        for e in fb.events:
            if e.bb not in fb.live:
                continue
            m = re.search(r"<impl str>::(starts_with|strip_prefix|ends_with|contains|split|is_empty|split_terminator|rsplit)$", e.name)
            if m:
                meth = m.group(1)
                if meth == "strip_prefix":
                    meth = "starts_with"       # Some(rest) exactly when it starts with the pattern
                pat = None
                if len(e.args) > 1:
                    a = e.args[1]
                    if a.get("k") == "const":
                        pat = chr(int(a["int"])) if "int" in a else a.get("str")
                    else:
                        for x in flow.origins(fb, a):
                            if x[0] == "const" and x[1] in ("str", "int"):
                                pat = x[2] if x[1] == "str" else chr(int(x[2]))
                if meth in ("split", "rsplit", "split_terminator"):
                    if pat == "/":
                        has_split = True
                else:
                    if meth == "is_empty" and fb.name == b.name and \
                            not any(x[0] == "call" and re.search(r"::next$", x[1]) for x in flow.origins_x(lib, fb, e.args[0])):
                        continue      # emptiness of the whole remainder ("/" itself), not of a component
                    tests.add((meth, pat))
                    occ.append((fb, e, (meth, pat), m.group(1) == "strip_prefix", False))
            if e.callee == "std::cmp::PartialEq::eq" or e.callee == "std::cmp::PartialEq::ne":
                for a in e.args:
                    for x in flow.origins(fb, a):
                        if x[0] == "const" and x[1] == "str":
                            if x[2] == "":
                                # `part == ""` / the pattern `""` is the emptiness test; on the whole remainder ("/" itself) it is not
                                # a component test
                                if fb.name == b.name and not any(y[0] == "call" and re.search(r"::next$", y[1])
                                                                 for a2 in e.args[:2] if a2.get("k") != "const" for y in flow.origins_x(lib, fb, a2)):
                                    continue
                                tests.add(("is_empty", None))
                                occ.append((fb, e, ("is_empty", None), False, e.callee.endswith("::ne")))
                                continue
                            tests.add(("eq", x[2]))
                            occ.append((fb, e, ("eq", x[2]), False, e.callee.endswith("::ne")))
    NUL = chr(0)
    need_a = {("starts_with", "/"), ("is_empty", None), ("eq", "."), ("eq", ".."), ("contains", NUL)}
    need_b = {("starts_with", "/"), ("ends_with", "/"), ("contains", "//"), ("contains", "/./"), ("ends_with", "/."),
              ("contains", "/../"), ("ends_with", "/.."), ("contains", NUL)}
    miss_a = need_a - tests
    miss_b = need_b - tests

    def show(ms):
        return sorted("%s(%r)" % (m, p) if p is not None else m for m, p in ms)
    # polarity: the FAILING outcome of each required test (no leading '/', an empty / '.' / '..' component, a NUL ...)
    # never leads to acceptance - a `true` result, a result computed later, or the next turn of the component loop
    wrong = []
    need = need_a if has_split else need_b
    for fb, e, tst, is_strip, negated in occ:
        if tst not in need:
            continue
        bad_pol = (tst[0] != "starts_with") != negated       # the outcome that means "not a valid apath"
        defs_ = rules._bool_defs(fb, 0) if (fb.ret or "") == "bool" else []
        accept = {d[0] for d in defs_ if (d[1] == "const" and d[2] is True) or d[1] == "unknown" or (d[1] == "call" and d[2] is not e)}
        accept |= {x.bb for x in fb.events if x.bb in fb.live and re.search(r"Iterator>?::next$", x.name) and x.bb != e.bb}
        if is_strip:
            bad_edges = flow.none_edges(fb, e)[0]
        else:
            bad_edges = rules.bool_switch_edges(fb, e, bad_pol)
        if bad_edges:
            for (u_, v_) in bad_edges:
                if rules.reachable_const(fb, v_) & accept:
                    wrong.append((fb, e, tst))
                    break
        else:
            # the test's result IS the function's result (possibly negated): true must mean the good outcome
            mine = [d for d in defs_ if d[1] == "call" and d[2] is e]
            if not mine or any((True != d[3]) == bad_pol for d in mine):
                wrong.append((fb, e, tst))
    if wrong and ((has_split and not miss_a) or (not has_split and not miss_b)):
        for fb, e, tst in wrong:
            ck.fail(o, b.name, "is_valid accepts after the failing outcome of %s" % ("%s(%r)" % tst if tst[1] is not None else tst[0]),
                    "in %s the outcome of %s that marks an invalid path can still lead to `true`" % (fb.name, show([tst])[0]), e.site())
    elif has_split and not miss_a:
        ck.ok(o, "per-component idiom: %s; each failing outcome rejects" % show(need_a), instances=len(need_a))
    elif not has_split and not miss_b:
        ck.ok(o, "pattern-scan idiom: %s; each failing outcome rejects" % show(need_b), instances=len(need_b))
    else:
        miss = miss_a if has_split else miss_b
        for mth, pat in sorted(miss, key=str):
            ck.fail(o, b.name, "is_valid lacks the test %s" % ("%s(%r)" % (mth, pat) if pat is not None else mth),
                    "%s idiom: missing %s; tests present: %s" % ("per-component" if has_split else "pattern-scan", show(miss), show(tests)))


def run_thorough(ck, w):
    from cv import world
    o = ck.ob("C11.4", "release configuration (debug assertions off): the DebugCheckOrder guard is a no-op, so rules C11.1-2 are the only protection (informational)")
    try:
        wr = world.World("release")
        b = wr.lib.bodies.get("apath::DebugCheckOrder::check")
        n_calls = len([e for e in b.events if e.bb in b.live]) if b else -1
        ck.ok(o, "DebugCheckOrder::check has %d call(s) with debug assertions off (debug build: it forwards to CheckOrder::check)" % n_calls)
    except Exception as ex:  # noqa
        ck.note("release configuration could not be analysed: %s" % str(ex)[:200])
        ck.ok(o, "skipped")
