"""C07 - Archive files are write-once: backup never alters or removes existing files."""
import re

from cv import flow, rules, graph
from cv.rules import events_of, order_after_success
from props import common

TITLE = "Archive files are write-once: backup never alters or removes existing files"
TECHNIQUE = 'static analysis: constant-argument rule (CreateNew), sibling agreement of the three Protocol::write implementations (primitive flows into the creating call), provenance, who-may-remove'
EXPLANATION = (
    "Decided structurally: (1) every Transport::write call site in lib+bin passes WriteMode::CreateNew, Overwrite is "
    "constructed nowhere outside tests, and Transport::write forwards the mode unchanged to the protocol; (2) each of "
    "the three Protocol::write implementations branches on the mode and, on the CreateNew arm, configures an "
    "exclusive-create primitive (OpenOptions::create_new / ssh2 EXCLUSIVE / S3 If-None-Match) that actually flows "
    "into the call creating the object, and uses no mode-ignoring creator; (3) a new band id derives from "
    "last_band_id through next_sibling; (4) the hunk sequence only ever advances by one after a successful write and "
    "names the written path; (5) a block is written only when the present set says it is absent; (6) the local "
    "transport's failed-write cleanup removes only a file this call opened. Who may remove archive files is C05.5."
    " Added: the one exception of the local transport - completing a leftover - applies to zero-length files only (C07.2.local d)."
)
UNDECIDED = ["byte-identity of pre-existing files as an end state (follows from the rules + OS semantics of O_EXCL, trusted)",
             "outcome of two racing backups (schedule-quantified); decided only that the loser's head write is create-new"]
ASSUMPTIONS = ["O_EXCL / SSH_FXF_EXCL / If-None-Match:* refuse an existing object"]

T_WRITE = "transport::Transport::write"
P_WRITE = "transport::protocol::Protocol::write"
IMPLS = {
    "local": "<transport::local::Protocol as transport::protocol::Protocol>::write",
    "sftp": "<transport::sftp::Protocol as transport::protocol::Protocol>::write",
    "s3": "<transport::s3::Protocol as transport::protocol::Protocol>::write",
}
FORBIDDEN_CREATORS = re.compile(r"^(tokio|std)::fs::write$|^(tokio|std)::fs::File::create$|^std::fs::File::create_new$|^(tokio|std)::fs::(rename|copy)$")


def enum_variants(crate, body, op, depth=0):
    """Variants a fieldless-enum operand may hold: set of (adt, variant) plus ('?', why)."""
    out = set()
    if op.get("k") == "const":
        return {("?", "const")}
    seen = set()
    wl = [(body, op["pl"]["l"])]
    while wl:
        b, l = wl.pop()
        if (b.name, l) in seen:
            continue
        seen.add((b.name, l))
        defs = b.defs.get(l, [])
        if 1 <= l <= b.arg_count:
            if b.kind in ("closure", "coroutine") and l == 1:
                out.add(("?", "captured"))
            else:
                out.add(("?", "param %s" % b.local_names.get(l, l)))
        for (bb, idx, kind, payload) in defs:
            if kind == "assign":
                rv = payload["rv"]
                if rv["rk"] == "agg" and rv.get("ak") == "adt":
                    out.add((rv["adt"], rv["variant"]))
                elif rv["rk"] == "use" and rv["ops"][0].get("k") in ("copy", "move"):
                    src = rv["ops"][0]["pl"]
                    if src["l"] == 1 and b.kind in ("closure", "coroutine") and src["p"]:
                        # captured variable: resolve in the parent
                        for oo in flow.origins_x(crate, b, rv["ops"][0]):
                            if oo[0] == "param":
                                out.add(("?", "param %s" % oo[1]))
                            elif oo[0] == "agg":
                                out.add(("?", "agg"))
                            else:
                                out.add(("?", str(oo[0])))
                    else:
                        wl.append((b, src["l"]))
                else:
                    out.add(("?", rv["rk"]))
            else:
                out.add(("?", kind))
    return out


def family_with_callees(w, impl_fn, module_prefix):
    """Bodies of the impl fn, its nested closures, and same-module helpers it reaches."""
    g = w.graph
    reach = g.reachable_from([impl_fn])
    out = []
    for n in sorted(reach):
        b = w.lib.bodies.get(n)
        if b is not None and (n.startswith(impl_fn) or n.startswith(module_prefix)) and b.file.startswith("src/transport/"):
            out.append(b)
    return out


def run(ck, w):
    lib = w.lib
    g = w.graph

    # ---- 1. create-new everywhere ------------------------------------------------------------
    o = ck.ob("C07.1a", "every Transport::write call site passes WriteMode::CreateNew")
    sites = []
    for key, b in g.bodies.items():
        if not b.file.startswith("src/"):
            continue
        crate = w.bin if key.startswith("bin::") else lib
        for e in b.events:
            if e.bb in b.live and e.callee != rules.POLL and (e.name.replace("conserve::", "") == T_WRITE):
                sites.append((crate, b, e))
    bad = False
    for crate, b, e in sites:
        if len(e.args) < 4:
            bad = True
            ck.fail(o, b.root, "Transport::write arity", "unexpected argument list", e.site())
            continue
        vs = enum_variants(crate, b, e.args[3])
        vs_n = {(a.replace("conserve::", ""), v) for a, v in vs}
        if vs_n != {("transport::WriteMode", "CreateNew")}:
            bad = True
            ck.fail(o, b.root, "write mode is not the constant CreateNew",
                    "mode operand may be %s" % sorted(vs_n), e.site())
    ck.floor("C07.1a.n", "Transport::write call sites", len(sites), 4)
    if not bad:
        ck.ok(o, "%d call site(s): %s" % (len(sites), sorted({b.root for _, b, _ in sites})),
              sites=[e.site() for _, _, e in sites], instances=len(sites))

    o = ck.ob("C07.1b", "WriteMode::Overwrite is constructed nowhere in lib or bin")
    ov = []
    for key, b in g.bodies.items():
        if not b.file.startswith("src/") or rules.is_derive_body(b):
            continue
        for adt in ("transport::WriteMode", "conserve::transport::WriteMode"):
            for bb, j, s in rules.agg_sites(b, adt, "Overwrite"):
                ov.append((b, s))
    if ov:
        for b, s in ov:
            ck.fail(o, b.root, "constructs WriteMode::Overwrite", "WriteMode::Overwrite built", "%s:%d" % (b.file, s["line"]))
    else:
        ck.ok(o, "0 constructions")
    # positive control for the zero-count rule: CreateNew constructions must be visible to the same query
    n_cn = 0
    for key, b in g.bodies.items():
        if b.file.startswith("src/") and not rules.is_derive_body(b):
            n_cn += len(rules.agg_sites(b, "transport::WriteMode", "CreateNew")) + len(rules.agg_sites(b, "conserve::transport::WriteMode", "CreateNew"))
    ck.floor("C07.1b.ctl", "WriteMode::CreateNew constructions seen by the same query (positive control)", n_cn, 4)

    o = ck.ob("C07.1c", "Transport::write forwards its mode parameter unchanged to Protocol::write, its only caller")
    tw = w.body(T_WRITE)
    pw = events_of(lib, tw, P_WRITE, declared=True)
    if len(pw) != 1:
        ck.fail(o, tw.name, "no unique Protocol::write call", "found %d virtual write calls" % len(pw))
    else:
        orig = flow.origins_x(lib, tw, pw[0].args[3])
        pn = {x[1] for x in orig if x[0] == "param"}
        other = [x for x in orig if x[0] not in ("param", "via")]
        callers = set()
        for b in rules.user_bodies(lib):
            for e in b.events:
                if e.bb in b.live and e.callee == P_WRITE:
                    callers.add(b.root)
        if pn != {"mode"} or other:
            ck.fail(o, tw.name, "mode not forwarded by identity", "mode argument derives from %s" % flow.origin_summary(orig), pw[0].site())
        elif callers != {T_WRITE}:
            ck.fail(o, ",".join(sorted(callers)), "Protocol::write called outside Transport::write", "callers: %s" % sorted(callers))
        else:
            ck.ok(o, sites=[pw[0].site()])

    common.protocol_dispatch_by_name(ck, w, "C07.1d")
    o = ck.ob("C07.1e", "jsonio::write_json returns the error of its create-new write whatever it is (an AlreadyExists refusal is never turned into success)")
    wj = w.body("jsonio::write_json")
    wev = events_of(lib, wj, T_WRITE)
    from cv import err as _err
    fates = [_err.classify(wj, e).fate for e in wev]
    if not wev:
        ck.fail(o, wj.name, "anchor-missing", "no Transport::write in write_json")
    elif all(f == "propagated" for f in fates):
        ck.ok(o, sites=[e.site() for e in wev])
    else:
        ck.fail(o, wj.name, "write error not propagated", "the result of Transport::write in write_json is %s" % fates, wev[0].site())

    # ---- 2. sibling agreement of the three Protocol::write implementations -----------------------------
    present = {k: v for k, v in IMPLS.items() if v in lib.bodies}
    n_impls = {"nodefault": 1, "s3": 2, "sftp": 2}.get(w.config, 3)
    ck.floor("C07.2.n", "Protocol::write implementations analysed", len(present), n_impls)
    impl_names = set(g.trait_impls.get(("transport::protocol::Protocol", "write"), []))
    unknown = impl_names - set(IMPLS.values())
    o = ck.ob("C07.2.table", "every Protocol::write implementation is in the checked table")
    if unknown:
        ck.fail(o, ",".join(sorted(unknown)), "unchecked Protocol::write implementation", "new implementation(s): %s" % sorted(unknown))
    else:
        ck.ok(o, "%d impls" % len(impl_names), instances=len(impl_names))
    for kind, fn in sorted(present.items()):
        fam = family_with_callees(w, fn, "transport::%s::" % kind)
        oo = ck.ob("C07.2.%s" % kind, "%s Protocol::write honours CreateNew with an exclusive-create primitive that reaches the creating call" % kind)
        problems = []
        race_window = False
        cns = []
        # (a) forbidden creators
        for b in fam:
            for e in b.events:
                if e.bb in b.live and e.callee != rules.POLL and FORBIDDEN_CREATORS.search(e.name):
                    problems.append(("uses mode-ignoring creator %s" % e.name, e.site(), "mode-ignoring creator %s" % e.name))
        # (b) the mode is branched on
        branched = False
        for b in fam:
            for bb in b.live:
                t = b.blocks[bb]["term"]
                if t["tk"] != "switch":
                    continue
                dl = flow.operand_local(t["discr"])
                if dl is None:
                    continue
                for s in reversed(b.blocks[bb]["stmts"]):
                    if s["sk"] == "assign" and s["pl"]["l"] == dl and s["rv"]["rk"] == "discr":
                        if b.locals[s["rv"]["pl"]["l"]].endswith("transport::WriteMode"):
                            branched = True
                        break
            for e, pol in rules.eq_tests(b, r"transport::WriteMode$"):
                if rules.bool_switch_edges(b, e, True):
                    branched = True
        if not branched:
            problems.append(("write_mode is never branched on", None, "mode not branched on"))
        # (c) the exclusive primitive and its consumption
        if kind == "local":
            found = False
            for b in fam:
                cns = [e for e in b.events if e.bb in b.live and re.search(r"^(tokio|std)::fs::OpenOptions::create_new$", e.name)]
                opens = [e for e in b.events if e.bb in b.live and e.callee != rules.POLL and re.search(r"^(tokio|std)::fs::OpenOptions::open$", e.name)]
                if not cns:
                    continue
                found = True
                for cn in cns:
                    if not (len(cn.args) > 1 and cn.args[1].get("k") == "const" and cn.args[1].get("int") == "1"):
                        problems.append(("create_new not set to true", cn.site(), "create_new(false)"))
                    cn_src = {x for x in flow.origins(b, cn.args[0]) if x[0] == "call"}
                    consumed = False
                    for op in opens:
                        op_src = {x for x in flow.origins(b, op.args[0]) if x[0] == "call"}
                        if cn_src & op_src and b.reaches(cn.bb, op.bb):
                            consumed = True
                    if not consumed:
                        problems.append(("the OpenOptions configured with create_new is never used to open the file", cn.site(),
                                         "create_new options never opened"))
            if not found:
                problems.append(("no OpenOptions::create_new on the CreateNew arm", None, "no exclusive-create primitive"))
            # (d) the one exception - completing a leftover - applies to ZERO-LENGTH files only: an open that is
            # neither exclusive nor truncating exists only together with a test `metadata.len() == 0`, and the
            # length of the file in the way is compared with nothing but zero
            bare = []
            lens = []
            for b in fam:
                for e in b.events:
                    if e.bb not in b.live or e.callee == rules.POLL:
                        continue
                    if re.search(r"^(tokio|std)::fs::OpenOptions::open$", e.name):
                        cfg = {x[1].split("::")[-1] for x in flow.origins(b, e.args[0]) if x[0] == "call"}
                        if "create_new" not in cfg and "truncate" not in cfg:
                            bare.append((b, e))
                    if e.name == "std::fs::Metadata::len":
                        lens.append((b, e))
            for b, e in lens:
                tracked = {e.dest["l"]}
                ch = True
                while ch:
                    ch = False
                    for bb, j, st in b.all_assigns():
                        rv = st["rv"]
                        ops = rv.get("ops", [])
                        if not any(flow.operand_local(op) in tracked for op in ops):
                            continue
                        if rv["rk"] == "use" and not st["pl"]["p"]:
                            if st["pl"]["l"] not in tracked:
                                tracked.add(st["pl"]["l"])
                                ch = True
                        elif rv["rk"] == "binop" and rv["op"] in ("Eq", "Ne") and any(op.get("k") == "const" and op.get("int") == "0" for op in ops):
                            pass
                        else:
                            problems.append(("the length of the file in the way is used in `%s`, not only compared with zero" % (rv.get("op") or rv["rk"]),
                                             "%s:%s" % (b.file, st.get("line")), "existing file length compared with something other than zero"))
                for e2 in b.events:
                    if e2.bb in b.live and e2 is not e and any(flow.operand_local(a) in tracked for a in e2.args):
                        problems.append(("the length of the file in the way is passed to %s" % e2.name.split("::")[-1], e2.site(),
                                         "existing file length compared with something other than zero"))
            grow = [(b, e) for b in fam for e in b.events if e.bb in b.live and re.search(
                r"^(tokio|std)::fs::File::(set_len|set_max_buf_size)$|fallocate|posix_fallocate|::seek$|SeekFrom", e.name)]
            if grow:
                problems.append(("the file is sized or positioned by %s before / instead of writing content: a kill leaves a non-empty file that is not the content" %
                                 grow[0][1].name.split("::")[-1], grow[0][1].site(), "file sized without content"))
            # (f) the completion of an empty file and the create-then-write of a new one are both in place: a file that a concurrent
            # create-new writer has created but not yet filled is indistinguishable from a leftover (reported separately below)
            any_cn = any(re.search(r"^(tokio|std)::fs::OpenOptions::create_new$", e.name) for b in fam for e in b.events if e.bb in b.live)
            race_window = bool(bare) and bool(lens) and any_cn and any(
                re.search(r"::write_all$|AsyncWriteExt::write$|io::Write::write$", e.name)
                for b in fam for e in b.events if e.bb in b.live)
            if bare and not lens:
                problems.append(("a non-exclusive, non-truncating open exists without a zero-length test of the file in the way", bare[0][1].site(),
                                 "leftover completion without a zero-length test"))
        elif kind == "sftp":
            found = False
            for b in fam:
                for bb, j, s in b.all_assigns():
                    for op in s["rv"].get("ops", []):
                        if op.get("k") == "const" and op.get("uneval") == "ssh2::OpenFlags::EXCLUSIVE":
                            found = True
                            opens = [e for e in b.events if e.bb in b.live and e.name == "ssh2::Sftp::open_mode"]
                            ok_flow = False
                            for e in opens:
                                orig = flow.origins(b, e.args[2], through_all=[r"BitOr", r"bitor"])
                                if any(x[0] == "const" and x[2] == "ssh2::OpenFlags::EXCLUSIVE" for x in orig):
                                    ok_flow = True
                            if not ok_flow:
                                problems.append(("OpenFlags::EXCLUSIVE does not reach Sftp::open_mode", "%s:%d" % (b.file, s["line"]), "EXCLUSIVE not consumed"))
            if not found:
                problems.append(("no ssh2::OpenFlags::EXCLUSIVE on the CreateNew arm", None, "no exclusive-create primitive"))
        elif kind == "s3":
            found = False
            for b in fam:
                inm = [e for e in b.events if e.bb in b.live and e.name.endswith("PutObjectFluentBuilder::if_none_match")]
                sends = [e for e in b.events if e.bb in b.live and e.callee != rules.POLL and e.name.endswith("PutObjectFluentBuilder::send")]
                if not inm:
                    continue
                found = True
                for e in inm:
                    if not (len(e.args) > 1 and any(x[0] == "const" and x[2] == "*" for x in flow.origins(b, e.args[1]))):
                        problems.append(("if_none_match is not \"*\"", e.site(), "if_none_match not *"))
                    # guarded by mode == CreateNew
                    tests = [t for t, pol in rules.eq_tests(b, r"transport::WriteMode$")]
                    edges = set()
                    for t in tests:
                        edges |= rules.bool_switch_edges(b, t, True)
                    if not edges or not b.must_pass_edges(edges, e.bb):
                        pass  # unconditional if_none_match is stricter, fine
                    ok_flow = False
                    for sd in sends:
                        orig = flow.origins(b, sd.args[0])
                        if any(x[0] == "call" and x[1].endswith("::if_none_match") for x in orig):
                            ok_flow = True
                    if not ok_flow:
                        problems.append(("the request configured with if_none_match is not the one sent", e.site(), "if_none_match not sent"))
            if not found:
                problems.append(("no if_none_match on the CreateNew arm", None, "no exclusive-create primitive"))
        if problems:
            for msg, site, key in problems:
                ck.fail(oo, fn, key, msg, site)
        else:
            ck.ok(oo, "%d bodies in family" % len(fam), instances=len(fam))
        if kind == "local":
            o2 = ck.ob("C07.2.race", "local Protocol::write: a create-new write is refused for a file that another writer is in the middle of creating "
                                     "(the zero-length completion cannot be mistaken for it)")
            if race_window:
                ck.fail(o2, fn, "zero-length completion can hit a file a concurrent writer has just created",
                        "the new file is created exclusively and then filled in place, and an existing EMPTY file is completed in place: between "
                        "the winner's create and its first write the loser's create-new write succeeds instead of being refused")
            else:
                ck.ok(o2)

    # ---- 3. new id above all existing ---------------------------------------------------------------
    o = ck.ob("C07.3", "a new band's id is last_band_id().next_sibling() (or zero when there is none)")
    cf = w.body("band::Band::create_with_flags")
    aggs = rules.agg_sites(cf, "band::Band")
    good = bool(aggs)
    for bb, j, s in aggs:
        orig = flow.origins_x(lib, cf, rules.field_operand(s, "band_id"))
        calls = flow.origin_calls(orig)
        via_map = any(c.endswith("Option::<T>::map_or_else") or c.endswith("Option::<T>::map_or") for c in calls)
        # or written out: match last_band_id()? { Some(n) => n.next_sibling(), None => BandId::zero() }
        ns_ev = [e for e in cf.events if e.bb in cf.live and e.name == "bandid::BandId::next_sibling"]
        via_match = {"bandid::BandId::next_sibling", "bandid::BandId::zero"} <= calls and calls <= {
            "bandid::BandId::next_sibling", "bandid::BandId::zero"} and not [x for x in orig if x[0] in ("arith", "param", "upvar")] and \
            all("archive::Archive::last_band_id" in flow.origin_calls(flow.origins_x(lib, cf, e.args[0])) for e in ns_ev) and bool(ns_ev)
        if not via_map and not via_match:
            good = False
            ck.fail(o, cf.name, "band id not from map_or_else(zero, next_sibling)", "band_id derives from %s" % flow.origin_summary(orig))
    mo = [e for e in cf.events if e.bb in cf.live and re.search(r"Option::<T>::map_or(_else)?$", e.name)]
    if good and mo:
        e = mo[0]
        src = flow.origins_x(lib, cf, e.args[0])
        if "archive::Archive::last_band_id" not in flow.origin_calls(src):
            good = False
            ck.fail(o, cf.name, "id not derived from last_band_id", "map_or_else receiver derives from %s" % flow.origin_summary(src), e.site())
        fns = set()
        for a in e.args[1:]:
            if a.get("k") == "const" and "fn" in a:
                fns.add(a["fn"])
            for oo in flow.origins(cf, a):
                if oo[0] == "const" and oo[1] == "fn":
                    fns.add(oo[2])
                if oo[0] == "agg" and oo[1] in lib.bodies:
                    cb = lib.bodies[oo[1]]
                    for ce in cb.events:
                        if ce.bb in cb.live:
                            fns.add(ce.name)
        if "bandid::BandId::next_sibling" not in fns or "bandid::BandId::zero" not in fns:
            good = False
            ck.fail(o, cf.name, "id successor function changed", "map_or_else uses %s" % sorted(fns), e.site())
    ns = lib.bodies.get("bandid::BandId::next_sibling")
    if ns is None:
        good = False
        ck.fail(o, "bandid::BandId::next_sibling", "anchor-missing", "BandId::next_sibling not found")
    else:
        inc = False
        for bb, j, s in ns.all_assigns():
            rv = s["rv"]
            if rv["rk"] == "binop" and rv["op"].startswith("Add"):
                if any(op.get("k") == "const" and op.get("int") == "1" for op in rv["ops"]):
                    inc = True
        if not inc:
            good = False
            ck.fail(o, ns.name, "next_sibling is not +1", "BandId::next_sibling no longer adds one")
    if good:
        ck.ok(o, sites=[e.site() for e in mo])

    # ---- 4. hunk sequence ------------------------------------------------------------------------------
    o = ck.ob("C07.4", "IndexWriter.sequence starts at 0, only ever advances by 1 in finish_hunk, and names the written hunk")
    writers = {}
    for b in rules.user_bodies(lib):
        if rules.is_derive_body(b):
            continue
        for bb, j, s in b.all_assigns():
            p = s["pl"]["p"]
            if any(x.startswith("f:") and x.split(":", 2)[2] == "sequence" for x in p):
                if "IndexWriter" in (b.self_ty or ""):
                    writers.setdefault(b.root, []).append(s)
    good = True
    if set(writers) != {"index::write::IndexWriter::finish_hunk"}:
        good = False
        ck.fail(o, ",".join(sorted(writers)) or "-", "sequence written outside finish_hunk", "writers: %s" % sorted(writers))
    else:
        for s in writers["index::write::IndexWriter::finish_hunk"]:
            fh = w.body("index::write::IndexWriter::finish_hunk")
            if not rules.is_increment_by_one(fh, s):
                good = False
                ck.fail(o, fh.name, "sequence update is not += 1", "sequence is not incremented by exactly one")
    nw = w.raw("index::write::IndexWriter::new")
    init_ok = False
    for bb, j, s in rules.agg_sites(nw, "index::write::IndexWriter"):
        op = rules.field_operand(s, "sequence")
        if op and op.get("k") == "const" and op.get("int") == "0":
            init_ok = True
    if not init_ok:
        good = False
        ck.fail(o, nw.name, "sequence not initialised to 0", "IndexWriter::new does not start the sequence at 0")
    fh = w.body("index::write::IndexWriter::finish_hunk")
    wr = rules.creators_of(fh, T_WRITE)
    if len(wr) != 1:
        good = False
        ck.fail(o, fh.name, "no unique hunk write", "finish_hunk has %d Transport::write calls" % len(wr))
    else:
        orig = flow.origins_x(lib, fh, wr[0].args[1])
        hr = [e for e in fh.events if e.bb in fh.live and e.name == "index::hunk_relpath"]
        seq_ok = hr and any(("sequence" in (x[2] if x[0] in ("param", "upvar") else ())) for x in flow.origins_x(lib, fh, hr[0].args[0]))
        if "index::hunk_relpath" not in flow.origin_calls(orig) or not seq_ok:
            good = False
            ck.fail(o, fh.name, "hunk path not hunk_relpath(self.sequence)", "path derives from %s" % flow.origin_summary(orig), wr[0].site())
    if good:
        ck.ok(o, instances=3)

    # ---- 5. block written only if absent ---------------------------------------------------------------------
    sd = w.body("blockdir::BlockDir::store_or_deduplicate")
    o = ck.ob("C07.5", "store_or_deduplicate writes the block file only when contains(hash) was false, under block_relpath(hash)")
    writes = events_of(lib, sd, T_WRITE)
    cont = events_of(lib, sd, "blockdir::BlockDir::contains")
    if rules.guarded_by_bool(ck, o, sd, cont, False, writes + events_of(lib, sd, "transport::Transport::create_dir"), "contains(hash)", "block write"):
        cr = rules.creators_of(sd, T_WRITE)
        po = flow.origins_x(lib, sd, cr[0].args[1])
        co = flow.origins_x(lib, sd, cont[0].args[1])
        o2 = ck.ob("C07.5b", "the presence test and the written path use the same hash of the block data")
        bps = common.block_path_sites(w, sd)
        po2 = flow.origins_x(lib, sd, cr[0].args[1], through_all=common.FMT_THROUGH) if cr else set()
        if not bps or "blockhash::BlockHash::hash_bytes" not in flow.origin_calls(po2) or "blockhash::BlockHash::hash_bytes" not in flow.origin_calls(co):
            ck.fail(o2, sd.name, "hash provenance changed", "path from %s; contains arg from %s" % (flow.origin_summary(po2), flow.origin_summary(co)))
        else:
            ro = set()
            for e_, ho in bps:
                ro |= ho
            if "blockhash::BlockHash::hash_bytes" in flow.origin_calls(ro):
                ck.ok(o2)
            else:
                ck.fail(o2, sd.name, "block_relpath not of the content hash", "block_relpath arg from %s" % flow.origin_summary(ro))

    _who_removes(ck, w)

    # ---- 6. failed-write cleanup of the local transport ------------------------------------------------------------
    o = ck.ob("C07.6", "local Protocol::write: the cleanup remove_file runs only after this call itself opened the file")
    fn = IMPLS["local"]
    lb = lib.main_body(fn)
    if lb is None:
        ck.fail(o, fn, "anchor-missing", "local Protocol::write not found")
    else:
        rm = [e for e in lb.events if e.bb in lb.live and e.callee == rules.POLL and "FS_REMOVE" in graph.primitive_effects(e.name.replace("::{closure#0}", ""))]
        rm += [e for e in lb.events if e.bb in lb.live and e.callee != rules.POLL and re.search(r"^std::fs::remove_file$", e.name)]
        if not rm:
            ck.ok(o, "no cleanup removal", instances=0)
        else:
            opens = [e for e in lb.events if e.bb in lb.live and e.callee == rules.POLL and re.search(r"^(tokio)::fs::OpenOptions::open::\{closure#0\}$", e.name)]
            opens += [e for e in lb.events if e.bb in lb.live and e.callee != rules.POLL and re.search(r"^std::fs::OpenOptions::open$", e.name)]
            if not opens:
                ck.fail(o, fn, "cleanup removal without an open by this call",
                        "remove_file can delete a file that existed before this write (no OpenOptions::open precedes it)", rm[0].site())
            else:
                order_after_success(ck, o, lb, opens, rm, "OpenOptions::open", "cleanup remove_file", fn_key=fn)


def _who_removes(ck, w):
    """C07.6b/6c: only delete/gc code removes archive files; a backup cannot reach a removal."""
    g = w.graph
    lib = w.lib
    o = ck.ob("C07.6b", "nothing reachable from backup() removes an archive file (Transport::remove_file / remove_dir_all)")
    entry = "backup::backup"
    have = g.effects.get(entry, set()) & {"T_REMOVE"}
    if entry not in g.bodies:
        ck.fail(o, entry, "anchor-missing", "backup::backup not found")
    elif have:
        path = g.find_call_path([entry], lambda n: bool(graph.primitive_effects(n) & {"T_REMOVE"}))
        ck.fail(o, (path[-2] if path and len(path) > 1 else entry).replace("::{closure#0}", ""), "backup path removes an archive file",
                "call path: %s" % " -> ".join(path or []))
    else:
        ck.ok(o, "%d bodies reachable from backup()" % len(g.reachable_from([entry])))
    o = ck.ob("C07.6c", "the only callers of Transport::remove_file / remove_dir_all are delete_block, Band::delete and the gc lock")
    perf = g.direct_performers("T_REMOVE")
    roots = set()
    for n in perf:
        b = g.bodies.get(n)
        roots.add((("bin::" if n.startswith("bin::") else "") + b.root) if b is not None else n)
    allowed = {"blockdir::BlockDir::delete_block", "band::Band::delete", "gc_lock::GarbageCollectionLock::release",
               "gc_lock::GarbageCollectionLock::break_lock", "<gc_lock::GarbageCollectionLock as std::ops::Drop>::drop"}
    if roots - allowed:
        ck.fail(o, ",".join(sorted(roots - allowed)), "unexpected remover", "%s remove archive files" % sorted(roots - allowed))
    else:
        ck.ok(o, "removers=%s" % sorted(roots), instances=len(roots))
    o = ck.ob("C07.6d", "block-store and index-write paths perform no file-system removal of their own below the transport (except the failed-write cleanup checked in C07.6)")
    bad = []
    for b in rules.user_bodies(lib):
        if b.file.startswith("src/transport/") or b.file.startswith("src/test_fixtures") or b.file.startswith("src/restore"):
            continue
        for e in b.events:
            if e.bb in b.live and e.callee != rules.POLL and re.search(r"^(std|tokio)::fs::remove_(file|dir|dir_all)$", e.name):
                bad.append((b, e))
    if bad:
        for b, e in bad:
            ck.fail(o, b.root, "direct file removal outside the transport", "%s calls %s" % (b.root, e.name), e.site())
    else:
        ck.ok(o)
