"""C05 - Deleting versions and collecting garbage never harm what is kept."""
import re

from cv import err, flow, rules
from cv.rules import events_of, order_after_success

from props import common, errscope

TITLE = "Deleting versions and collecting garbage never harm what is kept"
TECHNIQUE = 'static analysis: MIR dominance (plan before delete), dry-run guard, provenance of the deletion set, who-may-remove and reachability over the call graph, error-propagation classification'
EXPLANATION = (
    "Decided on the MIR of Archive::delete_bands and everything it calls: (1) the plan (band list, referenced set, "
    "present set, lock re-check) is complete and successful before the first removal on every path; (2) bands are "
    "removed before blocks; (3) every removal is behind dry_run == false; (4) the blocks deleted are exactly "
    "present.difference(referenced(keep)) with keep = listed bands not in the delete set; (5) only delete/gc code "
    "may remove archive files, and backup/restore/validate/list/diff cannot reach a removal (call graph); "
    "(6) every storage/decoding error while computing the referenced set is propagated (an unreadable index must "
    "abort the gc, never count as 'references nothing'); (7) the lock is released on the success path and by Drop."
    " Added in later rounds: the reference scan reads the hunks PRESENT in each kept band and every address of every entry (C05.4c), all unreferenced blocks are deleted (C05.4d), every non-empty block file is visible to the collector (C05.5i), nothing is removed after the lock was released (C05.7c)."
)
UNDECIDED = [
    "end-state equalities: 'exactly those versions are gone', 'no unreferenced block remains'",
    "behaviour of storage that lists stale directory contents",
]
ASSUMPTIONS = ["fault model for rule 6: a Transport operation returns Err; the transport implementations themselves are the fault boundary"]

DB = "archive::Archive::delete_bands"
REFD = "archive::Archive::referenced_blocks"
DEL_BLOCK = "blockdir::BlockDir::delete_block"
DEL_BAND = "band::Band::delete"
LOCK_NEW = "gc_lock::GarbageCollectionLock::new"
LOCK_BREAK = "gc_lock::GarbageCollectionLock::break_lock"
LOCK_CHECK = "gc_lock::GarbageCollectionLock::check"
LOCK_RELEASE = "gc_lock::GarbageCollectionLock::release"

# ERR idioms accepted on the referenced_blocks path, with the reason
ERR_ALLOWED = {
    ("band::band_version_supported", "semver::Version::parse", "unwrap_or"):
        "conservative: a version string that does not parse counts as unsupported, so Band::open fails with UnsupportedBandVersion",
    ("archive::Archive::list_band_ids", "core::str::<impl str>::parse", "*"):
        "a directory whose name is not a band id is not a band",
    ("index::IndexRead::hunks_available", "core::str::<impl str>::parse", "*"):
        "a file whose name is not a hunk number is not a hunk",
}


def field_bool_edges(body, field, polarity):
    """Edges taken when bool field `field` (read from any place) equals polarity."""
    edges = set()
    tracked = {}
    for bb, j, s in body.all_assigns():
        rv = s["rv"]
        if rv["rk"] == "use" and rv["ops"][0].get("k") in ("copy", "move"):
            p = rv["ops"][0]["pl"]["p"]
            if p and p[-1].startswith("f:") and p[-1].split(":", 2)[2] == field and not s["pl"]["p"]:
                tracked[s["pl"]["l"]] = False
    changed = True
    while changed:
        changed = False
        for bb, j, s in body.all_assigns():
            if s["pl"]["p"]:
                continue
            rv = s["rv"]
            d = s["pl"]["l"]
            if rv["rk"] == "use":
                l = flow.operand_local(rv["ops"][0])
                if l in tracked and not rv["ops"][0]["pl"]["p"] and d not in tracked:
                    tracked[d] = tracked[l]
                    changed = True
            elif rv["rk"] == "unop" and rv["op"] == "Not":
                l = flow.operand_local(rv["ops"][0])
                if l in tracked and d not in tracked:
                    tracked[d] = not tracked[l]
                    changed = True
    for bb in body.live:
        t = body.blocks[bb]["term"]
        if t["tk"] != "switch":
            continue
        l = flow.operand_local(t["discr"])
        if l in tracked and not t["discr"]["pl"]["p"]:
            want = polarity != tracked[l]
            arms = {int(a[0]): a[1] for a in t["arms"]}
            if want:
                if 0 in arms:
                    edges.add((bb, t["otherwise"]))
            else:
                if 0 in arms:
                    edges.add((bb, arms[0]))
    return edges


def run(ck, w):
    lib = w.lib
    g = w.graph
    db = w.body(DB)

    del_blocks = events_of(lib, db, DEL_BLOCK)
    del_bands = events_of(lib, db, DEL_BAND)
    removals = del_blocks + del_bands
    ck.floor("C05.n", "removal events in delete_bands (Band::delete, delete_block)", len(removals), 2)

    # ---- 1. plan before delete ---------------------------------------------------------
    for rid, fn, label in (
        ("C05.1a", "archive::Archive::list_band_ids", "list_band_ids"),
        ("C05.1b", REFD, "referenced_blocks"),
        ("C05.1c", "archive::Archive::block_dir", "block_dir (present set)"),
        ("C05.1d", LOCK_CHECK, "GarbageCollectionLock::check"),
    ):
        o = ck.ob(rid, "delete_bands: %s succeeded before any band or block is removed" % label)
        order_after_success(ck, o, db, events_of(lib, db, fn), removals, label, "removal")
    o = ck.ob("C05.1e", "delete_bands: the gc lock was taken (new or break_lock succeeded) before any removal")
    order_after_success(ck, o, db, events_of(lib, db, LOCK_NEW) + events_of(lib, db, LOCK_BREAK), removals, "gc lock", "removal")
    o = ck.ob("C05.1f", "delete_bands: the lock re-check comes after the referenced and present sets were computed")
    order_after_success(ck, o, db, events_of(lib, db, REFD), events_of(lib, db, LOCK_CHECK), "referenced_blocks", "check")

    # ---- 2. bands before blocks ----------------------------------------------------------
    o = ck.ob("C05.2", "delete_bands: no band is removed after a block removal has started")
    rules.none_after(ck, o, db, del_blocks, lambda e: e in del_bands, "Band::delete")

    # ---- 3. dry run ------------------------------------------------------------------------
    o = ck.ob("C05.3a", "delete_bands: every removal (except releasing the lock) is behind options.dry_run == false")
    edges = field_bool_edges(db, "dry_run", False)
    rem_events = [e for e in db.events if e.bb in db.live and
                  not (e.callee != rules.POLL and rules.is_async_fn(lib, e.resolved or "")) and
                  "T_REMOVE" in g.event_effects(lib, e)]
    guarded = []
    for e in rem_events:
        nm = e.name.replace("::{closure#0}", "")
        if nm.startswith("gc_lock::GarbageCollectionLock::"):
            continue   # the lock's own file (release, break_lock, Drop of a lock that failed to build)
        guarded.append(e)
    if not edges:
        ck.fail(o, db.name, "dry_run not tested", "options.dry_run does not control any branch in delete_bands")
    else:
        bad = [e for e in guarded if not db.must_pass_edges(edges, e.bb)]
        if bad:
            for e in bad:
                ck.fail(o, db.name, "%s not guarded by dry_run==false" % e.name.replace("::{closure#0}", ""),
                        "removal reachable in a dry run: %s" % rules.witness(db, e.bb, removed_edges=edges), e.site())
        else:
            ck.ok(o, "%d removal event(s) behind !dry_run" % len(guarded), sites=[e.site() for e in guarded], instances=len(guarded))
    ck.floor("C05.3a.n", "removal-capable events in delete_bands besides the lock's own", len(guarded), 2)
    o = ck.ob("C05.3b", "delete_bands writes nothing but its own lock file")
    wr = [e for e in db.events if e.bb in db.live and e.callee == rules.POLL and
          ({"T_WRITE", "T_MKDIR"} & g.event_effects(lib, e))]
    bad = [e for e in wr if e.name.replace("::{closure#0}", "") not in (LOCK_NEW, LOCK_BREAK)]
    if bad:
        ck.fail(o, db.name, "unexpected write in delete_bands", "%s can write to the archive" % bad[0].name, bad[0].site())
    else:
        ck.ok(o, "%d write-capable event(s), all lock acquisition" % len(wr), instances=len(wr))

    # ---- 4. provenance of the deletion set -------------------------------------------------------
    o = ck.ob("C05.4a", "the hashes given to delete_block come from present.difference(referenced)")
    diffs = [e for e in db.events if e.bb in db.live and e.name == "std::collections::HashSet::<T, S, A>::difference"]
    if len(diffs) != 1:
        ck.fail(o, db.name, "no unique HashSet::difference", "expected one set difference, found %d" % len(diffs))
    else:
        d = diffs[0]
        okk = True
        for c in rules.creators_of(db, DEL_BLOCK):
            orig = flow.origins_x(lib, db, c.args[1], through_calls=[
                r"collect_vec$", r"Iterator::next$", r"IntoIterator>?::into_iter$", r"Iterator::(collect|cloned|copied)$", r"<impl \[T\]>::iter$"])
            calls = flow.origin_calls(orig)
            if calls != {"std::collections::HashSet::<T, S, A>::difference"}:
                okk = False
                ck.fail(o, db.name, "delete_block argument not from the set difference",
                        "hash derives from %s" % flow.origin_summary(orig), c.site())
        recv = flow.origins_x(lib, db, d.args[0], through_calls=[r"Iterator::(cloned|collect)$", r"HashSet::<T, S, A>::iter$", r"RwLockReadGuard.*deref$"])
        arg = flow.origins_x(lib, db, d.args[1])
        if "blockdir::BlockDir::blocks" not in flow.origin_calls(recv) or REFD in flow.origin_calls(recv):
            okk = False
            ck.fail(o, db.name, "difference receiver is not the present set",
                    "receiver derives from %s" % flow.origin_summary(recv), d.site())
        if flow.origin_calls(arg) != {REFD}:
            okk = False
            ck.fail(o, db.name, "difference argument is not the referenced set",
                    "argument derives from %s" % flow.origin_summary(arg), d.site())
        if okk:
            ck.ok(o, "present(BlockDir::blocks).difference(referenced_blocks(..))", sites=[d.site()])
    o = ck.ob("C05.4b", "referenced_blocks is computed over keep = list_band_ids() minus the bands being deleted")
    cr = rules.creators_of(db, REFD)
    # keep = listed.retain(|b| !delete.contains(b))   or   listed.into_iter().filter(|b| !delete.contains(b)).collect()
    retains = [e for e in db.events if e.bb in db.live and (e.name == "std::vec::Vec::<T, A>::retain" or re.search(r"Iterator>?::filter$", e.name))]
    if not cr or not retains:
        ck.fail(o, db.name, "keep set construction changed", "no referenced_blocks call or no retain over the band list")
    else:
        orig = flow.origins_x(lib, db, cr[0].args[1], through_calls=[r"Iterator>?::(filter|collect|copied|cloned)$", r"Itertools::collect_vec$", r"IntoIterator>?::into_iter$"])
        if "archive::Archive::list_band_ids" not in flow.origin_calls(orig) or any(x[0] == "param" and x[1] == "delete_band_ids" for x in orig):
            ck.fail(o, db.name, "referenced_blocks not over the listed bands",
                    "band list derives from %s" % flow.origin_summary(orig), cr[0].site())
        else:
            # the retain closure keeps b iff !delete_band_ids.contains(b)
            okc = False
            for a in retains[0].args[1:]:
                for oo in flow.origins(db, a):
                    if oo[0] == "agg" and oo[1] in lib.bodies:
                        cb = lib.bodies[oo[1]]
                        cont = [e for e in cb.events if e.bb in cb.live and re.search(r"::contains$", e.name)]
                        if len(cont) == 1:
                            # result returned negated
                            neg = False
                            for bb, j, s in cb.all_assigns():
                                if s["pl"]["l"] == 0 and s["rv"]["rk"] == "unop" and s["rv"]["op"] == "Not":
                                    if flow.operand_local(s["rv"]["ops"][0]) == cont[0].dest["l"]:
                                        neg = True
                            recv = flow.origins_x(lib, cb, cont[0].args[0])
                            from_del = any(x[0] == "param" and x[1] == "delete_band_ids" for x in recv)
                            if neg and from_del:
                                okc = True
            # retain must happen before referenced_blocks is called, on the same vector
            before = db.must_pass_nodes({retains[0].bb}, cr[0].bb)
            rorig = flow.origins_x(lib, db, retains[0].args[0], through_calls=[r"IntoIterator>?::into_iter$", r"Iterator>?::(copied|cloned)$"])
            same = "archive::Archive::list_band_ids" in flow.origin_calls(rorig)
            if okc and before and same:
                ck.ok(o, "keep.retain(|b| !delete_band_ids.contains(b)) precedes referenced_blocks(keep)", sites=[retains[0].site()])
            else:
                ck.fail(o, db.name, "retain filter changed",
                        "retain closure is not `!delete_band_ids.contains(b)` on the listed bands before referenced_blocks "
                        "(closure ok=%s, before=%s, same vector=%s)" % (okc, before, same), retains[0].site())

    o = ck.ob("C05.1g", "delete_bands: the lock's check() is evaluated before the removals, not between them (removing the newest band changes "
                        "what check() compares, so a later check would abort a half-done delete)")
    chk = events_of(lib, db, "gc_lock::GarbageCollectionLock::check")
    rem_ = [e for e in db.events if e.bb in db.live and (g.event_effects(lib, e) & {"T_REMOVE"}) and
            not re.search(r"GarbageCollectionLock", e.name)]
    if not chk or not rem_:
        ck.fail(o, db.name, "anchor-missing", "check events=%d removal events=%d" % (len(chk), len(rem_)))
    else:
        after = [c for c in chk if any(db.reaches(r.bb, c.bb) for r in rem_)]
        if after:
            ck.fail(o, db.name, "check() repeated after a removal", "GarbageCollectionLock::check can run after a band or block was already removed", after[0].site())
        else:
            ck.ok(o, sites=[c.site() for c in chk])

    # ---- 5. who may remove ----------------------------------------------------------------------------
    o = ck.ob("C05.5a", "only delete_block, Band::delete and the gc lock call Transport::remove_file / remove_dir_all")
    perf = g.direct_performers("T_REMOVE")
    roots = set()
    for n in perf:
        b = g.bodies.get(n)
        roots.add((("bin::" if n.startswith("bin::") else "") + b.root) if b is not None else n)
    allowed = {DEL_BLOCK, DEL_BAND, LOCK_RELEASE, LOCK_BREAK, "<gc_lock::GarbageCollectionLock as std::ops::Drop>::drop"}
    if roots - allowed:
        ck.fail(o, ",".join(sorted(roots - allowed)), "unexpected remover", "%s remove archive files" % sorted(roots - allowed))
    elif not {DEL_BLOCK, DEL_BAND} <= roots:
        ck.fail(o, "delete path", "remover missing", "expected removers not found: %s" % sorted({DEL_BLOCK, DEL_BAND} - roots))
    else:
        ck.ok(o, "removers=%s" % sorted(roots), instances=len(roots))
    o = ck.ob("C05.5b", "only Archive::delete_bands calls delete_block and Band::delete")
    callers = set()
    for tgt in (DEL_BLOCK, DEL_BAND):
        for c in g.callers_of(tgt):
            b = g.bodies.get(c)
            if b is not None and b.file.startswith("src/"):
                callers.add(b.root if not c.startswith("bin::") else "bin::" + b.root)
    if callers != {DB}:
        ck.fail(o, ",".join(sorted(callers - {DB})) or "-", "unexpected caller of a remover", "callers: %s" % sorted(callers))
    else:
        ck.ok(o, "callers=%s" % sorted(callers))
    for rid, entry, effs in (
        ("C05.5c", "backup::backup", {"T_REMOVE"}),
        ("C05.5d", "restore::restore", {"T_REMOVE", "T_WRITE", "T_MKDIR"}),
        ("C05.5e", "archive::Archive::validate", {"T_REMOVE", "T_WRITE", "T_MKDIR"}),
        ("C05.5f", "archive::Archive::iter_entries", {"T_REMOVE", "T_WRITE", "T_MKDIR"}),
        ("C05.5g", "diff::diff", {"T_REMOVE", "T_WRITE", "T_MKDIR"}),
        ("C05.5h", "show::show_versions", {"T_REMOVE", "T_WRITE", "T_MKDIR"}),
    ):
        o = ck.ob(rid, "nothing reachable from %s can %s" % (entry, "/".join(sorted(effs))))
        if entry not in g.bodies:
            ck.fail(o, entry, "anchor-missing", "entry point %s not found" % entry)
            continue
        have = g.effects.get(entry, set()) & effs
        if have:
            path = g.find_call_path([entry], lambda n: bool(__import__("cv.graph", fromlist=["x"]).primitive_effects(n) & effs))
            ck.fail(o, entry, "reaches %s" % "/".join(sorted(have)), "call path: %s" % " -> ".join(path or []))
        else:
            ck.ok(o, "%d bodies reachable" % len(g.reachable_from([entry])), instances=1)

    # ---- 6. read errors while computing references are propagated ----------------------------------------
    o = ck.ob("C05.6", "every storage/decoding error under referenced_blocks is propagated (never swallowed or merely logged)")
    scope = g.reachable_from([REFD])
    n_sites = 0
    bad_sites = []
    for n in sorted(scope):
        b = lib.bodies.get(n)
        if b is None or not b.file.startswith("src/") or b.kind in ("const", "static", "anon_const"):
            continue
        if b.file.startswith("src/transport/") or b.file.startswith("src/monitor") or b.file.startswith("src/termui"):
            continue
        if rules.is_derive_body(b):
            continue
        for s in err.result_sites(b):
            n_sites += 1
            if s.fate in ("swallowed", "logged", "reported"):
                k = (b.root, s.callee_short(), s.detail)
                if k in ERR_ALLOWED or (k[0], k[1], "*") in ERR_ALLOWED or errscope.allowed_kind_conversion(s):
                    continue
                bad_sites.append(s)
    ck.floor("C05.6.n", "fallible storage/decoding call sites under referenced_blocks", n_sites, 8)
    if bad_sites:
        for s in bad_sites:
            ck.fail(o, s.body.root, "%s error %s" % (s.callee_short().split("::")[-1], s.fate),
                    "the error of %s is %s (%s): an unreadable index then counts as referencing nothing" % (
                        s.callee_short(), s.fate, s.detail), s.event.site())
    else:
        ck.ok(o, "%d site(s), all propagated; accepted idioms: %d" % (n_sites, len(ERR_ALLOWED)), instances=n_sites)
    o = ck.ob("C05.6b", "delete_bands propagates the result of referenced_blocks")
    order_after_success(ck, o, db, events_of(lib, db, REFD), [d.bb for d in diffs] or removals, "referenced_blocks", "set difference")

    # ---- 7. lock release -------------------------------------------------------------------------------------
    o = ck.ob("C05.7a", "delete_bands returns Ok only after the lock was released successfully")
    oks = [bb for bb, j, s in rules.agg_sites(db, "std::result::Result", "Ok") if s["pl"]["l"] == 0]
    order_after_success(ck, o, db, events_of(lib, db, LOCK_RELEASE), oks, "release", "return Ok")
    o = ck.ob("C05.7b", "dropping a held GarbageCollectionLock removes the lock file")
    dn = "<gc_lock::GarbageCollectionLock as std::ops::Drop>::drop"
    if dn not in g.bodies:
        ck.fail(o, dn, "anchor-missing", "no Drop impl for GarbageCollectionLock")
    elif "T_REMOVE" not in g.effects.get(dn, set()):
        ck.fail(o, dn, "Drop does not remove the lock", "Drop::drop no longer reaches Transport::remove_file")
    else:
        ck.ok(o)
    common.cli_option(ck, w, "C05.3c", "DeleteOptions", "dry_run", ("param", "dry_run"), floor=2)
    _references_complete(ck, w)
    common.list_blocks_present_set(ck, w, "C05.5i", "C05.5i0")
    o = ck.ob("C05.4d", "delete_bands removes ALL unreferenced blocks it found: nothing takes a prefix or a part of the present-minus-referenced set")
    dbb = w.body(DB)
    diffs_ = [e for e in dbb.events if e.bb in dbb.live and re.search(r"HashSet::<T, S, A>::difference$", e.name)]
    if not diffs_:
        ck.fail(o, dbb.name, "anchor-missing", "no present.difference(referenced) in delete_bands")
    else:
        nar = [x for e in diffs_ for x in common.narrowing_uses(lib, dbb, e)]
        if nar:
            ck.fail(o, dbb.name, "only part of the unreferenced set is deleted", "%s is applied to the unreferenced set" % nar[0].name.split("::")[-1], nar[0].site())
        else:
            ck.ok(o, sites=[diffs_[0].site()])


NARROWING = re.compile(r"Iterator::(rev|skip|take|step_by|filter|filter_map|take_while|skip_while|find|nth|last|map_while)$|<impl \[T\]>::(first|last|split_at|split_first|split_last|get)$|Vec::<T, A>::(truncate|pop|remove|swap_remove|drain|retain|dedup\w*)$")


def _references_complete(ck, w):
    lib = w.lib
    o = ck.ob("C05.4c", "referenced_blocks visits every address of every entry of every hunk of every kept band (no narrowing adapter, no kind test)")
    problems = []
    fam = lib.family(REFD)
    ins = []
    for b in fam:
        for e in b.events:
            if e.bb not in b.live:
                continue
            if NARROWING.search(e.name) and not e.macro:
                problems.append("%s in %s narrows what is visited" % (e.name.split("::")[-1], b.name))
            if e.name.endswith("HashSet::<T, S, A>::insert"):
                ins.append((b, e))
            if (e.callee or "").endswith("EntryTrait::kind") or e.name.endswith("PartialEq>::eq") and "kind::Kind" in (e.term.get("self_ty") or ""):
                problems.append("referenced_blocks looks at the entry kind")
    if len(ins) != 1:
        problems.append("expected one insert into the referenced set, found %d" % len(ins))
    else:
        b, e = ins[0]
        src = flow.origins_x(lib, b, e.args[1], through_calls=[r"Iterator>::next$", r"IntoIterator>?::into_iter$", r"Iterator::flat_map$", r"Iterator::flatten$", r"Iterator::map$"])
        ok_src = any("hash" in (x[3] if x[0] == "call" else x[2] if x[0] in ("param", "upvar") else ()) for x in src)
        if not ok_src and any(x[0] == "via" and re.search(r"Iterator>?::map$", x[1]) for x in src):
            # `.map(|addr| addr.hash)`: the field is taken inside the adapter's closure
            for cb_ in fam:
                if cb_.kind == "closure" and any(x[0] == "param" and "hash" in x[2] for x in flow.origins(cb_, 0)):
                    ok_src = True
        if not ok_src:
            problems.append("inserted value is not an address hash: %s" % flow.origin_summary(src))
    # every item produced by the address iteration is inserted: no path back to the loop head around the insert
    if len(ins) == 1:
        b, e = ins[0]
        for nx in [x for x in b.events if x.bb in b.live and x.name.endswith("Iterator>::next")]:
            src = flow.origins_x(lib, b, e.args[1], through_calls=[r"Iterator::flat_map$", r"Iterator::flatten$", r"Iterator::map$"])
            if not any(x[0] == "call" and x[2] == nx.bb for x in src):
                continue
            for (sb, tested, arms, other) in flow.discriminant_switches(b, flow.result_carriers(b, nx.dest["l"])):
                some_t = arms.get(1)
                if some_t is not None and nx.bb in b.reachable(some_t, removed_nodes={e.bb}):
                    problems.append("an address can be skipped: the insert into the referenced set is conditional")
    # the band loop covers the whole `band_ids` slice
    rb = w.body(REFD)
    opens = rules.creators_of(rb, "band::Band::open")
    if opens:
        bsrc = flow.origins_x(lib, rb, opens[0].args[1], through_calls=[r"Iterator>::next$", r"IntoIterator>?::into_iter$"])
        if not any(x[0] in ("param", "upvar") and x[1] == "band_ids" for x in bsrc):
            problems.append("bands opened do not come from the band_ids parameter")
    else:
        problems.append("no Band::open")
    # the hunks read are the hunks PRESENT in the band's index directory: a count recorded in the tail is absent
    # for an interrupted band and for bands written before 0.6.4, and would make such a kept band reference nothing
    rh = rules.creators_of(rb, "index::IndexRead::read_hunk")
    if not rh:
        problems.append("no read_hunk in referenced_blocks")
    for e in rh:
        hsrc = flow.origins_x(lib, rb, e.args[1], through_calls=[r"Iterator>::next$", r"IntoIterator>?::into_iter$", r"Try>?::branch$"])
        hc = flow.origin_calls(hsrc)
        if "index::IndexRead::hunks_available" not in hc:
            problems.append("hunk numbers read do not come from the listing of the index directory (hunks_available)")
        elif [c for c in hc if c.startswith("band::Band::get_info") or c.endswith("Band::index_hunk_count")] or \
                any(x[0] == "arith" for x in hsrc):
            problems.append("hunk numbers read also depend on recorded metadata or arithmetic")
    if problems:
        for m in sorted(set(problems)):
            ck.fail(o, REFD, m, m)
    else:
        ck.ok(o)
    db = w.body(DB)
    o = ck.ob("C05.7c", "delete_bands: nothing is removed after the gc lock was released")
    rel = events_of(lib, db, LOCK_RELEASE)
    removals = events_of(lib, db, DEL_BLOCK) + events_of(lib, db, DEL_BAND)
    rules.none_after(ck, o, db, rel, lambda e: e in removals, "removal")
