"""C18 - Diff and change reports agree with the real differences."""
import re

from cv import flow, inline, pred, rules
from cv.rules import events_of
from props import common

TITLE = "Diff and change reports agree with the real differences"
TECHNIQUE = 'static analysis: finite predicate enumeration of diff_metadata, arm tables of merge and change mapping extracted from MIR, guards'
EXPLANATION = (
    "Decided as finite shapes: (1) EntryChange::diff_metadata reports 'unchanged' only if kind, owner and mode are "
    "equal on both entries, and additionally size and mtime for files and the link target for symlinks - every "
    "atom comparing the accessor on BOTH parameters - and 'changed' carries (old <- a, new <- b); "
    "(2) MatchedEntries::to_entry_change maps Both -> diff_metadata, Left -> deleted, Right -> added; "
    "(3) MergeTrees::next compares a.apath() with b.apath() by Apath::cmp and maps Equal -> Both (consuming both "
    "peeked entries), Less -> Left (consuming only a), Greater -> Right (consuming only b), and the one-sided cases "
    "to Left / Right; diff() merges the stored tree as a and the source tree as b; (4) Diff::next returns an entry "
    "only if include_unchanged or the change is not 'unchanged'; (5) in backup(), a returned change reaches the "
    "callback and a basis-only entry is reported as deleted; in copy_file 'added' needs no basis, 'unchanged' needs "
    "new_entry == basis_entry."
    " Added: every basis-only entry reaches the callback (C18.5c)."
)
UNDECIDED = ["that both streams arrive in the same order for every tree (C11's undecided part)",
             "exactness of the reported set for every mutation set (run-time)"]
ASSUMPTIONS = []

DM = "change::EntryChange::diff_metadata"


def _atoms(cons):
    return {a: v for a, v in cons.items()}


def run(ck, w):
    lib = w.lib

    # ---- 1. PRED diff_metadata --------------------------------------------------------------------
    b = lib.bodies.get(DM)
    o = ck.ob("C18.1", "diff_metadata: 'unchanged' implies equal kind, owner, mode, (file: size and mtime), (symlink: target), each on both entries")
    if b is None:
        ck.fail(o, DM, "anchor-missing", "diff_metadata not found")
    else:
        # a private bool helper that holds the comparison (`metadata_differs(a, b)`) is expanded in a copy first: the
        # enumerator is path-sensitive and carries the helper's true / false into the caller's branch
        bx, n_exp = inline.expand_predicates(lib, b)
        try:
            paths = pred.enumerate_paths(lib, bx, markers=r"^change::EntryChange::(changed|unchanged)$")
        except (pred.NotLoopFree, pred.TooManyPaths) as ex:
            paths = None
            ck.fail(o, DM, "not a finite predicate", str(ex))
        if paths is not None:
            params = [b.local_names.get(i, str(i)) for i in range(1, b.arg_count + 1)]
            kadt = lib.adts.get("kind::Kind")
            kidx = {v["name"]: i for i, v in enumerate(kadt["variants"])} if kadt else {}

            def eqa(acc):
                return ("eq", frozenset("%s(%s)" % (acc, p) for p in params))

            def kind_possible(c, variant):
                """Can the entry be of this kind on a path with constraints c? False only if a test on kind(..) excludes it:
                `kind == Kind::X` decided, or a `match kind` arm taken."""
                tested = False
                for a, v in c.items():
                    if a[0] == "eq" and any(x.startswith("kind(") for x in a[1]) and any(("Kind::" + variant) in x for x in a[1]):
                        tested = True
                        if v is False:
                            return False, True
                    elif a[0] == "eq" and any(x.startswith("kind(") for x in a[1]) and any("Kind::" in x for x in a[1]) and v is True:
                        return False, True          # equal to some other variant
                    elif a[0] == "discr" and str(a[1]).startswith("kind("):
                        tested = True
                        if isinstance(v, int) and v != kidx.get(variant):
                            return False, True
                        if isinstance(v, tuple) and v and v[0] == "other" and kidx.get(variant) in v[1:]:
                            return False, True
                return True, tested
            un = [p for p in paths if any(m.endswith("::unchanged") for m in p["markers"])]
            chg = [p for p in paths if any(m.endswith("::changed") for m in p["markers"])]
            problems = []
            if not un or not chg:
                problems.append("unchanged paths=%d changed paths=%d" % (len(un), len(chg)))
            file_seen = sym_seen = False
            for p in un:
                c = p["constraints"]
                for acc in ("kind", "owner", "unix_mode"):
                    if c.get(eqa(acc)) is not True:
                        problems.append("an 'unchanged' path does not require equal %s" % acc)
                fp, ft = kind_possible(c, "File")
                sp, st_ = kind_possible(c, "Symlink")
                if fp:
                    file_seen = True
                    for acc in ("size", "mtime"):
                        if c.get(eqa(acc)) is not True:
                            problems.append("for files, 'unchanged' does not require equal %s" % acc)
                if sp:
                    sym_seen = True
                    if c.get(eqa("symlink_target")) is not True:
                        problems.append("for symlinks, 'unchanged' does not require an equal target")
            if un and not (file_seen and sym_seen):
                problems.append("no 'unchanged' path for files (%s) or symlinks (%s)" % (file_seen, sym_seen))
            if problems:
                for m in sorted(set(problems)):
                    ck.fail(o, DM, m, m)
            else:
                ck.ok(o, "%d paths: %d unchanged, %d changed" % (len(paths), len(un), len(chg)), instances=len(paths))
        o = ck.ob("C18.1b", "diff_metadata: changed(old, new) and unchanged(..) receive (a, b) in that order")
        good = True
        ch = [e for e in b.events if e.bb in b.live and e.name == "change::EntryChange::changed"]
        uc = [e for e in b.events if e.bb in b.live and e.name == "change::EntryChange::unchanged"]
        for e in ch:
            a0 = {x[1] for x in flow.origins_x(lib, b, e.args[0]) if x[0] == "param"}
            a1 = {x[1] for x in flow.origins_x(lib, b, e.args[1]) if x[0] == "param"}
            if a0 != {"a"} or a1 != {"b"}:
                good = False
                ck.fail(o, DM, "changed() operands swapped", "changed(%s, %s)" % (sorted(a0), sorted(a1)), e.site())
        if not ch or not uc:
            good = False
            ck.fail(o, DM, "changed/unchanged constructor missing", "changed=%d unchanged=%d" % (len(ch), len(uc)))
        if good:
            ck.ok(o)

    # ---- 2. TABLE to_entry_change ---------------------------------------------------------------------------
    te = lib.bodies.get("merge::MatchedEntries::<AE, BE>::to_entry_change")
    o = ck.ob("C18.2", "to_entry_change: Both -> diff_metadata, Left -> deleted, Right -> added")
    adt = lib.adts.get("merge::MatchedEntries")
    if te is None or adt is None:
        ck.fail(o, "merge::MatchedEntries::to_entry_change", "anchor-missing", "not found")
    else:
        vn = [v["name"] for v in adt["variants"]]
        paths = pred.enumerate_paths(lib, te, markers=r"^change::EntryChange::(diff_metadata|deleted|added)$")
        table = {}
        for p in paths:
            for a, v in p["constraints"].items():
                if a[0] == "discr" and isinstance(v, int):
                    table.setdefault(vn[v] if v < len(vn) else v, set()).update(m.split("::")[-1] for m in p["markers"])
        want = {"Both": {"diff_metadata"}, "Left": {"deleted"}, "Right": {"added"}}
        if table == want:
            ck.ok(o, str({k: sorted(v) for k, v in table.items()}), instances=3)
        else:
            ck.fail(o, te.name, "arm table changed", "found %s" % {k: sorted(v) for k, v in table.items()})

    # ---- 3. TABLE MergeTrees::next ------------------------------------------------------------------------------
    common.merge_alignment(ck, w, "C18.3a", "C18.3b")
    df = w.body("diff::diff")
    o = ck.ob("C18.3c", "diff(): MergeTrees::new(a <- stored tree entries, b <- source tree entries), both with options.exclude")
    mt = rules.creators_of(df, "merge::MergeTrees::new")
    if not mt:
        ck.fail(o, df.name, "no MergeTrees::new", "diff() does not merge")
    else:
        a0 = flow.origin_calls(flow.origins_x(lib, df, mt[0].args[0]))
        a1 = flow.origin_calls(flow.origins_x(lib, df, mt[0].args[1]))
        if "stored_tree::StoredTree::iter_entries" in a0 and "source::SourceTree::iter_entries" in a1:
            ck.ok(o, sites=[mt[0].site()])
        else:
            ck.fail(o, df.name, "merge sides changed", "a from %s, b from %s" % (sorted(a0), sorted(a1)), mt[0].site())

    # ---- 4. Diff::next filter ----------------------------------------------------------------------------------
    dn = w.body("diff::Diff::next")
    o = ck.ob("C18.4", "Diff::next returns a change only if include_unchanged is set or the change is not 'unchanged'")
    iu = [e for e in dn.events if e.bb in dn.live and e.name.endswith("Change::<E>::is_unchanged")]
    somes = [bb for bb, j, s in rules.agg_sites(dn, "std::option::Option", "Some") if s["pl"]["l"] == 0]
    edges = rules.local_bool_edges(dn, rules.field_read_locals(dn, "include_unchanged"), True)
    for e in iu:
        edges |= rules.bool_switch_edges(dn, e, False)
    if not iu or not somes or not edges:
        ck.fail(o, dn.name, "filter missing", "is_unchanged=%d returns=%d" % (len(iu), len(somes)))
    elif all(dn.must_pass_edges(edges, bb) for bb in somes):
        ck.ok(o)
    else:
        ck.fail(o, dn.name, "unchanged entries returned without include_unchanged", "Some(..) reachable when the change is unchanged and include_unchanged is false")
    o = ck.ob("C18.4c", "Diff::next drops a merged entry only on the verdict of its EntryChange: every entry taken from the merge is converted by "
                        "to_entry_change, and the next one is taken only behind is_unchanged()==true (no second, narrower notion of 'unchanged')")
    mnx_ = events_of(lib, dn, "merge::MergeTrees::next")
    tec_ = [e for e in dn.events if e.bb in dn.live and re.search(r"merge::MatchedEntries::<.*>::to_entry_change$", e.name)]
    some_e_ = set()
    for e in mnx_:
        some_e_ |= flow.success_edges(dn, e, "some")[0]
    if not mnx_ or not tec_ or not some_e_ or not iu:
        ck.fail(o, dn.name, "anchor-missing", "merge.next=%d to_entry_change=%d is_unchanged=%d" % (len(mnx_), len(tec_), len(iu)))
    else:
        heads_ = {e.bb for e in mnx_}
        problems_ = []
        for (u_, v_) in sorted(some_e_):
            if heads_ & dn.reachable(v_, removed_nodes={e.bb for e in tec_}):
                problems_.append("an entry can be dropped before it is converted by to_entry_change")
        un_true = set()
        for e in iu:
            un_true |= rules.bool_switch_edges(dn, e, True)
        for e in tec_:
            if e.target is not None and heads_ & dn.reachable(e.target, removed_edges=un_true):
                problems_.append("an entry can be dropped although is_unchanged() was not true")
        if problems_:
            for m_ in sorted(set(problems_)):
                ck.fail(o, dn.name, m_, m_)
        else:
            ck.ok(o)
    iub = lib.bodies.get("change::Change::<E>::is_unchanged")
    o = ck.ob("C18.4b", "Change::is_unchanged is true exactly for the Unchanged variant")
    adt = lib.adts.get("change::Change")
    if iub is None or adt is None:
        ck.fail(o, "change::Change::is_unchanged", "anchor-missing", "not found")
    else:
        vn = [v["name"] for v in adt["variants"]]
        paths = pred.enumerate_paths(lib, iub)
        true_vals = set()
        for p in paths:
            if p["ret"] == ("const", 1):
                for a, v in p["constraints"].items():
                    if a[0] == "discr":
                        true_vals.add(vn[v] if isinstance(v, int) and v < len(vn) else v)
        if true_vals == {"Unchanged"}:
            ck.ok(o)
        else:
            ck.fail(o, iub.name, "is_unchanged matches %s" % sorted(map(str, true_vals)), "true for %s" % sorted(map(str, true_vals)))

    # ---- 5. backup callback / copy_file table -------------------------------------------------------------------
    bk = w.body("backup::backup")
    o = ck.ob("C18.5a", "backup(): a change returned by copy_entry reaches the callback; a basis-only entry is reported as deleted")
    calls = [e for e in bk.events if e.bb in bk.live and (e.callee or "") == "std::ops::Fn::call" and "Box<F, A>" in e.name and not e.macro]
    dele = events_of(lib, bk, "change::EntryChange::deleted")
    good = True
    if not calls:
        good = False
        ck.fail(o, bk.name, "callback not invoked", "no call of options.change_callback for returned changes")
    else:
        args_ = [flow.origins_x(lib, bk, c_.args[1]) if len(c_.args) > 1 else set() for c_ in calls]
        if not any("backup::BackupWriter::copy_entry" in flow.origin_calls(a_) for a_ in args_):
            good = False
            ck.fail(o, bk.name, "callback argument is not the returned change", "arguments from %s" % [flow.origin_summary(a_) for a_ in args_], calls[0].site())
    del_in_closure = False
    for fb in lib.family("backup::backup"):
        if events_of(lib, fb, "change::EntryChange::deleted"):
            del_in_closure = True
            a = flow.origins_x(lib, fb, events_of(lib, fb, "change::EntryChange::deleted")[0].args[0])
            # the basis side of the merged pair: the local named basis_entry, or the first component of what
            # MatchedEntries::into_options / MergeTrees::next delivered
            if not any("basis_entry" in str(x) or (x[0] == "call" and (x[1].endswith("into_options") or x[1].startswith("merge::MergeTrees::next")))
                       for x in a):
                good = False
                ck.fail(o, fb.name, "deleted() not on the basis entry", "argument from %s" % flow.origin_summary(a))
    if not del_in_closure:
        good = False
        ck.fail(o, bk.name, "deletions not reported", "EntryChange::deleted is never built in backup()")
    if good:
        ck.ok(o)
    o = ck.ob("C18.5c", "backup(): EVERY basis-only entry is reported as deleted - on the arm without a source entry the callback invocation is "
                        "unavoidable before the next merged entry is taken")
    arm_entries = set()
    for bb in sorted(bk.live):
        t = bk.blocks[bb]["term"]
        if t["tk"] != "switch":
            continue
        dl = flow.operand_local(t["discr"])
        for st in reversed(bk.blocks[bb]["stmts"]):
            if st["sk"] == "assign" and st["pl"]["l"] == dl and st["rv"]["rk"] == "discr":
                ty = bk.locals[st["rv"]["pl"]["l"]] or ""
                if ty.startswith("std::option::Option<source::entry::Entry") or ty.startswith("std::option::Option<source::Entry"):
                    arms_ = {int(a[0]): a[1] for a in t["arms"]}
                    arm_entries.add(arms_[0] if 0 in arms_ else t["otherwise"])
                break
    reporters = set()
    for e in bk.events:
        if e.bb not in bk.live:
            continue
        if re.search(r"Option::<T>::(map|inspect|iter)$", e.name) and len(e.args) > 1:
            for oo in flow.origins(bk, e.args[1]):
                if oo[0] == "agg" and oo[1] in lib.bodies and events_of(lib, lib.bodies[oo[1]], "change::EntryChange::deleted"):
                    reporters.add(e.bb)
        if (e.callee or "") == "std::ops::Fn::call" and len(e.args) > 1:
            if "change::EntryChange::deleted" in flow.origin_calls(flow.origins_x(lib, bk, e.args[1])):
                reporters.add(e.bb)
    heads = [e.bb for e in events_of(lib, bk, "merge::MergeTrees::next")]
    if not arm_entries or not heads:
        ck.fail(o, bk.name, "anchor-missing", "no branch on the source entry being absent, or no MergeTrees::next loop head")
    elif not reporters:
        ck.fail(o, bk.name, "deletions not passed to the callback", "no invocation of the change callback with EntryChange::deleted")
    else:
        # not having a callback at all is the one legitimate way round: the None edge of a test of options.change_callback
        no_cb_edges = set()
        for bb_ in sorted(bk.live):
            t_ = bk.blocks[bb_]["term"]
            if t_["tk"] != "switch":
                continue
            dl_ = flow.operand_local(t_["discr"])
            for st_ in reversed(bk.blocks[bb_]["stmts"]):
                if st_["sk"] == "assign" and st_["pl"]["l"] == dl_ and st_["rv"]["rk"] == "discr":
                    oo_ = flow.origins_x(lib, bk, {"k": "copy", "pl": st_["rv"]["pl"]}, through_calls=[r"Option::<T>::as_ref$"])
                    if any(x[0] in ("param", "upvar") and "change_callback" in x[2] for x in oo_):
                        arms_ = {int(a[0]): a[1] for a in t_["arms"]}
                        no_cb_edges.add((bb_, arms_[0] if 0 in arms_ else t_["otherwise"]))
                    break
        skipped = [a for a in arm_entries if any(h in bk.reachable(a, removed_nodes=reporters, removed_edges=no_cb_edges) for h in heads)]
        if skipped:
            ck.fail(o, bk.name, "a deleted entry can go unreported",
                    "from the arm without a source entry the next merged entry can be taken without invoking the callback: %s" %
                    rules.witness(bk, heads[0], removed_nodes=reporters), "%s:bb%d" % (bk.file, skipped[0]))
        else:
            ck.ok(o, "%d reporting site(s)" % len(reporters), instances=len(reporters))
    o = ck.ob("C18.5d", "copy_entry hands copy_file the basis entry it was itself given, whatever its kind: a path that changed kind is 'changed', "
                        "not 'added'")
    ceb = w.body("backup::BackupWriter::copy_entry")
    cfc = rules.creators_of(ceb, "backup::BackupWriter::copy_file")
    if not cfc:
        ck.fail(o, ceb.name, "anchor-missing", "copy_entry does not call copy_file")
    else:
        bad_ = []
        for e in cfc:
            found_ = False
            for a in e.args[1:]:
                oo = flow.origins_x(lib, ceb, a)
                if any(x[0] == "param" and x[1] == "basis_entry" for x in oo):
                    found_ = True
                    others = [x for x in oo if x[0] in ("enum", "agg", "const", "call")]
                    if others:
                        bad_.append((e, flow.origin_summary(oo)))
            if not found_:
                bad_.append((e, "no argument derives from basis_entry"))
        if bad_:
            ck.fail(o, ceb.name, "basis entry replaced or filtered before copy_file", "copy_file's basis argument derives from %s" % (bad_[0][1],), bad_[0][0].site())
        else:
            ck.ok(o, sites=[e.site() for e in cfc])
    cfb = w.body("backup::BackupWriter::copy_file")
    o = ck.ob("C18.5b", "copy_file: 'added' only without a basis entry; 'unchanged' only if the new entry equals the basis entry; otherwise 'changed'")
    added = events_of(lib, cfb, "change::EntryChange::added")
    unch = events_of(lib, cfb, "change::EntryChange::unchanged")
    chgd = events_of(lib, cfb, "change::EntryChange::changed")
    problems = []
    # basis_entry: &Option<IndexEntry> discriminant switch
    sw = None
    for bb in cfb.live:
        t = cfb.blocks[bb]["term"]
        if t["tk"] == "switch":
            dl = flow.operand_local(t["discr"])
            for s in reversed(cfb.blocks[bb]["stmts"]):
                if s["sk"] == "assign" and s["pl"]["l"] == dl and s["rv"]["rk"] == "discr":
                    oo = flow.origins_x(lib, cfb, {"k": "copy", "pl": s["rv"]["pl"]})
                    if any(x[0] == "param" and x[1] == "basis_entry" and not x[2] for x in oo):
                        sw = (bb, {int(a[0]): a[1] for a in t["arms"]}, t["otherwise"])
                    break
    if sw is None:
        problems.append("no test of basis_entry being present")
    else:
        sb, arms, other = sw
        none_edge = (sb, arms[0] if 0 in arms else other)
        some_edge = (sb, arms[1] if 1 in arms else other)
        if not added or not all(cfb.must_pass_edges({none_edge}, e.bb) for e in added):
            problems.append("'added' is reported for a file that has a basis entry")
        if not chgd or not all(cfb.must_pass_edges({some_edge}, e.bb) for e in chgd):
            problems.append("'changed' is reported for a file without a basis entry")
        eqs = rules.eq_tests(cfb, r"index::entry::IndexEntry")
        ed = set()
        for e, pol in eqs:
            ed |= rules.bool_switch_edges(cfb, e, pol)
        if not unch or not ed or not all(cfb.must_pass_edges(ed, e.bb) for e in unch):
            problems.append("'unchanged' is reported without new_entry == basis_entry")
    if problems:
        for m in problems:
            ck.fail(o, cfb.name, m, m)
    else:
        ck.ok(o, "added=%d unchanged=%d changed=%d" % (len(added), len(unch), len(chgd)), instances=len(added) + len(unch) + len(chgd))
