"""C06 - A garbage collection and a backup running together never lose data."""
import re

from cv import flow, rules
from cv.rules import events_of, order_after_success
from props import common

TITLE = "A garbage collection and a backup running together never lose data"
TECHNIQUE = 'static analysis: check-then-act shape of the gc/backup interlock by MIR dominance and guards (outcomes over schedules are not decided)'
EXPLANATION = (
    "Outcomes over schedules are not decidable statically. Decided is whether the interlock has the SHAPE that is "
    "safe under sequentially consistent storage - each side raises its own flag, then reads the other's: "
    "(1) gc: the lock file is written only after 'newest band is closed (or none)' and 'no lock present' were "
    "established, the newest band id remembered in the lock is read before the lock is written, and the lock's "
    "check (newest band id unchanged) succeeds before the first removal; (2) backup: is_locked()==false was "
    "established before Band::create, else GarbageCollectionLockHeld is returned; (3) backup re-reads the lock "
    "AFTER its own band exists and before it lists the blocks it will deduplicate against."
)
UNDECIDED = ["the outcome of every interleaving (schedule-quantified)", "storage without read-after-write consistency"]
ASSUMPTIONS = ["sequentially consistent storage operations"]

NEW = "gc_lock::GarbageCollectionLock::new"
CHECK = "gc_lock::GarbageCollectionLock::check"
IS_LOCKED = "gc_lock::GarbageCollectionLock::is_locked"


def run(ck, w):
    lib = w.lib
    g = w.graph
    nb = w.body(NEW)
    writes = events_of(lib, nb, "transport::Transport::write")
    ck.floor("C06.n", "lock-file writes in GarbageCollectionLock::new", len(writes), 1)

    # ---- 1. gc side ---------------------------------------------------------------------------
    o = ck.ob("C06.1a", "gc lock is written only if the newest band is closed or there is no band")
    last = events_of(lib, nb, "archive::Archive::last_band_id")
    closed = events_of(lib, nb, "archive::Archive::band_is_closed")
    edges = set()
    for e in closed:
        edges |= rules.local_bool_edges(nb, rules.ok_payload_locals(nb, e), True)
    for e in last:
        pl = rules.ok_payload_locals(nb, e)
        # include copies of the Option
        carr = set()
        for l in pl:
            carr |= flow.result_carriers(nb, l)
        for (sb, tested, arms, other) in flow.discriminant_switches(nb, carr):
            if nb.locals[tested].startswith("std::option::Option"):
                edges.add((sb, arms[0] if 0 in arms else other))
    if not last or not closed:
        ck.fail(o, nb.name, "newest-band test missing", "GarbageCollectionLock::new no longer reads last_band_id / band_is_closed")
    else:
        bad = [e for e in writes if not nb.must_pass_edges(edges, e.bb)]
        if bad:
            ck.fail(o, nb.name, "lock written while the newest band may be incomplete",
                    "path: %s" % rules.witness(nb, bad[0].bb, removed_edges=edges), bad[0].site())
        else:
            # the band tested is the newest one
            c = rules.creators_of(nb, "archive::Archive::band_is_closed")
            orig = flow.origins_x(lib, nb, c[0].args[1])
            if "archive::Archive::last_band_id" in flow.origin_calls(orig):
                ck.ok(o, sites=[e.site() for e in closed])
            else:
                ck.fail(o, nb.name, "closed-test not on the newest band", "tested band derives from %s" % flow.origin_summary(orig))
    o = ck.ob("C06.1b", "gc lock is written only after is_file(GC_LOCK) was false (an error counts as locked)")
    uo = [e for e in nb.events if e.bb in nb.live and e.name == "std::result::Result::<T, E>::unwrap_or"]
    good = False
    for e in uo:
        src = flow.origins_x(lib, nb, e.args[0])
        dflt = e.args[1]
        if "transport::Transport::is_file" in flow.origin_calls(src) and dflt.get("k") == "const" and dflt.get("int") == "1":
            ed = rules.bool_switch_edges(nb, e, False)
            if ed and all(nb.must_pass_edges(ed, x.bb) for x in writes):
                good = True
    if good:
        ck.ok(o)
    else:
        ck.fail(o, nb.name, "lock-absent test changed", "the lock write is not behind is_file(GC_LOCK).unwrap_or(true) == false")
    o = ck.ob("C06.1c", "the band id remembered by the lock is read before the lock file is written")
    if order_after_success(ck, o, nb, last, writes, "last_band_id", "write(GC_LOCK)"):
        o2 = ck.ob("C06.1c2", "the GarbageCollectionLock value stores that id and is built after the write succeeded")
        aggs = rules.agg_sites(nb, "gc_lock::GarbageCollectionLock")
        okk = bool(aggs)
        for bb, j, s in aggs:
            orig = flow.origins_x(lib, nb, rules.field_operand(s, "band_id"))
            if "archive::Archive::last_band_id" not in flow.origin_calls(orig):
                okk = False
        if okk:
            order_after_success(ck, o2, nb, writes, [bb for bb, j, s in aggs], "write(GC_LOCK)", "construct lock")
        else:
            ck.fail(o2, nb.name, "lock.band_id not from last_band_id", "band_id field provenance changed")
    cb = w.body(CHECK)
    o = ck.ob("C06.1d", "GarbageCollectionLock::check returns Ok only if last_band_id() still equals the remembered id")
    eqs = rules.eq_tests(cb, r"Option<bandid::BandId>|Option<T>|BandId")
    oks = [bb for bb, j, s in rules.agg_sites(cb, "std::result::Result", "Ok") if s["pl"]["l"] == 0]
    if not eqs or not oks:
        ck.fail(o, cb.name, "no comparison of band ids", "check() no longer compares the newest band id")
    else:
        ed = set()
        for e, pol in eqs:
            a = flow.origins_x(lib, cb, e.args[0]) | flow.origins_x(lib, cb, e.args[1])
            if "archive::Archive::last_band_id" in flow.origin_calls(a) and any(x[0] in ("param", "upvar") and "band_id" in x[2] for x in a):
                ed |= rules.bool_switch_edges(cb, e, pol)
        if ed and all(cb.must_pass_edges(ed, bb) for bb in oks):
            ck.ok(o)
        else:
            ck.fail(o, cb.name, "check passes without equal band ids", "Ok reachable without self.band_id == last_band_id()")
    db = w.body("archive::Archive::delete_bands")
    o = ck.ob("C06.1e", "delete_bands: the lock is taken before the band list / references are read, and check() succeeds before the first removal")
    removals = events_of(lib, db, "blockdir::BlockDir::delete_block") + events_of(lib, db, "band::Band::delete")
    locks = events_of(lib, db, NEW) + events_of(lib, db, "gc_lock::GarbageCollectionLock::break_lock")
    a = order_after_success(ck, o, db, events_of(lib, db, CHECK), removals, "check", "removal")
    o = ck.ob("C06.1f", "delete_bands: list_band_ids / referenced_blocks / block listing happen while the lock is held")
    order_after_success(ck, o, db, locks, events_of(lib, db, "archive::Archive::list_band_ids") + events_of(lib, db, "archive::Archive::referenced_blocks") +
                        events_of(lib, db, "archive::Archive::block_dir"), "gc lock", "planning reads")

    o = ck.ob("C06.1g", "delete_bands: the lock is released only after the last removal")
    rel = events_of(lib, db, "gc_lock::GarbageCollectionLock::release")
    rules.none_after(ck, o, db, rel, lambda e: e in removals, "removal")

    # ---- 2. backup side: first check ---------------------------------------------------------------
    bk = w.body("backup::backup")
    o = ck.ob("C06.2", "backup(): Band::create is reachable only after is_locked() returned false")
    il = events_of(lib, bk, IS_LOCKED)
    creates = events_of(lib, bk, "band::Band::create")
    edges = set()
    for e in il:
        edges |= rules.local_bool_edges(bk, rules.ok_payload_locals(bk, e), False)
    if not il or not edges:
        ck.fail(o, bk.name, "lock not checked", "backup() does not branch on GarbageCollectionLock::is_locked")
    else:
        bad = [e for e in creates if not bk.must_pass_edges(edges, e.bb)]
        if bad or not creates:
            ck.fail(o, bk.name, "Band::create without a lock check", "path: %s" % (rules.witness(bk, bad[0].bb, removed_edges=edges) if bad else "no create"))
        else:
            ck.ok(o, sites=[e.site() for e in il])
    o = ck.ob("C06.2b", "backup(): when the archive is locked it returns GarbageCollectionLockHeld")
    held = rules.agg_sites(bk, "errors::Error", "GarbageCollectionLockHeld")
    te = set()
    for e in il:
        te |= rules.local_bool_edges(bk, rules.ok_payload_locals(bk, e), True)
    if held and te and all(bk.must_pass_edges(te, bb) for bb, j, s in held):
        ck.ok(o)
    else:
        ck.fail(o, bk.name, "no refusal when locked", "GarbageCollectionLockHeld not returned on is_locked()==true")
    il_body = w.body(IS_LOCKED)
    o = ck.ob("C06.2c", "is_locked reads the GC_LOCK file and propagates storage errors")
    isf = rules.creators_of(il_body, "transport::Transport::is_file")
    okk = False
    for e in isf:
        from props.C03 import const_strings
        if "GC_LOCK" in const_strings(lib, flow.origins_x(lib, il_body, e.args[1])):
            okk = True
    if okk:
        ck.ok(o)
    else:
        ck.fail(o, il_body.name, "is_locked does not test GC_LOCK", "is_file argument is not the GC_LOCK constant")

    o = ck.ob("C06.2d", "backup(): the block directory (the present-set snapshot used for deduplication) is opened only after Band::create "
                        "succeeded - a collector that ran to completion before the band existed cannot have removed a block the snapshot still lists")
    bds_ = events_of(lib, bk, "archive::Archive::block_dir") + events_of(lib, bk, "blockdir::BlockDir::open")
    if not bds_ or not creates:
        ck.fail(o, "backup::backup", "anchor-missing", "block_dir events=%d Band::create events=%d" % (len(bds_), len(creates)))
    else:
        rules.order_after_success(ck, o, bk, creates, bds_, "Band::create", "block_dir()")

    common.block_dir_fresh(ck, w, "C06.2e")

    # ---- 3. backup side: re-check after raising its own flag -----------------------------------------------
    o = ck.ob("C06.3", "backup(): the lock is read again after Band::create succeeded and before the block directory is listed")
    ce, _, _ = rules.success_edges_union(bk, creates)
    after_create = [e for e in il if ce and bk.must_pass_edges(ce, e.bb)]
    bds = events_of(lib, bk, "archive::Archive::block_dir")
    good = False
    if after_create and bds:
        ed = set()
        for e in after_create:
            ed |= rules.local_bool_edges(bk, rules.ok_payload_locals(bk, e), False)
        if ed and all(bk.must_pass_edges(ed, b.bb) for b in bds):
            good = True
    if good:
        ck.ok(o, sites=[e.site() for e in after_create])
    else:
        ck.fail(o, "backup::backup", "no is_locked dominated by Band::create",
                "the lock is checked only before the new band exists: a gc that takes the lock and passes its check between "
                "backup's check and Band::create can delete a block that backup then deduplicates against",
                creates[0].site() if creates else None)
