"""C09 - Validate is accurate: silent on healthy archives, loud on damage."""
import re

from cv import err, flow, rules
from cv.rules import events_of
from props import common, errscope

TITLE = "Validate is accurate: silent on healthy archives, loud on damage"
TECHNIQUE = 'static analysis: error-discipline classification under validate (loudness), must-consult rule for the hunk count, coverage table of reporting sites'
EXPLANATION = (
    "The healthy side (no false positives) is value-level and not decided. Decided are loudness obligations on "
    "everything reachable from Archive::validate: (1) every result that damage to a stored file can turn into an "
    "error (transport read/list, decompression, JSON decoding, hash check) is propagated to validate's own Err or "
    "handed to Monitor::error - never swallowed or only logged; (2) the hunk count recorded in a complete band's "
    "tail is read on the validate path and compared, with a Monitor::error behind the comparison; (3) coverage "
    "table: band heads (Band::open in validate_bands), index hunks, and blocks (hash check in full mode, presence "
    "and referenced-length comparisons in Archive::validate) each have a reporting site."
    " Added in later rounds: the hunk-count comparison covers all hunks present (C09.2b); the referenced-length maps record unseen blocks (C09.3i); the hunk listing hides no file (C09.3j); a block is credited with its decompressed length (C09.3k)."
)
UNDECIDED = ["absence of false positives on healthy archives (value-level)",
             "whether every possible corruption of a block changes its hash (trusted: BLAKE2b)"]
ASSUMPTIONS = ["damage turns into an Err of a read/list/decompress/deserialize/hash-check, or into a missing file"]

ERR_ALLOWED = {
    ("band::band_version_supported", "semver::Version::parse", "unwrap_or"):
        "conservative: a version string that does not parse counts as unsupported, so Band::open fails with UnsupportedBandVersion",
    ("archive::Archive::list_band_ids", "core::str::<impl str>::parse", "ok"): "name filter: a directory that is not named like a band is not a band",
    ("index::IndexRead::hunks_available", "core::str::<impl str>::parse", "ok"): "name filter: not a hunk file name",
}


def run(ck, w):
    lib = w.lib
    g = w.graph

    # ---- 1. ERR scoped to validate --------------------------------------------------------------
    o = ck.ob("C09.1", "no read/decoding error reachable from Archive::validate is swallowed or merely logged")
    sites, scope = errscope.sites_under(w, ["archive::Archive::validate"], damage_only=True)
    ck.floor("C09.1.n", "damage-sensitive result sites under validate", len(sites), 12)
    bad = []
    for s in sites:
        if s.fate in ("swallowed", "logged"):
            k = (s.body.root, s.callee_short(), s.detail)
            if k in ERR_ALLOWED or (s.body.root, s.callee_short(), None) in ERR_ALLOWED or errscope.allowed_kind_conversion(s):
                continue
            bad.append(s)
    if bad:
        for s in bad:
            ck.fail(o, s.body.root, "%s error %s" % (s.callee_short().split("::")[-1], s.fate),
                    "a damaged file makes %s fail, and that error is %s (%s): validate stays silent" % (s.callee_short(), s.fate, s.detail),
                    s.event.site())
    else:
        ck.ok(o, "%d site(s); fates: %s" % (len(sites), sorted({s.fate for s in sites})), instances=len(sites))
    o = ck.ob("C09.1b", "a panic is not a report: no read/decoding result under validate is unwrapped")
    pan = [s for s in sites if s.fate == "panicked"]
    if pan:
        for s in pan:
            ck.fail(o, s.body.root, "%s result %s (%s)" % (s.callee_short().split("::")[-1], s.fate, s.detail),
                    "%s is %s: a failing list/read crashes validate instead of being reported" % (s.callee_short(), s.detail), s.event.site())
    else:
        ck.ok(o)

    # ---- 2. must-consult the hunk count --------------------------------------------------------------
    o = ck.ob("C09.2", "the tail's index_hunk_count is read on the validate path and compared, with Monitor::error behind the comparison")
    readers = []
    for n in sorted(scope):
        b = lib.bodies.get(n)
        if b is None or not b.file.startswith("src/") or rules.is_derive_body(b):
            continue
        for bb, j, s in b.all_assigns():
            rv = s["rv"]
            pls = []
            if rv["rk"] == "use" and rv["ops"][0].get("k") in ("copy", "move"):
                pls.append(rv["ops"][0]["pl"])
            elif rv["rk"] in ("ref", "discr"):
                pls.append(rv["pl"])
            for pl in pls:
                if any(p.startswith("f:") and p.split(":", 2)[2] == "index_hunk_count" for p in pl["p"]):
                    readers.append((b, bb, s))
    consulted = False
    detail = []
    for b, bb, s in readers:
        # does the value reach a comparison in this body, and is there a Monitor::error in it?
        start = s["pl"]["l"]
        tracked = {start}
        cmp_found = False
        changed = True
        while changed:
            changed = False
            for b2, j2, s2 in b.all_assigns():
                rv = s2["rv"]
                for op in rv.get("ops", []):
                    if flow.operand_local(op) in tracked:
                        if rv["rk"] == "binop" and rv["op"] in ("Eq", "Ne", "Lt", "Le", "Gt", "Ge"):
                            cmp_found = True
                        if s2["pl"]["l"] not in tracked:
                            tracked.add(s2["pl"]["l"])
                            changed = True
                if rv["rk"] in ("ref", "discr") and rv["pl"]["l"] in tracked and s2["pl"]["l"] not in tracked:
                    tracked.add(s2["pl"]["l"])
                    changed = True
            for e in b.events:
                if e.bb in b.live and any(flow.operand_local(a) in tracked for a in e.args):
                    if re.search(r"PartialEq::(eq|ne)$|Iterator::(eq|ne)$|PartialOrd::", e.callee or ""):
                        cmp_found = True
                    if e.dest and e.dest["l"] not in tracked and not e.dest["p"]:
                        tracked.add(e.dest["l"])
                        changed = True
        has_err = any(e.bb in b.live and (e.callee or "").endswith("Monitor::error") for e in b.events)
        detail.append("%s: compared=%s error=%s" % (b.root, cmp_found, has_err))
        if cmp_found and has_err:
            consulted = True
    if consulted:
        ck.ok(o, "; ".join(detail), instances=len(readers))
    else:
        ck.fail(o, "band::Tail::index_hunk_count", "hunk count never consulted by validate",
                "the tail records how many hunks a complete band has 'to enable validation that none are missing', but nothing "
                "reachable from validate compares it with the hunks present (readers: %s): a deleted hunk goes unnoticed" % (detail or "none"))

    o = ck.ob("C09.2c", "Archive::validate hands EVERY listed band to validate_bands: the list comes from list_band_ids and nothing is removed from it "
                        "(a band directory that lost its head is damage to report, not a directory to skip)")
    avb = w.body("archive::Archive::validate")
    lst_ = events_of(lib, avb, "archive::Archive::list_band_ids")
    vbe_ = rules.creators_of(avb, "validate::validate_bands") or events_of(lib, avb, "validate::validate_bands")
    if not lst_ or not vbe_:
        ck.fail(o, avb.name, "anchor-missing", "list_band_ids=%d validate_bands=%d in Archive::validate" % (len(lst_), len(vbe_)))
    else:
        thru_ = common.WHOLE_THROUGH + [r"Try>?::branch$"]
        src_ = flow.origins_x(lib, avb, vbe_[0].args[1], through_all=thru_)
        problems_ = []
        if "archive::Archive::list_band_ids" not in flow.origin_calls(src_):
            problems_.append("the bands validated do not come from list_band_ids (%s)" % flow.origin_summary(src_))
        for e_ in lst_:
            for x_ in common.narrowing_uses(lib, avb, e_):
                problems_.append("the band list is narrowed by %s before validation" % x_.name.split("::")[-1])
        for x_ in avb.events:
            if x_.bb in avb.live and x_.args and re.search(r"Vec::<T, A>::(retain|retain_mut|dedup\w*|clear)$|Iterator>?::(filter|filter_map|skip|take|take_while|skip_while|step_by)$", x_.name):
                oo_ = flow.origins_x(lib, avb, x_.args[0], through_all=thru_)
                if "archive::Archive::list_band_ids" in flow.origin_calls(oo_):
                    problems_.append("the band list is narrowed by %s before validation" % x_.name.split("::")[-1])
        if problems_:
            for m_ in sorted(set(problems_)):
                ck.fail(o, avb.name, m_.split(" (")[0], m_)
        else:
            ck.ok(o, sites=[vbe_[0].site()])

    o = ck.ob("C09.2b", "the hunk-count check looks at ALL hunks present (their whole sequence or their number), not at one end of the list")
    vbb = w.body("validate::validate_bands")
    ha_thru = [r"Iterator>?::(next|copied|cloned|map|eq|count)$", r"IntoIterator>?::into_iter$", r"<impl \[T\]>::(iter|len)$", r"Vec::<T, A>::len$",
               r"Deref>?::deref$", r"Try>?::branch$", r"Option::<T>::(map_or|map|unwrap_or|unwrap_or_default)$", r"From<.*>>?::from$"]
    narrow = re.compile(r"<impl \[T\]>::(last|first|get|split_last|split_first)$|Iterator::(last|max|min|nth|max_by_key|min_by_key)$|Vec::<T, A>::pop$")
    sites = []
    for e in vbb.events:
        if e.bb in vbb.live and re.search(r"Iterator::(eq|ne)$|PartialEq::(eq|ne)$", e.callee or "") and len(e.args) == 2:
            sites.append([e.args[0], e.args[1], e.site()])
    for bb, j, st in vbb.all_assigns():
        rv = st["rv"]
        if rv["rk"] == "binop" and rv["op"] in ("Eq", "Ne", "Lt", "Le", "Gt", "Ge") and len(rv["ops"]) == 2:
            sites.append([rv["ops"][0], rv["ops"][1], "%s:%s" % (vbb.file, st.get("line"))])
    n_cmp = 0
    bad_cmp = []
    for a, b_, site in sites:
        oa = flow.origins_x(lib, vbb, a, through_all=ha_thru) if a.get("k") != "const" else set()
        ob = flow.origins_x(lib, vbb, b_, through_all=ha_thru) if b_.get("k") != "const" else set()

        def has_count(oo):
            return any((x[0] == "call" and "index_hunk_count" in x[3]) or (x[0] in ("param", "upvar") and "index_hunk_count" in x[2]) for x in oo)

        def has_hunks(oo):
            return "index::IndexRead::hunks_available" in flow.origin_calls(oo)
        for cnt, hk in ((oa, ob), (ob, oa)):
            if has_count(cnt) and has_hunks(hk):
                n_cmp += 1
                nar = sorted(c for c in flow.origin_calls(hk) | {x[1] for x in hk if x[0] == "via"} if narrow.search(c))
                if nar:
                    bad_cmp.append((site, nar))
    if bad_cmp:
        ck.fail(o, vbb.name, "hunk count compared with one end of the hunk list",
                "the recorded count is compared with a value taken from %s of the listing: a hunk missing from the middle goes unnoticed" % bad_cmp[0][1], bad_cmp[0][0])
    elif n_cmp == 0:
        ck.fail(o, vbb.name, "no comparison of the recorded count with the hunks present", "validate_bands does not compare index_hunk_count with hunks_available()")
    else:
        ck.ok(o, "%d comparison(s)" % n_cmp, instances=n_cmp)

    # ---- 3. coverage table -----------------------------------------------------------------------------
    vb = w.body("validate::validate_bands")
    o = ck.ob("C09.3a", "band heads: a band that cannot be opened is reported by validate_bands")
    evs = events_of(lib, vb, "band::Band::open")
    fates = [err.classify(vb, e).fate for e in evs]
    if evs and all(f in ("reported", "propagated") for f in fates):
        ck.ok(o, "fates=%s" % fates, sites=[e.site() for e in evs], instances=len(evs))
    else:
        ck.fail(o, vb.name, "Band::open failure not reported", "fates=%s" % fates)
    o = ck.ob("C09.3b", "index walk: a failing stored-tree walk is reported by validate_bands")
    evs = events_of(lib, vb, "validate::validate_stored_tree") + events_of(lib, vb, "archive::Archive::open_stored_tree") + events_of(lib, vb, "band::Band::validate")
    fates = [err.classify(vb, e).fate for e in evs]
    if len(evs) >= 3 and all(f in ("reported", "propagated") for f in fates):
        ck.ok(o, "fates=%s" % fates, instances=len(evs))
    else:
        ck.fail(o, vb.name, "index walk failure not reported", "fates=%s" % fates)
    gu = w.body("blockdir::get_async_uncached")
    o = ck.ob("C09.3c", "blocks (full mode): get_async_uncached returns Ok only if the content hash equals the block name")
    tests = rules.eq_tests(gu, r"blockhash::BlockHash")
    oks = [bb for bb, j, s in rules.agg_sites(gu, "std::result::Result", "Ok") if s["pl"]["l"] == 0]
    edges = set()
    for e, pol in tests:
        edges |= rules.bool_switch_edges(gu, e, pol)
    if tests and oks and edges and all(gu.must_pass_edges(edges, bb) for bb in oks):
        # compared values: hash_bytes(decompressed) vs the parameter
        a = flow.origins_x(lib, gu, tests[0][0].args[0]) | flow.origins_x(lib, gu, tests[0][0].args[1])
        if "blockhash::BlockHash::hash_bytes" in flow.origin_calls(a):
            ck.ok(o)
        else:
            ck.fail(o, gu.name, "hash comparison not on the recomputed hash", "compares %s" % flow.origin_summary(a))
    else:
        ck.fail(o, gu.name, "hash check missing", "Ok is reachable without the hash comparison succeeding")
    o = ck.ob("C09.3k", "blocks (full mode): the length a block is credited with is that of its DECOMPRESSED content (what addresses index into), "
                        "taken from the result of get_async_uncached")
    problems = []
    ok_sites = [(bb, s_) for bb, j, s_ in rules.agg_sites(gu, "std::result::Result", "Ok") if s_["pl"]["l"] == 0]
    for bb, s_ in ok_sites:
        ro = flow.origins_x(lib, gu, s_["rv"]["ops"][0], through_all=[r"::len$", r"Bytes::len$", r"From<.*>>?::from$", r"Into<.*>>?::into$"])
        rc = flow.origin_calls(ro)
        if not any(c.endswith("Decompressor::decompress") for c in rc):
            problems.append("get_async_uncached returns something not derived from the decompressed content (%s)" % sorted(c.split("::")[-1] for c in rc))
    lens_ok = False
    for fb in lib.family("blockdir::BlockDir::validate"):
        for bb, j, s_ in fb.all_assigns():
            if s_["rv"]["rk"] == "agg" and s_["rv"].get("ak") == "tuple" and len(s_["rv"]["ops"]) == 2:
                lo = flow.origins_x(lib, fb, s_["rv"]["ops"][1], through_all=[r"::len$", r"Bytes::len$"])
                if any(c.startswith("blockdir::get_async_uncached") for c in flow.origin_calls(lo)):
                    lens_ok = True
    if not lens_ok:
        problems.append("BlockDir::validate does not record (hash, length) from the result of get_async_uncached")
    if problems:
        for m_ in problems:
            ck.fail(o, gu.name, m_.split(" (")[0], m_)
    else:
        ck.ok(o)
    bv = w.body("blockdir::BlockDir::validate")
    o = ck.ob("C09.3d", "blocks (full mode): every present block is read through get_async_uncached and a failure is reported")
    found = False
    for fb in lib.family(bv.name.split("::{closure")[0]):
        evs = events_of(lib, fb, "blockdir::get_async_uncached")
        if evs:
            f = [err.classify(fb, e).fate for e in evs]
            if all(x == "reported" or x == "propagated" for x in f):
                found = True
    if found:
        ck.ok(o)
    else:
        ck.fail(o, bv.name, "block read failure not reported", "BlockDir::validate does not report get_async_uncached errors")
    av = w.body("archive::Archive::validate")
    errs = [e for e in av.events if e.bb in av.live and (e.callee or "").endswith("Monitor::error")]
    o = ck.ob("C09.3e", "blocks (quick mode): a referenced block that is not present is reported")
    cont = [e for e in av.events if e.bb in av.live and e.name.endswith("HashSet::<T, S, A>::contains")]
    ed = set()
    for e in cont:
        ed |= rules.bool_switch_edges(av, e, False)
    hit = [e for e in errs if ed and av.must_pass_edges(ed, e.bb)]
    if not hit:
        # adapter idiom: keys().filter(|h| !present.contains(h)).for_each(|h| monitor.error(BlockMissing{..}))
        fam_av = lib.family("archive::Archive::validate") + [b_ for b_ in lib.bodies.values() if b_.root == "archive::Archive::validate" and b_ not in lib.family("archive::Archive::validate")]
        for fb in fam_av:
            for fe in fb.events:
                if fe.bb not in fb.live or not re.search(r"Iterator>?::for_each$", fe.name) or len(fe.args) < 2:
                    continue
                recv_calls = flow.origin_calls(flow.origins_x(lib, fb, fe.args[0]))
                flt = [x for x in fb.events if x.bb in fb.live and re.search(r"Iterator>?::filter$", x.name) and x.name in recv_calls]
                if not flt:
                    continue
                neg_contains = False
                for oo in flow.origins(fb, flt[0].args[1]):
                    if oo[0] == "agg" and oo[1] in lib.bodies:
                        kb = lib.bodies[oo[1]]
                        ce = [x for x in kb.events if x.bb in kb.live and x.name.endswith("HashSet::<T, S, A>::contains")]
                        nots = [st_ for bb_, j_, st_ in kb.all_assigns() if st_["rv"]["rk"] == "unop" and st_["rv"]["op"] == "Not"]
                        if ce and nots:
                            neg_contains = True
                reports = False
                for oo in flow.origins(fb, fe.args[1]):
                    if oo[0] == "agg" and oo[1] in lib.bodies:
                        eb = lib.bodies[oo[1]]
                        if [x for x in eb.events if x.bb in eb.live and (x.callee or "").endswith("Monitor::error")] and \
                                rules.agg_sites(eb, "errors::Error", "BlockMissing"):
                            reports = True
                if neg_contains and reports:
                    hit = [fe]
    if hit:
        ck.ok(o, sites=[e.site() for e in hit])
    else:
        ck.fail(o, av.name, "missing block not reported in quick mode", "no Monitor::error behind present_blocks.contains(hash)==false")
    o = ck.ob("C09.3f", "blocks (full mode): a referenced range longer than the block, or a missing block, is reported")
    gts = []
    for bb, j, s in av.all_assigns():
        if s["rv"]["rk"] == "binop" and s["rv"]["op"] in ("Gt", "Lt", "Ge", "Le"):
            gts.append((bb, s))
    short_ok = False
    for bb, s in gts:
        ed = rules.local_bool_edges(av, {s["pl"]["l"]}, True)
        if any(av.must_pass_edges(ed, e.bb) for e in errs if ed):
            short_ok = True
    gets = [e for e in av.events if e.bb in av.live and e.name.endswith("HashMap::<K, V, S, A>::get")]
    # the looked-up length may be copied out of the Option<&usize> first
    gets += [e for e in av.events if e.bb in av.live and re.search(r"Option::<&T>::(copied|cloned)$|Option::<T>::(copied|cloned)$", e.name) and e.args and
             any(c.endswith("HashMap::<K, V, S, A>::get") for c in flow.origin_calls(flow.origins_x(lib, av, e.args[0])))]
    none_ok = False
    for e in gets:
        for (sb, tested, arms, other) in flow.discriminant_switches(av, flow.result_carriers(av, e.dest["l"])):
            none_edge = (sb, arms[0] if 0 in arms else other)
            if any(av.must_pass_edges({none_edge}, x.bb) for x in errs):
                none_ok = True
    if short_ok and none_ok:
        ck.ok(o)
    else:
        ck.fail(o, av.name, "length / missing-block report removed", "range comparison reported=%s, missing block reported=%s" % (short_ok, none_ok))
    o = ck.ob("C09.3l", "blocks (full mode): a referenced block for which no validated length exists is reported unconditionally "
                        "(no further probe decides whether it is 'really' missing)")
    none_edges_ = []
    for e in gets:
        for (sb, tested, arms, other) in flow.discriminant_switches(av, flow.result_carriers(av, e.dest["l"])):
            none_edges_.append((sb, arms[0] if 0 in arms else other))
    loop_heads = [e.bb for e in av.events if e.bb in av.live and re.search(r"Iterator>?::next$", e.name)]
    missing_errs = {e.bb for e in errs}
    if not none_edges_ or not missing_errs:
        ck.fail(o, av.name, "anchor-missing", "no lookup of the validated length or no Monitor::error in validate")
    else:
        skip = False
        for (sb, t_) in none_edges_:
            reach = av.reachable(t_, removed_nodes=missing_errs)
            if any(h in reach for h in loop_heads) or any(r in reach for r in av.return_blocks()):
                skip = True
        if skip:
            ck.fail(o, av.name, "missing block reported only conditionally", "after the length lookup returned None the next block can be reached "
                    "without Monitor::error")
        else:
            ck.ok(o)
    o = ck.ob("C09.3g", "validate passes the referenced lengths from validate_bands to the block checks")
    vbs = events_of(lib, av, "validate::validate_bands")
    if vbs and err.classify(av, vbs[0]).fate == "propagated":
        ck.ok(o)
    else:
        ck.fail(o, av.name, "validate_bands result not propagated", "validate does not propagate validate_bands")
    vst = w.body("validate::validate_stored_tree")
    o = ck.ob("C09.3h", "validate_stored_tree records, for every file entry, the end of each referenced range per block")
    fam = [vst] + [lib.bodies[n] for n in g.reachable_from([vst.name]) if n in lib.bodies and lib.bodies[n].file == "src/validate.rs"]
    ent = [e for b in fam for e in b.events if e.bb in b.live and e.name.endswith("HashMap::<K, V, S, A>::entry")]
    adds = [s for b in fam for bb, j, s in b.all_assigns() if s["rv"]["rk"] == "binop" and s["rv"]["op"].startswith("Add")] + \
           [e for b in fam for e in b.events if e.bb in b.live and re.search(r"::(saturating_add|checked_add|wrapping_add)$", e.name)]
    if ent and adds:
        ck.ok(o)
    else:
        ck.fail(o, vst.name, "range bookkeeping removed", "no start+len per block recorded")
    common.cli_option(ck, w, "C09.4", "ValidateOptions", "skip_block_hashes", ("param", "quick"))
    _maps_insert(ck, w)
    common.hunk_listing_complete(ck, w, "C09.3j")


def _maps_insert(ck, w):
    """C09.3i: the referenced-length maps are filled with entry().and_modify(max).or_insert(): an
    entry() whose Entry never reaches or_insert only updates blocks already known."""
    lib = w.lib
    o = ck.ob("C09.3i", "validate: every HashMap::entry() on the referenced-length maps ends in or_insert (unseen blocks are recorded, not only updated)")
    n = 0
    bad = []
    for b in rules.user_bodies(lib):
        if b.file != "src/validate.rs":
            continue
        for e in b.events:
            if e.bb in b.live and e.name.endswith("HashMap::<K, V, S, A>::entry"):
                n += 1
                tracked = {e.dest["l"]}
                inserted = False
                changed = True
                while changed:
                    changed = False
                    for bb, j, st in b.all_assigns():
                        rv = st["rv"]
                        if any(flow.operand_local(op) in tracked for op in rv.get("ops", [])) and st["pl"]["l"] not in tracked:
                            tracked.add(st["pl"]["l"])
                            changed = True
                    for e2 in b.events:
                        if e2.bb in b.live and e2.args and flow.operand_local(e2.args[0]) in tracked:
                            if re.search(r"Entry::<'a, K, V, A>::(or_insert|or_insert_with|or_insert_with_key|or_default|insert_entry)$", e2.name):
                                inserted = True
                            if e2.dest and not e2.dest["p"] and e2.dest["l"] not in tracked and re.search(r"Entry::<'a, K, V, A>::(and_modify)$", e2.name):
                                tracked.add(e2.dest["l"])
                                changed = True
                if not inserted:
                    bad.append((b, e))
    ck.floor("C09.3i.n", "HashMap::entry() sites in validate.rs", n, 2)
    if bad:
        for b, e in bad:
            ck.fail(o, b.root, "entry() without or_insert", "blocks seen for the first time at this site are dropped from the referenced set, so validate never looks at them", e.site())
    else:
        ck.ok(o, "%d site(s)" % n, instances=n)
