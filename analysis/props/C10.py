"""C10 - Damage to one stored file is contained and never crashes the tool."""
import re

from cv import err, flow, rules, taint
from cv.rules import events_of
from props import common, errscope

TITLE = "Damage to one stored file is contained and never crashes the tool"
TECHNIQUE = 'static analysis: summary-based taint from decoded data to panicking/allocating operations (separate value and discriminant taint), error-discipline classification, guards'
EXPLANATION = (
    "Decided: (1) TAINT - data decoded from storage (fields of IndexEntry, Address, band Head/Tail, the archive "
    "header; bytes read; listings) never reaches a panicking operation in the bodies reachable from restore, "
    "iter_entries, validate, show_versions, backup and diff: no unwrap/expect whose Some/Ok-ness depends on it, no "
    "overflow/bounds assertion whose result bounds or indexes something, no panic!/assert! on a branch decided by "
    "it. The analysis is summary based (context sensitive for helpers), field based for structs, and tracks "
    "Option/Result discriminants separately from payloads. (2) ERR - no read/decoding result on those paths is "
    "unwrapped. (3) Loudness - under restore and iter_entries a hunk or block that cannot be read is reported "
    "through the monitor, and every per-entry arm of restore that reports an error skips the rest of that entry. "
    "(4) Healing - missing blocks make a file be stored again and emptied block files count as absent."
    " Added in later rounds: a second taint solve in which the newtypes of a decoded entry (Apath, BlockHash, ...) carry taint, reported outside the write side; allocation sized by decoded data; read_hunk returns only decoded entries (C10.3g); the hunk listing hides no file (C10.3h); an unreadable hunk does not end its band (C10.3i)."
)
UNDECIDED = ["termination under arbitrary garbage beyond the stitch termination measure (C08)",
             "exactness of what still restores", "allocation size on a decompression bomb",
             "string indexing of a decoded apath with a constant range (e.g. &apath[1..] on an empty decoded path)"]
ASSUMPTIONS = ["damage = one stored file deleted, truncated, garbled or bit-flipped; directory listings keep working"]

ENTRIES = ["restore::restore", "archive::Archive::iter_entries", "archive::Archive::validate", "show::show_versions",
           "backup::backup", "diff::diff", "diff::Diff::next", "index::stitch::Stitch::next", "merge::MergeTrees::next"]
DOC_TYPES = {"index::entry::IndexEntry", "blockdir::Address", "band::Head", "band::Tail", "archive::ArchiveHeader"}
SKIP_FILES = re.compile(r"^src/(transport/|monitor|termui|test_fixtures|mount)")

# values bounded by the size of an in-memory collection cannot overflow by adding 1
BOUNDED_SRC = re.compile(r"binary_search|::len$|::count$|::position$|enumerate")

ERR_ALLOWED = {
    ("band::band_version_supported", "semver::Version::parse", "unwrap_or"):
        "conservative: a version string that does not parse counts as unsupported, so Band::open fails with UnsupportedBandVersion",
    ("archive::Archive::list_band_ids", "core::str::<impl str>::parse", "ok"): "name filter",
    ("index::IndexRead::hunks_available", "core::str::<impl str>::parse", "ok"): "name filter",
    ("show::show_versions", "band::Band::open", None): "written as an ERROR-level log line; listing versions is outside the loudness clause",
    ("show::show_versions", "band::Band::get_info", None): "written as an ERROR-level log line; listing versions is outside the loudness clause",
}


WRITE_SIDE = re.compile(r"^src/(backup|index/write)\.rs$")


def run(ck, w):
    lib = w.lib
    g = w.graph

    # ---- 1. TAINT decoded data -> panic ---------------------------------------------------------------
    decoded = {im["self_ty"] for im in lib.impls if im["trait"] and "Deserialize" in im["trait"] and "::_::" not in im["self_ty"]}
    o = ck.ob("C10.1.types", "the document types decoded from storage are the ones the taint sources are anchored on")
    missing = DOC_TYPES - decoded
    if missing:
        ck.fail(o, ",".join(sorted(missing)), "anchor-missing", "no Deserialize impl for %s" % sorted(missing))
    else:
        ck.ok(o, "Deserialize impls: %s" % sorted(decoded), instances=len(decoded))
    T = taint.Taint(w, DOC_TYPES, decoded_enums={"kind::Kind"})
    iters = T.solve()
    scope = g.reachable_from(ENTRIES)
    ck.stats["taint"] = {"iterations": iters, "heap_fields_tainted": len(T.heap), "bodies_in_scope": len(scope)}
    o = ck.ob("C10.1", "no decoded value reaches an unwrap/expect, a bounding overflow/bounds assertion, or an explicit panic on the read paths")
    real = []
    info = []
    for sid, s in sorted(T.real.items(), key=lambda x: (x[1].body.file, x[1].line or 0)):
        if s.body.name not in scope or SKIP_FILES.search(s.body.file) or rules.is_derive_body(s.body):
            continue
        if s.kind == "overflow-info":
            info.append(s)
            continue
        if s.kind == "assert":
            # operands that are positions/lengths of in-memory collections
            t = s.body.blocks[s.bb]["term"]
            srcs = set()
            for op in t.get("mops", []):
                if op.get("k") != "const":
                    srcs |= {x[1] for x in flow.origins(s.body, op) if x[0] == "call"}
            if srcs and all(BOUNDED_SRC.search(x) for x in srcs):
                info.append(s)
                continue
        real.append(s)
    # second solve: the newtypes that make up a decoded entry (Apath, BlockHash, UnixMode, Owner ...) carry
    # taint too. They are shared with the source walk, so on the write side (backup.rs, index/write.rs) this is
    # too coarse; a sink found only by this solve is reported where it becomes real OUTSIDE the write side.
    T2 = taint.Taint(w, DOC_TYPES, decoded_enums={"kind::Kind"}, carry_field_types=True)
    T2.solve()
    old_keys = {(s_.body.root, s_.kind, s_.name) for s_ in T.real.values()}
    n2 = 0
    for sid, s_ in sorted(T2.real.items(), key=lambda x: (x[1].body.file, x[1].line or 0)):
        if s_.body.name not in scope or SKIP_FILES.search(s_.body.file) or rules.is_derive_body(s_.body):
            continue
        if s_.kind not in ("panic", "unwrap") or (s_.body.root, s_.kind, s_.name) in old_keys:
            continue
        sites_ = [n for n in T2.real_sites.get(sid, ()) if n in lib.bodies and n in scope
                  and not WRITE_SIDE.search(lib.bodies[n].file) and not SKIP_FILES.search(lib.bodies[n].file)]
        if not sites_:
            continue
        n2 += 1
        s_.via = "%s -> ... %s" % (sorted(sites_)[0], (s_.via or "")[-100:])
        s_.real_root = lib.bodies[sorted(sites_)[0]].root
        real.append(s_)
    ck.stats["taint"]["newtype_solve_extra_sinks"] = n2
    ck.floor("C10.1.src", "struct fields known to carry decoded data (sources incl. propagated)", len(T.heap), 10)
    if real:
        seen = set()
        for s in real:
            key = (getattr(s, "real_root", None) or s.body.root, s.kind, s.name)
            if key in seen:
                continue
            seen.add(key)
            ck.fail(o, key[0], "%s: %s" % (s.kind, s.name), "%s%s" % (s.msg, (" [reached via %s]" % s.via[-160:]) if s.via else ""), s.site())
    else:
        ck.ok(o, "%d informational debug-only overflow site(s)" % len(info), instances=len(T.heap))
    ck.note("debug-build-only arithmetic on decoded lengths that bounds nothing (informational): %s" % sorted({"%s@%s" % (s.body.root, s.line) for s in info})[:20])
    # Iterator::sum / product over decoded numbers overflow-check inside core (inherited from this crate's
    # profile): same class, informational
    sums = []
    for n_ in sorted(scope):
        b_ = lib.bodies.get(n_)
        if b_ is None or not b_.file.startswith("src/") or SKIP_FILES.search(b_.file) or rules.is_derive_body(b_):
            continue
        for e_ in b_.events:
            if e_.bb in b_.live and re.search(r"Iterator::(sum|product)$", e_.callee or "") and e_.args:
                if taint.SRC in T._read(b_, e_.args[0], b_.kind in ("closure", "coroutine"))[0]:
                    sums.append("%s@%s" % (b_.root, e_.line))
    ck.note("debug-build-only sum()/product() over decoded numbers (informational): %s" % sorted(set(sums))[:10])

    # ---- 2. no panic on read/decoding results --------------------------------------------------------------
    o = ck.ob("C10.2", "no read/decoding result on the read paths is unwrapped")
    sites, _ = errscope.sites_under(w, ENTRIES, damage_only=True)
    ck.floor("C10.2.n", "damage-sensitive result sites on the read paths", len(sites), 15)
    pan = [s for s in sites if s.fate == "panicked"]
    if pan:
        for s in pan:
            ck.fail(o, s.body.root, "%s result %s" % (s.callee_short().split("::")[-1], s.detail),
                    "%s().%s: a damaged file crashes the tool" % (s.callee_short(), s.detail), s.event.site())
    else:
        ck.ok(o, "%d site(s)" % len(sites), instances=len(sites))

    _version_default_is_unsupported(ck, w)
    _read_hunk_returns_decoded(ck, w)
    common.hunk_listing_complete(ck, w, "C10.3h")
    from props import C08 as _c08
    _c08.band_left_only_when_exhausted(ck, w, "C10.3i")

    # ---- 3. loudness on restore / list ---------------------------------------------------------------------
    o = ck.ob("C10.3", "under restore and iter_entries every read/decoding failure is reported or propagated")
    sites, _ = errscope.sites_under(w, ["restore::restore", "archive::Archive::iter_entries", "index::stitch::Stitch::next"], damage_only=True)
    bad = []
    for s in sites:
        if s.fate in ("swallowed", "logged"):
            if (s.body.root, s.callee_short(), s.detail) in ERR_ALLOWED or (s.body.root, s.callee_short(), None) in ERR_ALLOWED or errscope.allowed_kind_conversion(s):
                continue
            bad.append(s)
    if bad:
        for s in bad:
            ck.fail(o, s.body.root, "%s error %s" % (s.callee_short().split("::")[-1], s.fate),
                    "%s fails on a damaged file and the error is %s (%s): the affected files are silently dropped" % (s.callee_short(), s.fate, s.detail), s.event.site())
    else:
        ck.ok(o, "%d site(s)" % len(sites), instances=len(sites))

    rb = w.body("restore::restore")
    o = ck.ob("C10.3b", "restore(): an entry whose restore was reported as an error is not also announced as restored (every error arm skips the callback)")
    errs = [e for e in rb.events if e.bb in rb.live and (e.callee or "").endswith("Monitor::error")]
    added = events_of(lib, rb, "change::EntryChange::added")
    nxt = events_of(lib, rb, "index::stitch::Stitch::next")
    ck.floor("C10.3b.n", "per-entry error reports in restore()", len(errs), 1)
    if added and nxt:
        loop_head = {e.bb for e in nxt}
        bad = []
        for e in errs:
            for a in added:
                if a.bb in rb.reachable(e.bb, removed_nodes=loop_head):
                    bad.append((e, a))
        if bad:
            for e, a in bad:
                ck.fail(o, rb.name, "error arm falls through to the change callback",
                        "after monitor.error at line %s the entry still reaches EntryChange::added (KindMetadata::from panics on Kind::Unknown)" % e.line, e.site())
        else:
            ck.ok(o, "%d error arm(s) skip the callback" % len(errs), instances=len(errs))
    else:
        ck.ok(o, "no change callback in restore()", instances=0)
    o = ck.ob("C10.3k", "restore(): an entry whose decoded kind is Unknown is reported (directly, or as an Err that is then reported), never skipped silently")
    kadt = lib.adts.get("kind::Kind")
    unknown_idx = [i for i, v in enumerate(kadt["variants"]) if v["name"] == "Unknown"][0] if kadt else None
    unk_edges = set()
    for bb_ in sorted(rb.live):
        t_ = rb.blocks[bb_]["term"]
        if t_["tk"] != "switch":
            continue
        dl_ = flow.operand_local(t_["discr"])
        for st_ in reversed(rb.blocks[bb_]["stmts"]):
            if st_["sk"] == "assign" and st_["pl"]["l"] == dl_ and st_["rv"]["rk"] == "discr" and "kind::Kind" in (rb.locals[st_["rv"]["pl"]["l"]] or ""):
                arms_ = {int(a[0]): a[1] for a in t_["arms"]}
                tgt_ = arms_.get(unknown_idx, t_["otherwise"])
                if tgt_ is not None:
                    unk_edges.add((bb_, tgt_))
            break
    if not unk_edges or not nxt:
        ck.fail(o, rb.name, "anchor-missing", "no switch on the entry's Kind (or no Stitch::next loop) in restore()")
    else:
        class _Site:      # an `Err(..)` value built in the arm, looked at like the result of a call
            def __init__(self, bb, st):
                self.bb, self.dest, self.args, self.name, self.callee = bb, st["pl"], [], "Err", None
        problems = []
        err_bbs = {e.bb for e in errs}
        for (u_, v_) in sorted(unk_edges):
            aggs_ = [(bb, st) for bb, j, st in rules.agg_sites(rb, "std::result::Result", "Err")
                     if not st["pl"]["p"] and st["pl"]["l"] != 0 and rb.must_pass_edges({(u_, v_)}, bb)]
            reach = rb.reachable(v_, removed_nodes=err_bbs | {bb for bb, st in aggs_})
            if any(n.bb in reach for n in nxt) or any(r in reach for r in rb.return_blocks()):
                problems.append("a path from the Unknown arm reaches the next entry (or returns) with nothing reported")
            for bb, st in aggs_:
                f_ = err.classify(rb, _Site(bb, st)).fate
                if f_ not in ("reported", "propagated"):
                    problems.append("the Err built for an Unknown entry is %s" % f_)
        if problems:
            for m_ in sorted(set(problems)):
                ck.fail(o, rb.name, m_.split(" (")[0], m_)
        else:
            ck.ok(o, "%d Kind switch(es)" % len(unk_edges), instances=len(unk_edges))
    o = ck.ob("C10.3l", "restore(): no file or symlink entry is skipped silently - from the arm for its kind every path to the next entry (or to "
                        "the return) attempts restore_file / restore_symlink or reports an error (directories: C01.2b/c, unknown kinds: C10.3k)")
    kadt2 = lib.adts.get("kind::Kind")
    vidx_ = {v["name"]: i for i, v in enumerate(kadt2["variants"])} if kadt2 else {}
    arm_edges = {"File": set(), "Symlink": set()}
    for bb_ in sorted(rb.live):
        t_ = rb.blocks[bb_]["term"]
        if t_["tk"] != "switch":
            continue
        dl_ = flow.operand_local(t_["discr"])
        for st_ in reversed(rb.blocks[bb_]["stmts"]):
            if st_["sk"] == "assign" and st_["pl"]["l"] == dl_ and st_["rv"]["rk"] == "discr" and "kind::Kind" in (rb.locals[st_["rv"]["pl"]["l"]] or ""):
                arms_ = {int(a[0]): a[1] for a in t_["arms"]}
                for vn_ in arm_edges:
                    tg_ = arms_.get(vidx_.get(vn_), t_["otherwise"])
                    if tg_ is not None:
                        arm_edges[vn_].add((bb_, tg_))
            break
    if not nxt or not all(arm_edges.values()):
        ck.fail(o, rb.name, "anchor-missing", "no switch on the entry's Kind with File / Symlink arms (or no Stitch::next loop) in restore()")
    else:
        silent = []
        for vn_, fn_ in (("File", "restore::restore_file"), ("Symlink", "restore::restore_symlink")):
            handled = {e.bb for e in errs} | {e.bb for e in events_of(lib, rb, fn_)} | {e.bb for e in rules.creators_of(rb, fn_)}
            for (u_, v_) in sorted(arm_edges[vn_]):
                reach = rb.reachable(v_, removed_nodes=handled)
                if any(n.bb in reach for n in nxt) or any(r in reach for r in rb.return_blocks()):
                    silent.append(vn_)
        if silent:
            for vn_ in sorted(set(silent)):
                ck.fail(o, rb.name, "a %s entry can be skipped without a restore attempt or an error report" % vn_.lower(),
                        "from the Kind::%s arm the next entry is reachable with neither the restore call nor Monitor::error on the way" % vn_)
        else:
            ck.ok(o, instances=2)
    o = ck.ob("C10.3c", "restore(): failures of restore_file / restore_symlink / restore_dir are reported and the loop continues")
    fates = {}
    for fn in ("restore::restore_file", "restore::restore_symlink", "restore::restore_dir"):
        for e in events_of(lib, rb, fn):
            fates[fn] = err.classify(rb, e).fate
    if len(fates) == 3 and all(f in ("reported",) for f in fates.values()):
        ck.ok(o, str(fates), instances=3)
    else:
        ck.fail(o, rb.name, "per-entry failure not reported", "fates: %s" % fates)
    o = ck.ob("C10.3j", "restore(): nothing inside the per-entry loop ends the whole restore with an error, except the caller's own change callback: "
                        "damage that affects one entry is reported for that entry and the loop goes on")
    heads_ = events_of(lib, rb, "index::stitch::Stitch::next")
    some_ts = set()
    for e in heads_:
        for (sb_, tested, arms_, other_) in flow.discriminant_switches(rb, flow.result_carriers(rb, e.dest["l"])):
            if rb.locals[tested].startswith("std::option::Option") and 1 in arms_:
                some_ts.add(arms_[1])
    if not heads_ or not some_ts:
        ck.fail(o, rb.name, "anchor-missing", "no Stitch::next loop found in restore()")
    else:
        region = set()
        for t_ in some_ts:
            region |= rb.reachable(t_, removed_nodes={e.bb for e in heads_})
        aborts = []
        for e in rb.events:
            if e.bb in region and e.bb in rb.live and (e.callee or "").endswith("FromResidual::from_residual") and e.dest and e.dest["l"] == 0:
                src = flow.origins_x(lib, rb, e.args[0], through_calls=[r"Try>?::branch$"])
                calls_ = flow.origin_calls(src)
                if any(re.search(r"Fn(Mut|Once)?(<.*>)?>?::call(_mut|_once)?$", c) for c in calls_):
                    continue
                aborts.append((e, sorted(c.split("::")[-1] for c in calls_)))
        if aborts:
            ck.fail(o, rb.name, "a per-entry failure aborts the restore", "inside the entry loop an error from %s is returned with `?`: every entry after it is "
                    "silently not restored" % aborts[0][1], aborts[0][0].site())
        else:
            ck.ok(o, "region of %d block(s)" % len(region), instances=len(region))
    sn = w.body("index::stitch::Stitch::next")
    o = ck.ob("C10.3d", "Stitch::next: a band that cannot be opened is reported and skipped")
    evs = events_of(lib, sn, "band::Band::open")
    if evs and all(err.classify(sn, e).fate == "reported" for e in evs):
        ck.ok(o)
    else:
        ck.fail(o, sn.name, "Band::open failure not reported", "unopenable band is not reported by the stitcher")
    gb = w.body("blockdir::BlockDir::get_block_content")
    o = ck.ob("C10.3e", "get_block_content returns data only if its hash matches the requested name")
    tests = rules.eq_tests(gb, r"blockhash::BlockHash")
    edges = set()
    for e, pol in tests:
        edges |= rules.bool_switch_edges(gb, e, pol)
    oks = [bb for bb, j, s in rules.agg_sites(gb, "std::result::Result", "Ok") if s["pl"]["l"] == 0]
    cache_hit = [e for e in gb.events if e.bb in gb.live and e.name.endswith("LruCache::<K, V, S>::get")]
    # the cache-hit return is exempt: only verified blocks enter the cache (C03.5)
    late_oks = [bb for bb in oks if not cache_hit or not any(bb in gb.reachable(c.bb) and not any(t[0].bb in gb.reachable(c.bb) and bb in gb.reachable(t[0].bb) for t in tests) for c in cache_hit)]
    verified = [bb for bb in oks if edges and gb.must_pass_edges(edges, bb)]
    if tests and verified:
        ck.ok(o, "%d verified return(s), %d return(s) from the cache" % (len(verified), len(oks) - len(verified)))
    else:
        ck.fail(o, gb.name, "hash not verified on read", "no Ok return behind the hash comparison")
    ra = w.body("blockdir::BlockDir::read_address")
    o = ck.ob("C10.3f", "read_address refuses a range that ends beyond the block (BlockTooShort) before slicing")
    sl = [e for e in ra.events if e.bb in ra.live and e.name == "bytes::Bytes::slice"]
    cmps = [(bb, s) for bb, j, s in ra.all_assigns() if s["rv"]["rk"] == "binop" and s["rv"]["op"] in ("Gt", "Ge", "Lt", "Le")]
    okk = False
    for bb, s in cmps:
        # which edge of the comparison means "the requested end lies within the content": `end > len` false, `end <= len` true,
        # `len >= end` true, `len < end` false ... (sides told apart by provenance: the content's len() against start + len)
        a_, b_ = s["rv"]["ops"]
        def is_len(op_):
            oo_ = flow.origins_x(lib, ra, op_) if op_.get("k") != "const" else set()
            return any(x[0] == "call" and x[1].endswith("::len") for x in oo_) and not any(x[0] == "arith" for x in oo_)
        op_ = s["rv"]["op"]
        if is_len(b_) and not is_len(a_):
            pols = [False] if op_ in ("Gt", "Ge") else [True]
        elif is_len(a_) and not is_len(b_):
            pols = [True] if op_ in ("Gt", "Ge") else [False]
        else:
            pols = [False]
        for pol_ in pols:
            ed = rules.local_bool_edges(ra, {s["pl"]["l"]}, pol_)
            if sl and ed and all(ra.must_pass_edges(ed, e.bb) for e in sl):
                okk = True
    if okk:
        ck.ok(o)
    else:
        ck.fail(o, ra.name, "slice without a bounds comparison", "Bytes::slice is reachable without the end<=len test")

    # ---- 4. healing ----------------------------------------------------------------------------------------
    common.reuse_guarded(ck, w, "C10.4a")
    lb = w.body("blockdir::list_blocks")
    o = ck.ob("C10.4b", "list_blocks: an emptied block file counts as absent (so the next backup stores it again)")
    ins = [e for e in lb.events if e.bb in lb.live and re.search(r"HashSet::<T, S, A>::insert$", e.name)]
    tests = [e for e in lb.events if e.bb in lb.live and re.search(r"Option::<T>::is_none_or$", e.name)]
    if ins:
        rules.guarded_by_bool(ck, o, lb, tests, False, ins, "len.is_none_or(==0)", "blocks.insert")
    else:
        ck.fail(o, lb.name, "no insert", "list_blocks inserts nothing")


def _version_default_is_unsupported(ck, w):
    """band_version_supported: the fallback for an unparseable version must be `false`."""
    from cv import flow as _flow
    b = w.lib.bodies.get("band::band_version_supported")
    o = ck.ob("C10.2b", "band_version_supported: a version that does not parse counts as unsupported (never as supported, never a panic)")
    if b is None:
        ck.fail(o, "band::band_version_supported", "anchor-missing", "not found")
        return
    uo = [e for e in b.events if e.bb in b.live and re.search(r"Result::<T, E>::(unwrap_or|unwrap_or_default|is_ok_and)$", e.name)]
    bad = [e for e in uo if e.name.endswith("unwrap_or") and not (e.args[1].get("k") == "const" and e.args[1].get("int") == "0")]
    if bad:
        ck.fail(o, b.name, "unparseable version treated as supported", "unwrap_or default is not false", bad[0].site())
    else:
        ck.ok(o)


def _read_hunk_returns_decoded(ck, w):
    """C10.3g: read_hunk hands out entries only if they were decoded from the bytes read."""
    lib = w.lib
    rh = w.body("index::IndexRead::read_hunk")
    o = ck.ob("C10.3g", "read_hunk returns Ok(Some(entries)) only with entries decoded (decompress + from_slice) from the hunk file - no shortcut for odd files")
    somes = [(bb, st) for bb, j, st in rules.agg_sites(rh, "std::option::Option", "Some")]
    bad = []
    n = 0
    for bb, st in somes:
        if "IndexEntry" not in rh.locals[st["pl"]["l"]]:
            continue
        n += 1
        orig = flow.origins_x(lib, rh, st["rv"]["ops"][0], through_calls=[r"Try>?::branch$", r"Result::<T, E>::map_err$"])
        if "serde_json::from_slice" not in flow.origin_calls(orig):
            bad.append((bb, st, flow.origin_summary(orig)))
    if n == 0:
        # no explicit `Some(entries)`: the decoded Result is wrapped by a combinator (`.map(Some)`): look at what is returned
        orig = flow.origins_x(lib, rh, 0, through_calls=[r"Try>?::branch$", r"Result::<T, E>::(map_err|map|and_then)$"])
        if "serde_json::from_slice" in flow.origin_calls(orig):
            n = 1
    dec = [e for e in rh.events if e.bb in rh.live and e.name == "serde_json::from_slice"]
    src_ok = False
    for e in dec:
        so = flow.origins_x(lib, rh, e.args[0], through_calls=[r"Try>?::branch$", r"Deref>::deref$"], through_all=[r"Decompressor::decompress$"])
        if any(c.endswith("Transport::read") for c in flow.origin_calls(so)) or any(x[0] == "via" and "decompress" in x[1] for x in so):
            src_ok = True
    if n == 0:
        ck.fail(o, rh.name, "read_hunk never returns entries", "no Ok(Some(entries))")
    elif bad:
        for bb, st, why in bad:
            ck.fail(o, rh.name, "entries returned that were not decoded from the file",
                    "Ok(Some(..)) built from %s: a damaged (e.g. emptied) hunk is then reported as a healthy empty one" % why, "%s:%d" % (rh.file, st["line"]))
    elif not src_ok:
        ck.fail(o, rh.name, "decoded bytes are not the decompressed file", "from_slice input provenance changed")
    else:
        ck.ok(o, "%d return site(s)" % n, instances=n)
