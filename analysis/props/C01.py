"""C01 - Backup then restore reproduces the source tree exactly."""
import re

from cv import err, flow, rules
from cv.rules import events_of

TITLE = "Backup then restore reproduces the source tree exactly"
TECHNIQUE = 'static analysis: MIR dominance (chown before chmod, metadata on every success exit), provenance slices (captured fields), signed-nanos taint, constant evaluation'
EXPLANATION = (
    "Round-trip equality over all trees and options is not decidable statically. Decided are structural necessary "
    "conditions: (1) wherever ownership and mode are both applied to a restored path, ownership comes first (chown "
    "clears setuid/setgid); (2) directory metadata is applied after everything was created (nothing is created "
    "after apply_deferrals); (3) every success path of restore_file / restore_symlink / each deferral applies "
    "mtime, mode and owner taken from the entry's own accessors, and metadata_from captures every field from the "
    "same-named accessor of the source entry; (4) the sub-second part of a timestamp, which is negative before the "
    "epoch, never reaches an unsigned conversion without a sign test; (5) the stored mode mask is 0o7777 on both "
    "conversions and both time components are used; every Ok path of copy_dir/copy_symlink/copy_file records an entry."
    " Added in later rounds: the entry recorded for a directory, symlink or file is metadata_from(source_entry) with only addresses taken from the basis (C01.3e); the sign handling of unix_seconds_and_nanos is checked path-sensitively, including the borrow (C01.4/4b); restore_file writes every address in order (C01.7), store_file_content records every non-empty buffer (C01.8), the walk never follows links (C01.9)."
)
UNDECIDED = ["byte equality of content", "block splitting arithmetic", "completeness of the source walk for all trees", "all option combinations"]
ASSUMPTIONS = ["chown(2) clears setuid/setgid bits (kernel semantics)"]

CHOWN = {"CHOWN_NOFOLLOW", "CHOWN_FOLLOW"}
UTIME = {"UTIME_NOFOLLOW", "UTIME_FOLLOW", "UTIME_HANDLE"}


def fx_events(w, body, effs):
    g = w.graph
    out = []
    for e in body.events:
        if e.bb in body.live and e.callee != rules.POLL and (g.event_effects(w.lib, e) & effs):
            out.append(e)
    return out


def work_body(w, fn, effs):
    """The body of `fn` in which the effect happens: the function's own body, or - when its loop was written with an
    iterator adapter - the closure of that function that does the work."""
    main = w.body(fn)
    if fx_events(w, main, effs):
        return main
    for b in sorted(w.lib.family(fn), key=lambda x: x.name):
        if b is not main and fx_events(w, b, effs):
            return b
    return main


def run(ck, w):
    lib = w.lib
    g = w.graph

    # ---- 1. chown before chmod ------------------------------------------------------------------
    n_inst = 0
    for fn in ("restore::restore_file", "restore::apply_deferrals"):
        b = work_body(w, fn, CHOWN)
        chown = fx_events(w, b, CHOWN)
        chmod = fx_events(w, b, {"CHMOD"})
        o = ck.ob("C01.1." + fn.split("::")[-1], "%s: ownership is applied before the mode (chown clears setuid/setgid)" % fn)
        if not chown or not chmod:
            ck.fail(o, fn, "owner or mode step missing", "chown events=%d chmod events=%d" % (len(chown), len(chmod)))
            continue
        n_inst += 1
        cb = {e.bb for e in chown}
        bad = [e for e in chmod if not b.must_pass_nodes(cb, e.bb)]
        if bad:
            ck.fail(o, fn, "mode applied before ownership",
                    "set_permissions at line %s is not preceded by set_owner (line %s): a setuid/setgid bit is cleared by the later chown" % (
                        bad[0].line, chown[0].line), bad[0].site())
        else:
            ck.ok(o, sites=[e.site() for e in chown + chmod], instances=len(chmod))
    ck.floor("C01.1.n", "bodies applying both owner and mode", n_inst, 2)
    o = ck.ob("C01.1.set_owner", "owner::unix::set_owner applies whatever part of the owner resolved: every Ok return follows the lchown call "
                                  "(a user without a group name, or the reverse, is still applied)")
    so_b = lib.bodies.get("owner::unix::set_owner")
    if so_b is None:
        ck.fail(o, "owner::unix::set_owner", "anchor-missing", "set_owner not found")
    else:
        lch = [e for e in so_b.events if e.bb in so_b.live and re.search(r"::l?chown$|fchownat$", e.name)]
        oks_ = [bb for bb, j, s_ in rules.agg_sites(so_b, "std::result::Result", "Ok") if s_["pl"]["l"] == 0]
        if not lch:
            # the call may sit in a private helper / method of a private type that was not dissolved (closure, trait impl)
            for fb_ in lib.family("owner::unix::set_owner"):
                lch += [e for e in fb_.events if e.bb in fb_.live and re.search(r"::l?chown$|fchownat$", e.name) and fb_ is so_b]
        if lch and not oks_:
            # no explicit `Ok(..)`: the result of a combinator chain is returned. Then every return that is not an
            # explicit failure must follow the lchown call
            errs_ = {bb for bb, j, s_ in rules.agg_sites(so_b, "std::result::Result", "Err") if s_["pl"]["l"] == 0}
            errs_ |= {e.bb for e in so_b.events if e.bb in so_b.live and e.name.endswith("::from_residual") and e.dest and e.dest["l"] == 0}
            reach_ = so_b.reachable(0, removed_nodes={e.bb for e in lch} | errs_)
            early = [bb for bb in so_b.return_blocks() if bb in reach_]
            if early:
                ck.fail(o, so_b.name, "Ok returned without calling lchown", "set_owner can return without applying the ids it resolved: %s" %
                        rules.witness(so_b, early[0], removed_nodes={e.bb for e in lch} | errs_), "%s:bb%d" % (so_b.file, early[0]))
            else:
                ck.ok(o, "every non-failure return follows lchown", sites=[lch[0].site()])
        elif not lch or not oks_:
            ck.fail(o, so_b.name, "anchor-missing", "lchown events=%d Ok returns=%d" % (len(lch), len(oks_)))
        else:
            early = [bb for bb in oks_ if not so_b.must_pass_nodes({e.bb for e in lch}, bb)]
            if early:
                ck.fail(o, so_b.name, "Ok returned without calling lchown", "set_owner can return Ok without applying the ids it resolved: %s" %
                        rules.witness(so_b, early[0], removed_nodes={e.bb for e in lch}), "%s:bb%d" % (so_b.file, early[0]))
            else:
                ck.ok(o, sites=[lch[0].site()])
    # any other body doing both?
    o = ck.ob("C01.1.others", "no other body applies both ownership and mode")
    both = []
    for b in rules.user_bodies(lib):
        if b.root in ("restore::restore_file", "restore::apply_deferrals") or b.file.startswith("src/test_fixtures"):
            continue
        if b.kind in ("closure", "coroutine"):
            pass
        if fx_events(w, b, CHOWN) and fx_events(w, b, {"CHMOD"}) and b.root not in ("restore::restore",):
            both.append(b.root)
    if both:
        ck.fail(o, ",".join(sorted(set(both))), "unchecked owner+mode site", "bodies %s apply both" % sorted(set(both)))
    else:
        ck.ok(o)

    # ---- 2. directory metadata last ---------------------------------------------------------------
    rb = w.body("restore::restore")
    o = ck.ob("C01.2a", "restore(): nothing is created or restored after apply_deferrals")
    ad = events_of(lib, rb, "restore::apply_deferrals")
    if not ad:
        ck.fail(o, rb.name, "apply_deferrals not called", "directory metadata is never applied")
    else:
        rules.none_after(ck, o, rb, ad, lambda e: bool(g.event_effects(lib, e) & {"FS_CREATE"}), "creation")
    o = ck.ob("C01.2b", "restore(): every directory entry that was created is queued for deferred metadata")
    pushes = [e for e in rb.events if e.bb in rb.live and e.name.endswith("Vec::<T, A>::push") and "DirDeferral" in rb.locals[e.args[0]["pl"]["l"]]]
    rd = events_of(lib, rb, "restore::restore_dir")
    if not pushes or not rd:
        ck.fail(o, rb.name, "no deferral push", "Dir entries are not queued")
    else:
        # the deferral fields come from the entry's accessors
        ok_f = True
        for bb, j, s in rules.agg_sites(rb, "restore::DirDeferral"):
            for f, acc in (("unix_mode", "unix_mode"), ("mtime", "mtime"), ("owner", "owner")):
                orig = flow.origins_x(lib, rb, rules.field_operand(s, f))
                if not any(c.endswith("EntryTrait>::" + acc) for c in flow.origin_calls(orig)):
                    ok_f = False
                    ck.fail(o, rb.name, "DirDeferral.%s not from entry.%s()" % (f, acc), "derives from %s" % flow.origin_summary(orig))
        # after a successful restore_dir the push is unavoidable before the next entry
        # (a path that never takes a failure edge of a test on restore_dir's result - `if let Err`, `?`,
        # `!is_ok()` - cannot get to the next entry, or to the change callback, without the push)
        edges, _, _ = rules.success_edges_union(rb, rd)
        fails = rules.failure_edges_union(rb, rd)
        nxt = events_of(lib, rb, "index::stitch::Stitch::next")
        pb = {e.bb for e in pushes}
        unavoidable = True
        for e in rd:
            if e.target is None:
                continue
            reach = rb.reachable(e.target, removed_nodes=pb, removed_edges=fails)
            if any(n.bb in reach for n in nxt) or any(a.bb in reach for a in ad):
                unavoidable = False
        if ok_f and unavoidable:
            ck.ok(o, sites=[e.site() for e in pushes])
        elif ok_f:
            ck.fail(o, rb.name, "created directory may skip its deferral", "a path from ok(restore_dir) reaches the next entry without pushing a DirDeferral")

    o = ck.ob("C01.2c", "restore(): the deferral is queued for EVERY directory entry, the tree's top directory included (its mtime, mode and owner "
                        "are part of the tree)")
    root_tests = []
    for e, pol in rules.eq_tests(rb, r"apath::Apath$"):
        if any(c.endswith("Apath::root") for c in flow.origin_calls(flow.origins_x(lib, rb, e.args[0]) | flow.origins_x(lib, rb, e.args[1]))):
            root_tests.append((e, pol))
    if not pushes:
        ck.fail(o, rb.name, "no deferral push", "Dir entries are not queued")
    else:
        cond = []
        for e, pol in root_tests:
            for val in (True, False):
                ed = rules.bool_switch_edges(rb, e, val)
                if ed and all(rb.must_pass_edges(ed, p_.bb) for p_ in pushes):
                    cond.append(e)
        if cond:
            ck.fail(o, rb.name, "deferral depends on the entry not being the root", "the DirDeferral push lies behind a comparison with Apath::root(): "
                    "the top directory's metadata is never restored", cond[0].site())
        else:
            ck.ok(o, "%d comparison(s) with the root, none guarding the push" % len(root_tests), instances=len(pushes))

    # ---- 3. metadata applied on every success path -----------------------------------------------------------
    rf = w.body("restore::restore_file")
    o = ck.ob("C01.3a", "restore_file: every Ok return has applied mtime, mode and owner from the entry")
    oks = [bb for bb, j, s in rules.agg_sites(rf, "std::result::Result", "Ok") if s["pl"]["l"] == 0]
    steps = {"mtime": fx_events(w, rf, UTIME), "mode": fx_events(w, rf, {"CHMOD"}), "owner": fx_events(w, rf, CHOWN)}
    good = bool(oks)
    for k, evs in steps.items():
        if not evs:
            good = False
            ck.fail(o, rf.name, "%s step missing" % k, "restore_file no longer applies the %s" % k)
            continue
        nodes = {e.bb for e in evs}
        for bb in oks:
            if not rf.must_pass_nodes(nodes, bb):
                good = False
                ck.fail(o, rf.name, "%s skipped on a success path" % k, "Ok reachable without the %s step: %s" % (k, rules.witness(rf, bb, removed_nodes=nodes)))
    acc = {"mtime": r"EntryTrait>::mtime$", "mode": r"EntryTrait>::unix_mode$", "owner": r"EntryTrait>::owner$"}
    argi = {"mtime": (1, 2), "mode": (0,), "owner": (0,)}
    for k, evs in steps.items():
        for e in evs:
            found = False
            for i in argi[k]:
                if i < len(e.args):
                    orig = flow.origins_x(lib, rf, e.args[i], through_calls=[r"ToFileTime>::to_file_time$"])
                    if any(re.search(acc[k], c) for c in flow.origin_calls(orig)):
                        found = True
            if not found:
                good = False
                ck.fail(o, rf.name, "%s value not from the entry" % k, "%s argument does not derive from entry.%s()" % (e.name, k), e.site())
    if good:
        ck.ok(o, instances=3)
    rs = w.raw("restore::restore_symlink")
    o = ck.ob("C01.3b", "restore_symlink: every Ok return has created the link to entry.symlink_target() and applied owner and mtime without following it")
    oks = [bb for bb, j, s in rules.agg_sites(rs, "std::result::Result", "Ok") if s["pl"]["l"] == 0]
    sy = [e for e in rs.events if e.bb in rs.live and e.name == "std::os::unix::fs::symlink"]
    st = {"symlink": sy, "owner": fx_events(w, rs, {"CHOWN_NOFOLLOW"}), "mtime": fx_events(w, rs, {"UTIME_NOFOLLOW"})}
    good = bool(oks)
    for k, evs in st.items():
        if not evs:
            good = False
            ck.fail(o, rs.name, "%s step missing" % k, "restore_symlink no longer performs %s" % k)
            continue
        nodes = {e.bb for e in evs}
        if not all(rs.must_pass_nodes(nodes, bb) for bb in oks):
            good = False
            ck.fail(o, rs.name, "%s skipped on a success path" % k, "Ok reachable without %s" % k)
    if sy:
        orig = flow.origins_x(lib, rs, sy[0].args[0])
        if not any(c.endswith("EntryTrait>::symlink_target") for c in flow.origin_calls(orig)):
            good = False
            ck.fail(o, rs.name, "link target not from the entry", "target derives from %s" % flow.origin_summary(orig))
    if good:
        ck.ok(o, instances=3)
    ad_b = work_body(w, "restore::apply_deferrals", CHOWN)
    o = ck.ob("C01.3c", "apply_deferrals: every deferral gets owner, mode and mtime")
    nx = [e for e in ad_b.events if e.bb in ad_b.live and e.name.endswith("Iterator>::next")]
    st = [fx_events(w, ad_b, CHOWN), fx_events(w, ad_b, {"CHMOD"}), fx_events(w, ad_b, UTIME)]
    if all(st) and not nx and ad_b.kind == "closure":
        # the per-deferral work is a closure handed to an iterator adapter: every call of it performs all three steps
        adapters = [e for fb in lib.family("restore::apply_deferrals") for e in fb.events
                    if e.bb in fb.live and re.search(r"Iterator>?::(for_each|try_for_each|map|fold)$", e.name)]
        skipping = [e for fb in lib.family("restore::apply_deferrals") for e in fb.events
                    if e.bb in fb.live and re.search(r"Iterator>?::(filter|skip|take|step_by|filter_map|take_while|skip_while|rev)$", e.name)]
        miss = [k for k, evs in zip(("owner", "mode", "mtime"), st)
                if any(r in ad_b.reachable(0, removed_nodes={e.bb for e in evs}) for r in ad_b.return_blocks())]
        if adapters and not skipping and not miss:
            ck.ok(o, "per-deferral closure performs all three steps", instances=3)
        else:
            ck.fail(o, ad_b.name, "a deferral can skip a metadata step", "closure form: steps that can be bypassed %s, narrowing adapters %d" % (miss, len(skipping)))
    elif not nx or not all(st):
        ck.fail(o, ad_b.name, "deferral step missing", "owner/mode/mtime events: %s" % [len(x) for x in st])
    else:
        some_t = None
        for (sb, tested, arms, other) in flow.discriminant_switches(ad_b, flow.result_carriers(ad_b, nx[0].dest["l"])):
            some_t = arms.get(1)
        good = some_t is not None
        if good:
            for evs in st:
                nodes = {e.bb for e in evs}
                reach = ad_b.reachable(some_t, removed_nodes=nodes)
                if nx[0].bb in reach:
                    good = False
        if good:
            ck.ok(o, instances=3)
        else:
            ck.fail(o, ad_b.name, "a deferral can skip a metadata step", "the loop can reach the next deferral without applying owner, mode and mtime")

    mf = w.raw("index::entry::IndexEntry::metadata_from")
    o = ck.ob("C01.3d", "metadata_from captures apath, kind, target, mtime, nanos, mode and owner from the same-named accessors; addrs empty")
    aggs = rules.agg_sites(mf, "index::entry::IndexEntry")
    want = {"apath": r"EntryTrait>::apath$", "kind": r"EntryTrait>::kind$", "target": r"EntryTrait>::symlink_target$",
            "mtime": r"EntryTrait>::mtime$", "mtime_nanos": r"EntryTrait>::mtime$", "unix_mode": r"EntryTrait>::unix_mode$",
            "owner": r"EntryTrait>::owner$"}
    if len(aggs) != 1:
        ck.fail(o, mf.name, "no unique IndexEntry construction", "found %d" % len(aggs))
    else:
        s = aggs[0][2]
        good = True
        for f, rx in want.items():
            orig = flow.origins_x(lib, mf, rules.field_operand(s, f), through_calls=[
                r"^jiff::Timestamp::(as_second|subsec_nanosecond)$", r"Option::<T>::map$", r"unix_seconds_and_nanos", r"rem_euclid|div_euclid|unsigned_abs|cast_unsigned"],
                through_all=[r"unix_seconds_and_nanos"])
            calls = flow.origin_calls(orig)
            if not any(re.search(rx, c) for c in calls):
                good = False
                ck.fail(o, mf.name, "field %s not captured from source.%s" % (f, rx.split("::")[-1].rstrip("$")), "derives from %s" % flow.origin_summary(orig))
        ao = flow.origins_x(lib, mf, rules.field_operand(s, "addrs"))
        if flow.origin_calls(ao) != {"std::vec::Vec::<T>::new"}:
            good = False
            ck.fail(o, mf.name, "addrs not empty", "addrs derives from %s" % flow.origin_summary(ao))
        # seconds and nanos come from the respective components
        so = [e for e in mf.events if e.bb in mf.live and e.name in ("jiff::Timestamp::as_second", "jiff::Timestamp::subsec_nanosecond")]
        whole = any(e.name in ("jiff::Timestamp::as_nanosecond", "jiff::Timestamp::as_microsecond") for e in mf.events if e.bb in mf.live)
        helper = [e for e in mf.events if e.bb in mf.live and "unix_seconds_and_nanos" in e.name]
        if len({e.name for e in so}) < 2 and not helper and not whole:
            good = False
            ck.fail(o, mf.name, "time component dropped", "metadata_from does not read both seconds and sub-second nanos")
        if good:
            ck.ok(o, instances=len(want) + 1)

    # ---- 4. signed nanos ------------------------------------------------------------------------------------
    o = ck.ob("C01.4", "the (possibly negative) sub-second part of a Timestamp never reaches an unsigned conversion without a sign test")
    n_src = 0
    bad = []
    borrow_bad = []
    for b in rules.user_bodies(lib):
        if b.file.startswith("src/test_fixtures") or rules.is_derive_body(b):
            continue
        srcs = [e for e in b.events if e.bb in b.live and e.name == "jiff::Timestamp::subsec_nanosecond"]
        for src in srcs:
            n_src += 1
            tracked = {src.dest["l"]}
            coarse = False          # sanitised by a method whose result is non-negative / checked
            sinks = []              # (what, line, bb)
            tests = []              # (bool local, polarity on which the value is known non-negative)
            fixes = set()           # blocks that add 1_000_000_000 to the value
            changed = True
            while changed:
                changed = False
                for bb, j, s in b.all_assigns():
                    rv = s["rv"]
                    ops = rv.get("ops", [])
                    for k, op in enumerate(ops):
                        if flow.operand_local(op) in tracked:
                            if rv["rk"] == "binop" and rv["op"] in ("Lt", "Le", "Gt", "Ge") and len(ops) == 2:
                                other = ops[1 - k]
                                if other.get("k") == "const" and other.get("int") in ("0", "1", "-1"):
                                    opn = rv["op"] if k == 0 else {"Lt": "Gt", "Gt": "Lt", "Le": "Ge", "Ge": "Le"}[rv["op"]]
                                    # value OP 0: non-negative is established on ...
                                    nonneg_on = {"Lt": False, "Le": False, "Ge": True, "Gt": True}[opn]
                                    if (s["pl"]["l"], nonneg_on) not in tests:
                                        tests.append((s["pl"]["l"], nonneg_on))
                                continue    # the comparison result is a bool, not the value
                            if rv["rk"] == "binop" and rv["op"].startswith("Add") and len(ops) == 2:
                                other = ops[1 - k]
                                if other.get("k") == "const" and other.get("int") == "1000000000":
                                    fixes.add(bb)
                            if rv["rk"] == "cast" and re.match(r"u(8|16|32|64|128|size)$", rv["to"]):
                                if ("as %s" % rv["to"], s["line"], bb) not in sinks:
                                    sinks.append(("as %s" % rv["to"], s["line"], bb))
                            if s["pl"]["l"] not in tracked:
                                tracked.add(s["pl"]["l"])
                                changed = True
                for e in b.events:
                    if e.bb not in b.live:
                        continue
                    if any(flow.operand_local(a) in tracked for a in e.args):
                        nm = e.name
                        if re.search(r"rem_euclid|checked_|is_negative|is_positive|signum", nm) or re.search(r"PartialOrd", e.callee or ""):
                            coarse = True
                        if re.search(r"cast_unsigned$|::unsigned_abs$|::abs$|::wrapping_abs$", nm):
                            if (nm.split("::")[-1], e.line, e.bb) not in sinks:
                                sinks.append((nm.split("::")[-1], e.line, e.bb))
                        if re.search(r"try_into$|try_from$", nm):
                            site = err.classify(b, e)
                            if site.fate == "panicked" and ("try_into().%s()" % site.detail, e.line, e.bb) not in sinks:
                                sinks.append(("try_into().%s()" % site.detail, e.line, e.bb))
                        if e.dest and not e.dest["p"] and e.dest["l"] not in tracked and re.search(r"try_into$|try_from$|clone|Into", nm):
                            tracked.add(e.dest["l"])
                            changed = True
            if not sinks or coarse:
                continue
            # path-sensitive: every conversion is reached only with the value known non-negative
            # (the non-negative edge of a sign test) or after the +1_000_000_000 correction
            nonneg_edges = set()
            for (bl, pol) in tests:
                nonneg_edges |= rules.local_bool_edges(b, {bl}, pol)
            unsafe = [x for x in sinks if x[2] in b.reachable(src.bb, removed_edges=nonneg_edges, removed_nodes=fixes)]
            if unsafe:
                bad.append((b, src, unsafe))
            # the correction borrows from the seconds: every path on which the fraction was negative
            # (and 1e9 was added) also subtracts one from the whole seconds
            secs = set()
            for e in b.events:
                if e.bb in b.live and e.name == "jiff::Timestamp::as_second" and e.dest and not e.dest["p"]:
                    secs.add(e.dest["l"])
            if fixes and secs:
                ch = True
                while ch:
                    ch = False
                    for bb, j, st in b.all_assigns():
                        if st["pl"]["l"] in secs or st["pl"]["p"]:
                            continue
                        if any(flow.operand_local(op) in secs and not op["pl"]["p"] for op in st["rv"].get("ops", []) if op.get("k") in ("copy", "move")):
                            if st["rv"]["rk"] in ("use", "binop", "cast") or (st["rv"]["rk"] == "agg" and False):
                                secs.add(st["pl"]["l"])
                                ch = True
                        elif any(flow.operand_local(op) in secs and op["pl"]["p"] and op["pl"]["p"][0].startswith("f:0") for op in st["rv"].get("ops", []) if op.get("k") in ("copy", "move")):
                            secs.add(st["pl"]["l"])
                            ch = True
                subs = set()
                for bb, j, st in b.all_assigns():
                    rv = st["rv"]
                    if rv["rk"] == "binop" and rv["op"].startswith("Sub") and len(rv["ops"]) == 2:
                        if flow.operand_local(rv["ops"][0]) in secs and rv["ops"][1].get("int") == "1":
                            subs.add(bb)
                    if rv["rk"] == "binop" and rv["op"].startswith("Add") and len(rv["ops"]) == 2:
                        if flow.operand_local(rv["ops"][0]) in secs and rv["ops"][1].get("int") == "-1":
                            subs.add(bb)
                for f in fixes:
                    for r in b.return_blocks():
                        # a path through the fix that never decrements the seconds
                        if r in b.reachable(f, removed_nodes=subs) and f in b.reachable(src.bb, removed_nodes=subs):
                            borrow_bad.append((b, f))
    n_total = sum(1 for b in rules.user_bodies(lib) for e in b.events if e.bb in b.live and e.name in (
        "jiff::Timestamp::as_nanosecond", "jiff::Timestamp::as_microsecond") and not b.file.startswith("src/test_fixtures"))
    ck.floor("C01.4.n", "reads of Timestamp::subsec_nanosecond (or of the whole time as one signed number)", n_src + n_total, 1)
    if bad:
        for b, src, sinks in bad:
            ck.fail(o, b.root, "signed nanos reach %s" % sinks[0][0],
                    "subsec_nanosecond() is negative for times before the epoch; it flows into %s with no sign test" % ", ".join(x[0] for x in sinks),
                    "%s:%s" % (b.file, sinks[0][1]))
    else:
        ck.ok(o, "%d source(s), all sign-tested or never converted to unsigned" % n_src, instances=n_src)
    o = ck.ob("C01.4b", "where a negative fraction is corrected by +1_000_000_000 the whole seconds are decremented on the same path")
    if borrow_bad:
        for b, f in borrow_bad[:1]:
            ck.fail(o, b.root, "fraction corrected without borrowing a second", "a path adds 1e9 to the fraction without subtracting 1 from the seconds", "%s:bb%d" % (b.file, f))
    else:
        ck.ok(o)

    # ---- 5. mode bits / time components ------------------------------------------------------------------------
    o = ck.ob("C01.5a", "UnixMode keeps permission, setuid, setgid and sticky bits: MODE_BITS == 0o7777 on both conversions")
    mb = lib.const_value("unix_mode::MODE_BITS")
    good = mb == 0o7777
    if not good:
        ck.fail(o, "unix_mode::MODE_BITS", "mode mask is not 0o7777", "MODE_BITS = %s" % (oct(mb) if isinstance(mb, int) else mb))
    for fn in ("<unix_mode::UnixMode as std::convert::From<u32>>::from", "<unix_mode::UnixMode as std::convert::From<std::fs::Permissions>>::from"):
        b = lib.bodies.get(fn)
        if b is None:
            good = False
            ck.fail(o, fn, "anchor-missing", "conversion not found")
            continue
        masked = False
        for bb, j, s in b.all_assigns():
            rv = s["rv"]
            if rv["rk"] == "binop" and rv["op"] == "BitAnd":
                for op in rv["ops"]:
                    if op.get("k") == "const" and (op.get("uneval") == "unix_mode::MODE_BITS" or op.get("int") == str(0o7777)):
                        masked = True
        if not masked:
            good = False
            ck.fail(o, fn, "conversion does not mask with MODE_BITS", "%s does not apply `& MODE_BITS`" % fn)
    if good:
        ck.ok(o, "MODE_BITS=0o7777", instances=3)
    o = ck.ob("C01.5b", "to_file_time uses both the seconds and the sub-second part; IndexEntry::mtime uses both mtime and mtime_nanos")
    tf = lib.bodies.get("<jiff::Timestamp as unix_time::ToFileTime>::to_file_time")
    im = lib.bodies.get("<index::entry::IndexEntry as entry::EntryTrait>::mtime")
    good = True
    if tf is None or im is None:
        good = False
        ck.fail(o, "unix_time::ToFileTime", "anchor-missing", "conversion functions not found")
    else:
        fam = [tf] + [lib.bodies[n] for n in g.reachable_from([tf.name]) if n in lib.bodies and lib.bodies[n].file == tf.file]
        names = set()
        for b in fam:
            names |= {e.name for e in b.events if e.bb in b.live}
        if not ({"jiff::Timestamp::as_second", "jiff::Timestamp::subsec_nanosecond"} <= names) and \
                not ({"jiff::Timestamp::as_nanosecond", "jiff::Timestamp::as_microsecond"} & names):
            good = False
            ck.fail(o, tf.name, "time component dropped", "to_file_time reads %s" % sorted(n for n in names if "Timestamp" in n))
        fields = set()
        for bb, j, s in im.all_assigns():
            for op in s["rv"].get("ops", []):
                if op.get("k") in ("copy", "move"):
                    for p in op["pl"]["p"]:
                        if p.startswith("f:"):
                            fields.add(p.split(":", 2)[2])
        if not {"mtime", "mtime_nanos"} <= fields:
            good = False
            ck.fail(o, im.name, "time component dropped", "IndexEntry::mtime reads %s" % sorted(fields))
    if good:
        ck.ok(o)

    _recorded_from_source(ck, w)
    _append_only(ck, w)
    _content_path(ck, w)
    _walk_does_not_follow(ck, w)

    # ---- 6. every Ok path records an entry ------------------------------------------------------------------------
    merged = [fn for fn in ("backup::BackupWriter::copy_dir", "backup::BackupWriter::copy_symlink") if fn not in lib.bodies]
    for fn in ("backup::BackupWriter::copy_dir", "backup::BackupWriter::copy_symlink", "backup::BackupWriter::copy_file"):
        if fn in merged:
            continue
        b = w.body(fn)
        o = ck.ob("C01.6." + fn.split("::")[-1], "%s: every Ok return has recorded the entry (push_entry or push_file)" % fn.split("::")[-1])
        oks = [bb for bb, j, s in rules.agg_sites(b, "std::result::Result", "Ok") if s["pl"]["l"] == 0]
        rec = events_of(lib, b, "index::write::IndexWriter::push_entry") + events_of(lib, b, "backup::FileCombiner::push_file")
        edges = set()
        for e in rec:
            ed, _ = flow.success_edges(b, e, "ok" if "push_file" in e.name else "done")
            edges |= ed
        if not oks or not rec:
            ck.fail(o, fn, "no record / no Ok", "oks=%d records=%d" % (len(oks), len(rec)))
        elif all(b.must_pass_edges(edges, bb) for bb in oks):
            ck.ok(o, "%d Ok return(s), %d recording event(s)" % (len(oks), len(rec)), instances=len(oks))
        else:
            bad_bb = [bb for bb in oks if not b.must_pass_edges(edges, bb)][0]
            ck.fail(o, fn, "Ok without recording the entry", "path: %s" % rules.witness(b, bad_bb, removed_edges=edges))
    if merged:
        # copy_dir / copy_symlink were folded into copy_entry: there, every Ok return has recorded the entry, gone through copy_file,
        # or belongs to the arm for entries of unknown kind (which are not stored)
        b = w.body("backup::BackupWriter::copy_entry")
        o = ck.ob("C01.6.copy_entry", "copy_entry (directories and symlinks handled in place): every Ok return has recorded the entry, delegated to "
                                      "copy_file, or concerns an entry of unknown kind")
        oks = [bb for bb, j, s in rules.agg_sites(b, "std::result::Result", "Ok") if s["pl"]["l"] == 0]
        rec = events_of(lib, b, "index::write::IndexWriter::push_entry") + events_of(lib, b, "backup::BackupWriter::copy_file")
        nodes = {e.bb for e in rec}
        kadt = lib.adts.get("kind::Kind")
        unknown_idx = [i for i, v in enumerate(kadt["variants"]) if v["name"] == "Unknown"][0] if kadt else None
        unk_edges = set()
        for bb_ in sorted(b.live):
            t_ = b.blocks[bb_]["term"]
            if t_["tk"] != "switch":
                continue
            dl_ = flow.operand_local(t_["discr"])
            for st_ in reversed(b.blocks[bb_]["stmts"]):
                if st_["sk"] == "assign" and st_["pl"]["l"] == dl_ and st_["rv"]["rk"] == "discr" and "kind::Kind" in (b.locals[st_["rv"]["pl"]["l"]] or ""):
                    arms_ = {int(a[0]): a[1] for a in t_["arms"]}
                    unk_edges.add((bb_, arms_.get(unknown_idx, t_["otherwise"])))
                break
        bad_ = [bb for bb in oks if bb in b.reachable(0, removed_nodes=nodes, removed_edges=unk_edges)]
        if not oks or not rec:
            ck.fail(o, b.name, "no record / no Ok", "oks=%d records=%d" % (len(oks), len(rec)))
        elif bad_:
            ck.fail(o, b.name, "Ok without recording the entry", "path: %s" % rules.witness(b, bad_[0], removed_nodes=nodes, removed_edges=unk_edges))
        else:
            ck.ok(o, "%d Ok return(s)" % len(oks), instances=len(oks))


def _recorded_from_source(ck, w):
    """C01.3e: what is recorded for an entry is the CURRENT source metadata: every entry handed to the index writer
    (or the combiner) by copy_dir / copy_symlink / copy_file was built by IndexEntry::metadata_from(source_entry);
    from the basis entry only the block addresses may be taken."""
    lib = w.lib
    o = ck.ob("C01.3e", "copy_dir / copy_symlink / copy_file record IndexEntry::metadata_from(source_entry); only addresses come from the basis entry")
    n = 0
    problems = []
    fns_ = [fn for fn in ("backup::BackupWriter::copy_dir", "backup::BackupWriter::copy_symlink", "backup::BackupWriter::copy_file") if fn in lib.bodies]
    if len(fns_) < 3:
        fns_.append("backup::BackupWriter::copy_entry")      # directories / symlinks recorded in copy_entry itself
    for fn in fns_:
        b = w.body(fn)
        recs = rules.creators_of(b, "index::write::IndexWriter::push_entry") + rules.creators_of(b, "backup::FileCombiner::push_file")
        for e in recs:
            # push_entry(self, entry) / push_file(self, source_entry, index_entry, from_file, monitor)
            n += 1
            if not e.name.endswith("push_entry"):
                # the combiner builds the entry itself: it must be given the source entry
                psrc = flow.origins_x(lib, b, e.args[1]) if len(e.args) > 1 else set()
                if not any(x[0] in ("param", "upvar") and x[1] == "source_entry" for x in psrc):
                    problems.append((fn, "push_file is not given the source entry", e))
                continue
            arg = e.args[1]
            src = flow.origins_x(lib, b, arg)
            calls = flow.origin_calls(src)
            if "index::entry::IndexEntry::metadata_from" not in calls:
                problems.append((fn, "an entry is recorded that was not built by metadata_from(source_entry)", e))
                continue
            basis = [x for x in src if x[0] in ("param", "upvar") and x[1] == "basis_entry" and "addrs" not in x[2]]
            if basis:
                problems.append((fn, "a recorded entry takes more than the addresses from the basis entry", e))
        for mf in rules.creators_of(b, "index::entry::IndexEntry::metadata_from"):
            msrc = flow.origins_x(lib, b, mf.args[0])
            if not any(x[0] in ("param", "upvar") and x[1] == "source_entry" for x in msrc):
                problems.append((fn, "metadata_from is not given the source entry", mf))
    pf = w.body("backup::FileCombiner::push_file")
    mfs = rules.creators_of(pf, "index::entry::IndexEntry::metadata_from")
    if not mfs or not all(any(x[0] in ("param", "upvar") and x[1] == "entry" for x in flow.origins_x(lib, pf, m.args[0])) for m in mfs):
        problems.append(("backup::FileCombiner::push_file", "push_file does not build its entry with metadata_from(entry)", (mfs or [None])[0]))
    ck.floor("C01.3e.n", "entries recorded by copy_dir / copy_symlink / copy_file", n, 4 if len(fns_) == 3 and "backup::BackupWriter::copy_entry" not in fns_ else 3)
    if problems:
        seen = set()
        for fn, m, e in problems:
            if (fn, m) in seen:
                continue
            seen.add((fn, m))
            ck.fail(o, fn, m, m, e.site() if e is not None else None)
    else:
        ck.ok(o, "%d recording site(s)" % n, instances=n)


def _append_only(ck, w):
    """Entries accepted by the writer are never dropped: the queues between copy_entry and the
    hunk file are append-only until they are handed on."""
    lib = w.lib
    o = ck.ob("C01.6b", "FileCombiner.finished and IndexWriter.entries are only appended to (push/extend/append) until they are drained / written")
    bad = []
    n = 0
    for b in rules.user_bodies(lib):
        if rules.is_derive_body(b):
            continue
        st = b.self_ty or ""
        for field, owner, ok_reset in (("finished", "backup::FileCombiner", {"backup::FileCombiner::drain", "backup::BackupWriter::flush_group"}),
                                       ("entries", "index::write::IndexWriter", {"index::write::IndexWriter::finish_hunk"})):
            if owner not in st:
                continue
            for bb, j, s_ in b.all_assigns():
                p = s_["pl"]["p"]
                if p and p[-1].startswith("f:") and p[-1].split(":", 2)[2] == field:
                    n += 1
                    bad.append((b, "whole-field assignment to %s.%s" % (owner.split("::")[-1], field), "%s:%d" % (b.file, s_["line"])))
            for e in b.events:
                if e.bb not in b.live or not e.args:
                    continue
                if not re.search(r"Vec::<T, A>::(clear|truncate|pop|remove|swap_remove|drain|retain|dedup\w*|split_off)$|^std::mem::(take|replace|swap)$", e.name):
                    continue
                for x in flow.origins_x(lib, b, e.args[0]):
                    path = x[2] if x[0] in ("param", "upvar") else ()
                    if path and path[-1] == field and str(x[1]).startswith("self"):
                        n += 1
                        if b.root not in ok_reset:
                            bad.append((b, "%s on %s.%s" % (e.name.split("::")[-1], owner.split("::")[-1], field), e.site()))
    if bad:
        for b, m, site in bad:
            ck.fail(o, b.root, m, "%s: entries already accepted for this hunk would be lost" % m, site)
    else:
        ck.ok(o, "%d reset site(s), all in drain / finish_hunk" % n, instances=n)


NARROWING = re.compile(r"Iterator::(rev|skip|take|step_by|filter|take_while|skip_while|find|nth|last|peekable|chain|zip|dedup)$|<impl \[T\]>::(first|last|split_at|split_first|split_last|get)$|Vec::<T, A>::(truncate|pop|remove|swap_remove|drain|retain|dedup\w*)$")


def _content_path(ck, w):
    """C01.7/8: the content of a file is written block by block in address order, and stored block by block in read order."""
    lib = w.lib
    rf = w.body("restore::restore_file")
    o = ck.ob("C01.7", "restore_file writes, for each address of the entry in order, exactly the bytes read for that address, then flushes")
    problems = []
    nxt = [e for e in rf.events if e.bb in rf.live and e.name.endswith("Iterator>::next") and "Iter<" in e.name]
    ra = rules.creators_of(rf, "blockdir::BlockDir::read_address")
    wa = [e for e in rf.events if e.bb in rf.live and e.name.endswith("Write::write_all")]
    fl = [e for e in rf.events if e.bb in rf.live and e.name.endswith("Write>::flush")]
    narrowing = [e for e in rf.events if e.bb in rf.live and NARROWING.search(e.name)]
    if narrowing:
        problems.append("the address list is narrowed or reordered by %s" % narrowing[0].name.split("::")[-1])
    if len(ra) != 1 or len(wa) != 1:
        problems.append("expected one read_address and one write_all per address (found %d / %d)" % (len(ra), len(wa)))
    else:
        it_src = flow.origins_x(lib, rf, ra[0].args[1], through_calls=[r"Iterator>::next$", r"IntoIterator>?::into_iter$"])
        if not any(x[0] in ("param", "upvar") and x[2] and x[2][-1] == "addrs" for x in it_src):
            problems.append("read_address is not given the entry's addresses in order: %s" % flow.origin_summary(it_src))
        wsrc = flow.origins_x(lib, rf, wa[0].args[1], through_calls=[r"Try>?::branch$", r"Result::<T, E>::map_err$"])
        if "blockdir::BlockDir::read_address" not in flow.origin_calls(wsrc):
            problems.append("write_all does not write the bytes read for the address: %s" % flow.origin_summary(wsrc))
        wdst = flow.origins_x(lib, rf, wa[0].args[0], through_calls=[r"Try>?::branch$", r"Result::<T, E>::map_err$"])
        if not any(c.endswith("File::create") for c in flow.origin_calls(wdst)):
            problems.append("write_all does not write to the created file")
        # the write follows the read in the same iteration: read dominates write
        polls = flow.await_poll(rf, ra[0])
        if not polls or not rf.must_pass_nodes({polls[0].bb}, wa[0].bb):
            problems.append("a write happens without a preceding read of that address")
        # every loop iteration that read successfully writes before moving on
        ok_e, _, _ = rules.success_edges_union(rf, polls)
        if nxt and ok_e:
            for (u, v) in ok_e:
                if nxt[0].bb in rf.reachable(v, removed_nodes={wa[0].bb}):
                    problems.append("an address can be skipped after it was read")
    oks = [bb for bb, j, s_ in rules.agg_sites(rf, "std::result::Result", "Ok") if s_["pl"]["l"] == 0]
    if not fl or not all(rf.must_pass_nodes({e.bb for e in fl}, bb) for bb in oks):
        problems.append("Ok is returned without flushing the file")
    if problems:
        for m in sorted(set(problems)):
            ck.fail(o, rf.name, m, m)
    else:
        ck.ok(o, instances=3)
    sf = w.body("backup::store_file_content")
    o = ck.ob("C01.8", "store_file_content records one address for every non-empty buffer it read, in read order, and returns them all")
    problems = []
    push = [e for e in sf.events if e.bb in sf.live and e.name.endswith("Vec::<T, A>::push")]
    rd = [e for e in sf.events if e.bb in sf.live and e.name == "io::read_with_retries"]
    emp = [e for e in sf.events if e.bb in sf.live and e.name == "bytes::BytesMut::is_empty"]
    narrowing = [e for e in sf.events if e.bb in sf.live and NARROWING.search(e.name)]
    if narrowing:
        problems.append("the address list is narrowed or reordered by %s" % narrowing[0].name.split("::")[-1])
    if len(push) != 1 or not rd or not emp:
        problems.append("loop shape changed (push=%d read=%d is_empty=%d)" % (len(push), len(rd), len(emp)))
    else:
        # `loop { read; if empty break; store; push }` or the primed `read; while !empty { store; push; read }`
        ne = set()
        for e_ in emp:
            ne |= rules.bool_switch_edges(sf, e_, False)
        rdb = {e_.bb for e_ in rd}
        for (u, v) in ne:
            if rdb & sf.reachable(v, removed_nodes={push[0].bb}):
                # may legitimately leave through an error return, but must not read again without pushing
                problems.append("a non-empty buffer can be skipped without recording its address")
        arg = flow.origins_x(lib, sf, push[0].args[1])
        if not any(x[0] == "agg" and str(x[1]).endswith("Address") for x in arg) and "blockdir::BlockDir::store_or_deduplicate" not in flow.origin_calls(arg):
            problems.append("pushed value is not the Address of the stored buffer")
        oks = [(bb, s_) for bb, j, s_ in rules.agg_sites(sf, "std::result::Result", "Ok") if s_["pl"]["l"] == 0]
        for bb, s_ in oks:
            ro = flow.origins_x(lib, sf, s_["rv"]["ops"][0])
            po = flow.origins_x(lib, sf, push[0].args[0])
            if not ({x for x in ro if x[0] == "call"} & {x for x in po if x[0] == "call"}):
                problems.append("the returned vector is not the one the addresses were pushed to")
        for r_ in rd:
            mb = flow.origins_x(lib, sf, r_.args[0])
            if not any(x[0] in ("param", "upvar") and x[1] == "max_block_size" for x in mb):
                problems.append("blocks are not read in max_block_size units")
        # the emptiness test is on the buffer that was read
        for e_ in emp:
            eo = flow.origin_calls(flow.origins_x(lib, sf, e_.args[0], through_calls=[r"Try>?::branch$", r"Result::<T, E>::map_err$"]))
            if "io::read_with_retries" not in eo:
                problems.append("the end-of-file test is not on the buffer that was read")
    if problems:
        for m in sorted(set(problems)):
            ck.fail(o, sf.name, m, m)
    else:
        ck.ok(o, instances=3)


FOLLOWING_STAT = re.compile(r"^std::path::Path::(is_dir|is_file|exists|try_exists|metadata|canonicalize|is_symlink)$|^std::fs::(metadata|canonicalize|exists)$"
                            r"|^std::path::PathBuf::(is_dir|is_file|exists)$|^tokio::fs::(metadata|canonicalize|try_exists)$")


def _walk_does_not_follow(ck, w):
    """C01.9: the source walk classifies what it finds without following symlinks."""
    lib = w.lib
    o = ck.ob("C01.9", "the source walk stats entries without following symlinks (DirEntry::file_type / DirEntry::metadata / symlink_metadata only)")
    n = 0
    bad = []
    nofollow = re.compile(r"^std::fs::DirEntry::(file_type|metadata)$|^std::fs::symlink_metadata$")
    for b in rules.user_bodies(lib):
        if b.file != "src/source.rs" and not b.file.startswith("src/source/"):
            continue
        for e in b.events:
            if e.bb not in b.live:
                continue
            if nofollow.search(e.name):
                n += 1
            if FOLLOWING_STAT.search(e.name) and e.name != "std::path::Path::is_symlink":
                bad.append((b, e))
    ck.floor("C01.9.n", "no-follow stat calls in the source walk", n, 3)
    if bad:
        for b, e in bad:
            ck.fail(o, b.root, "%s follows symlinks" % e.name.split("::")[-1],
                    "%s resolves symlinks: a link to a directory is then walked (or classified) as the directory it points to" % e.name, e.site())
    else:
        ck.ok(o, "%d no-follow stat call(s), no following one" % n, instances=n)
    # directories to descend into are chosen from the no-follow file type
    vd = w.raw("source::Iter::visit_next_directory")
    o = ck.ob("C01.9b", "a child is queued for descent only if its no-follow file type is a directory")
    # the per-child work may sit in a closure of the function (`.filter_map(|de| ..)`): take the body that holds the test
    for fb_ in lib.family("source::Iter::visit_next_directory"):
        if any(e.bb in fb_.live and e.name == "std::fs::FileType::is_dir" for e in fb_.events):
            vd = fb_
            break
    pushes = [e for e in vd.events if e.bb in vd.live and e.name.endswith("Vec::<T, A>::push")]
    sub = []
    for e in pushes:
        l = flow.operand_local(e.args[0])
        named = False
        for (bb, idx, kind, payload) in vd.defs.get(l, []):
            if kind == "assign" and payload["rv"]["rk"] == "ref" and vd.local_names.get(payload["rv"]["pl"]["l"]) == "subdir_apaths":
                named = True
        if not named and "Vec<apath::Apath>" in (vd.locals[l] or "") and \
                any(x[0] in ("upvar", "param") and (x[1] == "subdir_apaths" or "subdir_apaths" in x[2]) for x in flow.origins_x(lib, vd, e.args[0])):
            named = True
        if named:
            sub.append(e)
    isd = [e for e in vd.events if e.bb in vd.live and e.name == "std::fs::FileType::is_dir"]
    good = bool(sub) and bool(isd)
    if good:
        ed = set()
        for e in isd:
            src = flow.origins(vd, e.args[0])
            if any(x[0] == "call" and x[1] == "std::fs::DirEntry::file_type" for x in src):
                ed |= rules.bool_switch_edges(vd, e, True)
        if not ed or not all(vd.must_pass_edges(ed, e.bb) for e in sub):
            good = False
    if good:
        ck.ok(o)
    else:
        ck.fail(o, vd.name, "descent not decided by the no-follow file type", "subdir_apaths.push is not behind DirEntry::file_type().is_dir()")
