"""C17 - The archive is a pure function of the source and the operation history."""
import re

from cv import flow, rules, taint
from cv.rules import events_of
from props import common

TITLE = "The archive is a pure function of the source and the operation history"
TECHNIQUE = 'static analysis: taint from clock/random/environment to written bytes and names, frozen table of reviewed unordered iterations, no archive write reachable from a spawned task'
EXPLANATION = (
    "Decided: (1) value nondeterminism (clock, random numbers, environment, process ids) is tracked with the "
    "summary-based taint analysis from its sources to every Transport::write / create_dir call: the only fields of a "
    "written document that may depend on it are Head.start_time and Tail.end_time, and no path or block/hunk content "
    "may; (2) order nondeterminism: every unordered iteration (HashMap/HashSet iteration, JoinSet completion order, "
    "read_dir order) in the bodies reachable from backup, delete and archive creation is one of a frozen list of "
    "reviewed instances whose consumer is order-insensitive (set membership, deletion order) or which is sorted "
    "before use (source walk, see C11.2); (3) no archive write is issued from a spawned task on those paths, so "
    "writes happen in program order."
    " Added in later rounds: no branch on the write paths tests a clock/random/environment-derived value (C17.1c, with stored time stamps read back treated as data); an unordered collection is consumed whole (C17.2c); the place where the source tree lives on this host is a second taint source that reaches nothing written (C17.1d, with a positive control at SourceTree::open_file)."
)
UNDECIDED = ["bit-identity of the compressor output across runs (snap is deterministic; trusted)", "platform differences", "comparison of two real replays"]
ASSUMPTIONS = ["snap and serde_json are deterministic functions of their input"]

VALUE_SOURCES = re.compile(r"^jiff::(Timestamp|Zoned)::now$|^std::time::(SystemTime|Instant)::now$|^rand::|^std::env::|^std::process::id$"
                           r"|^whoami::|^tempfile::|^std::thread::current$|^jiff::tz::TimeZone::system$")
UNORDERED = re.compile(r"^std::collections::(HashMap|HashSet)::<.*>::(iter|iter_mut|into_iter|keys|values|values_mut|into_keys|into_values|drain|difference|symmetric_difference|intersection|union|retain|extract_if)$"
                       r"|std::collections::(hash_map|hash_set)::.*IntoIterator>::into_iter$|<std::collections::Hash(Map|Set)<.*> as std::iter::IntoIterator>::into_iter$"
                       r"|<&'a std::collections::Hash(Map|Set)<.*> as std::iter::IntoIterator>::into_iter$"
                       r"|^tokio::task::JoinSet::<T>::(join_next|join_all|try_join_next)|^std::fs::read_dir$|^tokio::fs::read_dir$|^tokio::fs::ReadDir::next_entry")
HOST_SOURCES = re.compile(r"^source::SourceTree::path$|^std::env::(current_dir|home_dir|temp_dir|current_exe)$|canonicalize$"
                          r"|^(std|tokio)::fs::DirEntry::path$")
ALLOWED_TIME_FIELDS = {("band::Head", "start_time"), ("band::Tail", "end_time")}

# (function, callee) -> why the order cannot reach written bytes
UNORDERED_ALLOWED = {
    ("blockdir::list_blocks", "tokio::task::JoinSet::<T>::join_next"): "results are inserted into a HashSet (membership only)",
    ("archive::Archive::delete_bands", "std::collections::HashSet::<T, S, A>::iter"): "copies the present set into another HashSet",
    ("archive::Archive::delete_bands", "std::collections::HashSet::<T, S, A>::difference"): "order of block deletions only; the resulting archive is the same set of files",
    ("source::Iter::visit_next_directory", "std::fs::read_dir"): "children and subdirectories are sorted before they are queued (C11.2b)",
    ("archive::Archive::unreferenced_blocks", "std::collections::HashSet::<T, S, A>::iter"): "read-only report",
}
ENTRIES = ["backup::backup", "archive::Archive::delete_bands", "archive::Archive::create", "blockdir::BlockDir::create"]
SKIP_FILES = re.compile(r"^src/(transport/|monitor|termui|test_fixtures|mount)")


def _value_reaches_archive(lib, T, allowed_fields):
    """Where does a value the solved taint `T` marks reach the archive: a path or the content given to
    Transport::write / create_dir, a field of a serialised document, an index entry or a block address."""
    n_sites = 0
    problems = []
    for b in rules.user_bodies(lib):
        if SKIP_FILES.search(b.file) or rules.is_derive_body(b):
            continue
        is_cl = b.kind in ("closure", "coroutine")
        for e in b.events:
            if e.bb not in b.live or e.callee == rules.POLL:
                continue
            nm = e.name
            if nm in ("transport::Transport::write", "transport::Transport::create_dir", "transport::Transport::chdir"):
                n_sites += 1
                for i, a in enumerate(e.args[1:3], start=1):
                    V, D = T._read(b, a, is_cl)
                    if taint.SRC in V:
                        problems.append((b, e, "argument %d of %s depends on WHAT" % (i, nm.split("::")[-1])))
            if nm == "jsonio::write_json":
                n_sites += 1
                V, D = T._read(b, e.args[1], is_cl)
                if taint.SRC in V:
                    problems.append((b, e, "the file name given to write_json depends on WHAT"))
    # documents: every construction of a serialised document type
    docs = {"band::Head", "band::Tail", "archive::ArchiveHeader"}
    n_docs = 0
    for b in rules.user_bodies(lib):
        if rules.is_derive_body(b) or SKIP_FILES.search(b.file):
            continue
        is_cl = b.kind in ("closure", "coroutine")
        for adt in docs:
            for bb, j, s in rules.agg_sites(b, adt):
                n_docs += 1
                for f, op in zip(s["rv"]["fields"], s["rv"]["ops"]):
                    V, D = T._read(b, op, is_cl)
                    if taint.SRC in V and (adt, f) not in allowed_fields:
                        problems.append((b, None, "%s.%s depends on WHAT" % (adt, f)))
        for bb, j, s in rules.agg_sites(b, "index::entry::IndexEntry") + rules.agg_sites(b, "blockdir::Address"):
            for f, op in zip(s["rv"]["fields"], s["rv"]["ops"]):
                V, D = T._read(b, op, is_cl)
                if taint.SRC in V:
                    problems.append((b, None, "index entry field %s depends on WHAT" % f))
    bad_heap = [h for h in T.heap if h[0] in ("index::entry::IndexEntry", "blockdir::Address", "archive::ArchiveHeader") or
                (h[0] in ("band::Head", "band::Tail") and h not in allowed_fields)]
    for h in bad_heap:
        problems.append((None, None, "%s.%s is assigned WHAT" % h))
    return problems, n_sites, n_docs


def _location_control(lib, TH):
    """Positive control for C17.1d: the path SourceTree::open_file opens is seen to depend on the root path."""
    for fb in lib.family("source::SourceTree::open_file"):
        for e in fb.events:
            if e.bb in fb.live and e.name in ("std::fs::File::open", "std::fs::OpenOptions::open") and e.args:
                V, D = TH._read(fb, e.args[-1], fb.kind in ("closure", "coroutine"))
                if taint.SRC in V:
                    return True
    return False


def run(ck, w):
    lib = w.lib
    g = w.graph

    # ---- 1. value nondeterminism -> written bytes -------------------------------------------------------
    # results of std::time / std::env calls stay tainted here (Instant::elapsed, duration_since, ...)
    io_clean = re.compile(taint.IO_CALLS.pattern.replace(r"|^std::env::|^std::time::", ""))
    T = taint.Taint(w, set(), decoded_enums=set(), source_calls=VALUE_SOURCES, bounded_sanitize=False, io_calls=io_clean,
                    # constructors of throw-away archives for tests: where the archive lives is not part of it
                    skip_bodies=re.compile(r"^transport::Transport::temp$|^transport::local::Protocol::temp$|^test_fixtures::"),
                    no_prop=re.compile(r"^tracing|monitor::Monitor::(count|error|start_task)|Task::(set_name|increment|set_total)$"))
    iters = T.solve()
    ck.stats["nondet_taint"] = {"iterations": iters, "heap_fields_tainted": sorted("%s.%s" % x for x in T.heap)}
    o = ck.ob("C17.1a", "no path or content given to Transport::write / create_dir depends on the clock, randomness or the environment, "
                        "except Head.start_time and Tail.end_time")
    problems, n_sites, n_docs = _value_reaches_archive(lib, T, ALLOWED_TIME_FIELDS)
    problems = [(b_, e_, m_.replace("WHAT", "a nondeterministic value")) for b_, e_, m_ in problems]
    ck.floor("C17.1a.n", "archive write / mkdir call sites and document constructions checked", n_sites + n_docs, 10)
    time_ok = ALLOWED_TIME_FIELDS <= T.heap
    if problems:
        for b, e, m in problems:
            ck.fail(o, b.root if b else "archive document", m, m, e.site() if e else None)
    else:
        ck.ok(o, "%d write sites, %d document constructions; time-stamped fields seen: %s" % (n_sites, n_docs, sorted(T.heap & ALLOWED_TIME_FIELDS)), instances=n_sites + n_docs)
    o = ck.ob("C17.1b", "positive control: the taint analysis does see the clock reaching Head.start_time and Tail.end_time")
    if time_ok:
        ck.ok(o)
    else:
        ck.fail(o, "cv.taint", "control-failed", "the documented time stamps are not found tainted (analysis lost the flow): %s" % sorted(T.heap))

    # ---- 1d. where the source lives on this host ---------------------------------------------------------------
    o = ck.ob("C17.1d", "where the source tree lives on this host (SourceTree's root path, the current directory, canonicalised or "
                        "directory-entry absolute paths) reaches no written name, document field, index entry or block address: two "
                        "copies of one tree give the same archive")
    host_io = re.compile(taint.IO_CALLS.pattern.replace(r"|^std::env::", ""))
    TH = taint.Taint(w, set(), decoded_enums=set(), source_calls=HOST_SOURCES, bounded_sanitize=False, io_calls=host_io,
                     skip_bodies=re.compile(r"^transport::Transport::temp$|^transport::local::Protocol::temp$|^test_fixtures::"),
                     no_prop=re.compile(r"^tracing|monitor::Monitor::(count|error|start_task)|Task::(set_name|increment|set_total)$"))
    TH.heap.add(("source::SourceTree", "path"))
    TH.solve()
    hp, hs, hd = _value_reaches_archive(lib, TH, set())
    roots_ = [e for b_ in rules.user_bodies(lib) for e in b_.events if e.bb in b_.live and HOST_SOURCES.search(e.name)]
    st_ = lib.adts.get("source::SourceTree")
    if st_ is None or not any(f_["name"] == "path" for v_ in st_["variants"] for f_ in v_["fields"]):
        ck.fail(o, "source::SourceTree", "anchor-missing", "SourceTree.path not found: the root of the source tree is held elsewhere")
    elif not _location_control(lib, TH):
        ck.fail(o, "cv.taint", "control-failed", "the analysis does not see the root path reach File::open in SourceTree::open_file (flow lost)")
    elif hp:
        for b_, e_, m_ in hp:
            m_ = m_.replace("WHAT", "the location of the source tree")
            ck.fail(o, b_.root if b_ else "archive document", m_, m_, e_.site() if e_ else None)
    else:
        ck.ok(o, "%d write sites, %d document constructions; %d direct reader(s) of the location" % (hs, hd, len(roots_)), instances=hs + hd)

    # ---- 1c. control dependence ---------------------------------------------------------------------------
    o = ck.ob("C17.1c", "no branch on the write paths tests a value derived from the clock, randomness or the environment "
                        "(what is written, and when it is flushed, is decided by the data alone)")
    scope0 = g.reachable_from(ENTRIES)
    # a time stamp READ BACK from a stored head or tail is data of the archive, not the clock: a second
    # solve in which reading those two fields is clean (writing them is still recorded)
    T1 = T
    T = taint.Taint(w, set(), decoded_enums=set(), source_calls=VALUE_SOURCES, bounded_sanitize=False, io_calls=io_clean,
                    skip_bodies=re.compile(r"^transport::Transport::temp$|^transport::local::Protocol::temp$|^test_fixtures::"),
                    heap_read_ignore=ALLOWED_TIME_FIELDS | {("band::Band", "head")},
                    no_prop=re.compile(r"^tracing|monitor::Monitor::(count|error|start_task)|Task::(set_name|increment|set_total)$"))
    T.solve()
    n_sw = 0
    bad_sw = []
    for n in sorted(scope0):
        b = lib.bodies.get(n)
        if b is None or not b.file.startswith("src/") or SKIP_FILES.search(b.file) or rules.is_derive_body(b):
            continue
        is_cl = b.kind in ("closure", "coroutine")
        for i in sorted(b.live):
            t = b.blocks[i]["term"]
            if t["tk"] != "switch":
                continue
            n_sw += 1
            V, D = T._read(b, t["discr"], is_cl)
            if taint.SRC in V:
                bad_sw.append((b, i, t))
    ck.floor("C17.1c.n", "branches examined on the write paths", n_sw, 200)
    if bad_sw:
        for b, i, t in bad_sw:
            line = None
            for s in reversed(b.blocks[i]["stmts"]):
                line = s.get("line") or line
            ck.fail(o, b.root, "branch on a nondeterministic value",
                    "a branch in %s depends on the clock / randomness / environment (bb%d)" % (b.name, i), "%s:bb%d" % (b.file, i))
    else:
        ck.ok(o, "%d branches" % n_sw, instances=n_sw)

    T = T1
    # ---- 2. order nondeterminism ---------------------------------------------------------------------------
    o = ck.ob("C17.2", "every unordered iteration on the write paths is a reviewed, order-insensitive instance")
    scope = g.reachable_from(ENTRIES)
    found = {}
    for n in sorted(scope):
        b = lib.bodies.get(n)
        if b is None or not b.file.startswith("src/") or SKIP_FILES.search(b.file) or rules.is_derive_body(b):
            continue
        for e in b.events:
            if e.bb in b.live and e.callee != rules.POLL and UNORDERED.search(e.name):
                found.setdefault((b.root, e.name), []).append(e)
    ck.floor("C17.2.n", "unordered iterations found on the write paths", len(found), 3)
    unknown = [k for k in found if k not in UNORDERED_ALLOWED]
    if unknown:
        for k in unknown:
            ck.fail(o, k[0], "unreviewed unordered iteration %s" % k[1].split("::")[-1],
                    "%s iterates in unspecified order on a path that writes the archive" % k[1], found[k][0].site())
    else:
        ck.ok(o, "%d instance(s): %s" % (len(found), sorted("%s/%s" % (a.split("::")[-1], b.split("::")[-1]) for a, b in found)), instances=len(found))
    o = ck.ob("C17.2c", "an unordered collection on the write paths is consumed as a whole: nothing takes a prefix, a slice or a single element of it "
                        "(which elements that would be depends on the hash seed)")
    bad_narrow = []
    n_cons = 0
    for (root, callee), evs in found.items():
        for e in evs:
            if not re.search(r"::(difference|symmetric_difference|intersection|union|iter|into_iter|keys|values|drain)$", e.name):
                continue
            n_cons += 1
            for x in common.narrowing_uses(lib, e.body, e):
                bad_narrow.append((e.body, x, e))
    if bad_narrow:
        b_, x, e = bad_narrow[0]
        ck.fail(o, b_.root, "part of an unordered collection is selected", "%s is applied to the result of %s: which elements are kept depends on the hash order" % (
            x.name.split("::")[-1], e.name.split("::")[-1]), x.site())
    else:
        ck.ok(o, "%d unordered collection(s) checked" % n_cons, instances=n_cons)
    lb = w.body("blockdir::list_blocks")
    o = ck.ob("C17.2b", "list_blocks: completion order of the listing tasks only feeds a HashSet")
    ins = [e for e in lb.events if e.bb in lb.live and e.name.endswith("HashSet::<T, S, A>::insert")]
    ret = flow.origins_x(lib, lb, 0)
    if ins and "std::collections::HashSet::<T>::new" in flow.origin_calls(flow.origins_x(lib, lb, ins[0].args[0])):
        ck.ok(o)
    else:
        ck.fail(o, lb.name, "listing results no longer collected into a set", "list_blocks result is order-sensitive")

    # ---- 3. no spawned writers ----------------------------------------------------------------------------------
    o = ck.ob("C17.3", "no archive write, mkdir or removal is issued from a spawned task on the backup / delete paths")
    spawn = re.compile(r"^tokio::spawn$|^tokio::task::spawn$|^tokio::task::JoinSet::<T>::spawn|^tokio::task::spawn_blocking$|^std::thread::spawn$|^tokio::task::spawn::spawn$|^tokio::task::spawn_local$")
    n_sp = 0
    bad = []
    for n in sorted(scope):
        b = lib.bodies.get(n)
        if b is None or not b.file.startswith("src/") or SKIP_FILES.search(b.file):
            continue
        for e in b.events:
            if e.bb in b.live and spawn.search(e.name):
                n_sp += 1
                for a in e.args:
                    for oo in flow.origins(b, a):
                        if oo[0] == "agg" and oo[1] in lib.bodies:
                            eff = g.effects.get(oo[1], set())
                            if eff & {"T_WRITE", "T_MKDIR"} or (eff & {"T_REMOVE"} and b.root != "<gc_lock::GarbageCollectionLock as std::ops::Drop>::drop"):
                                bad.append((b, e, oo[1], eff & {"T_WRITE", "T_MKDIR", "T_REMOVE"}))
    ck.floor("C17.3.n", "spawn sites on the write paths (list_blocks, lock Drop)", n_sp, 1)
    if bad:
        for b, e, cl, eff in bad:
            ck.fail(o, b.root, "spawned task can %s" % "/".join(sorted(eff)), "%s spawns %s which can %s" % (b.root, cl, sorted(eff)), e.site())
    else:
        ck.ok(o, "%d spawn site(s)" % n_sp, instances=n_sp)
