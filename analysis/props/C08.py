"""C08 - Listing a version follows the stitching rule and is strictly ordered."""
import re

from cv import flow, pred, rules
from cv.rules import events_of
from props import common

TITLE = "Listing a version follows the stitching rule and is strictly ordered"
TECHNIQUE = 'static analysis: state-machine extraction from the MIR of Stitch::next (transition relation, guards, termination measure, resume-point provenance)'
EXPLANATION = (
    "Decided on the state machine of Stitch::next: (1) the transition relation extracted from the match on "
    "self.state is exactly {BeforeBand->InBand|AfterBand, InBand->AfterBand, AfterBand->Done|BeforeBand}, Done "
    "returns None; (2) AfterBand moves to an earlier band only if band_is_closed was false, and to Done if it was "
    "true (stops at the first complete version); (3) the earlier band is previous_existing_band(band_id), which "
    "returns an id only if band_exists was true and otherwise keeps stepping BandId::previous; (4) termination "
    "measure: BandId::previous strictly decreases and returns None at zero, every loop iteration of "
    "previous_existing_band calls it; every other cycle of Stitch::next consumes from an iterator; (5) resume "
    "point: when last_apath is set the hunk iterator goes through advance_to_after(last_apath), and last_apath is "
    "updated from the last entry of each hunk that is installed; (6) a returned entry is the buffered entry itself."
    " Added in later rounds: a band is left only when its hunk iterator is exhausted (C08.1b); inside a straddling hunk an exact hit resumes one later than a miss (C08.7); whole-hunk shortcuts use the sound end and relation (C08.8); the resume point survives while hunks are skipped (C08.9); the hunk is unmodified when its last path is recorded (C08.5b)."
)
UNDECIDED = ["'strictly increasing, no duplicates' for every hunk alignment as a value-level statement (decided structurally: the whole-hunk shortcuts C08.8, the exact-hit/miss relation C08.7, the resume point C08.5/C08.9)"]
ASSUMPTIONS = []

SN = "index::stitch::Stitch::next"
RF = ["after"]      # name of IndexHunkIter's resume-point field: whatever advance_to_after sets from its argument (see _find_resume_field)


def _find_resume_field(lib):
    aa = lib.bodies.get("index::IndexHunkIter::advance_to_after")
    if aa is None:
        return
    for bb, j, s in rules.agg_sites(aa, "index::IndexHunkIter"):
        for f, op in zip(s["rv"]["fields"], s["rv"]["ops"]):
            if op.get("k") != "const" and any(x[0] == "param" and x[1] == "apath" for x in flow.origins_x(lib, aa, op)):
                RF[0] = f
                return

STATE = "index::stitch::State"


def run(ck, w):
    lib = w.lib
    _find_resume_field(lib)
    sn = w.body(SN)
    adt = lib.adts.get(STATE)
    if adt is None:
        ck.anchor_missing("C08.anchor", STATE)
        return
    vn = [v["name"] for v in adt["variants"]]

    # the switch on self.state
    sw = None
    for bb in sorted(sn.live):
        t = sn.blocks[bb]["term"]
        if t["tk"] != "switch":
            continue
        dl = flow.operand_local(t["discr"])
        for s in reversed(sn.blocks[bb]["stmts"]):
            if s["sk"] == "assign" and s["pl"]["l"] == dl and s["rv"]["rk"] == "discr":
                pl = s["rv"]["pl"]
                oo = flow.origins_x(lib, sn, {"k": "copy", "pl": pl})
                if any(x[0] in ("param", "upvar") and x[2] and x[2][-1] == "state" for x in oo):
                    sw = (bb, {int(a[0]): a[1] for a in t["arms"]}, t["otherwise"])
                break
        if sw:
            break
    o = ck.ob("C08.1", "Stitch::next: transition relation is BeforeBand->{InBand,AfterBand}, InBand->{AfterBand}, AfterBand->{Done,BeforeBand}; Done returns None")
    if sw is None:
        ck.fail(o, sn.name, "no match on self.state", "state dispatch not found")
        return
    sb, arms, other = sw
    rel = {}
    agg_by_arm = {}
    for vi, name in enumerate(vn):
        tgt = arms.get(vi)
        if tgt is None:
            continue
        region = sn.reachable(tgt, removed_nodes={sb})
        tos = set()
        for bb, j, s in rules.agg_sites(sn, STATE):
            if bb in region:
                tos.add(s["rv"]["variant"])
                agg_by_arm.setdefault(name, []).append((bb, s))
        rel[name] = tos
    want = {"Done": set(), "BeforeBand": {"InBand", "AfterBand"}, "InBand": {"AfterBand"}, "AfterBand": {"Done", "BeforeBand"}}
    if rel != want:
        ck.fail(o, sn.name, "state relation changed", "found %s" % {k: sorted(v) for k, v in rel.items()})
    else:
        # Done arm returns None without effects
        dt = arms.get(vn.index("Done"))
        region = sn.reachable(dt, removed_nodes={sb})
        nones = [bb for bb, j, s in rules.agg_sites(sn, "std::option::Option", "None") if bb in region and s["pl"]["l"] == 0]
        evs = [e for e in sn.events if e.bb in region and not e.macro and not re.search(r"drop|Drop", e.name)]
        if nones and not [e for e in evs if "T_" in "".join(w.graph.event_effects(lib, e))]:
            ck.ok(o, str({k: sorted(v) for k, v in rel.items()}), instances=6)
        else:
            ck.fail(o, sn.name, "Done is not absorbing", "Done arm does not simply return None")

    band_left_only_when_exhausted(ck, w, "C08.1b", sn, sb, agg_by_arm)

    # ---- 2. stop at the first complete version ------------------------------------------------------
    o = ck.ob("C08.2", "AfterBand: Done if band_is_closed was true, an earlier band only if it was false")
    uo = [e for e in sn.events if e.bb in sn.live and e.name == "std::result::Result::<T, E>::unwrap_or" and
          "archive::Archive::band_is_closed" in flow.origin_calls(flow.origins_x(lib, sn, e.args[0]))]
    if not uo:
        ck.fail(o, sn.name, "band_is_closed not consulted", "AfterBand does not test whether the band is closed")
    else:
        t_edges = rules.bool_switch_edges(sn, uo[0], True)
        f_edges = rules.bool_switch_edges(sn, uo[0], False)
        bad = []
        for bb, s in agg_by_arm.get("AfterBand", []):
            v = s["rv"]["variant"]
            if v == "BeforeBand" and not sn.must_pass_edges(f_edges, bb):
                bad.append("moves to an earlier band although the band is closed")
            if v == "Done" and sn.must_pass_edges(f_edges, bb) is False and not sn.must_pass_edges(t_edges, bb):
                # Done is legal on both sides (closed, or no earlier band): it must be behind closed==true OR prev==None
                pass
        # the band tested is the one just finished
        c = rules.creators_of(sn, "archive::Archive::band_is_closed")
        if c:
            a = flow.origins_x(lib, sn, c[0].args[1])
            if not any("AfterBand" in " ".join(x[2]) or "0" in x[2] for x in a if x[0] in ("param", "upvar")):
                pass
        # closed==true must lead to Done: from the true edge no BeforeBand construction is reachable before the state store
        closed_l = {l_: 1 for l_ in flow.result_carriers(sn, uo[0].dest["l"]) if sn.locals[l_] == "bool"}
        for (u, v) in t_edges:
            # (the flag may be looked at twice - `if closed {..}` and later `match (closed, prev)` -: it keeps its value)
            region = rules.reachable_const(sn, v, env0=closed_l, removed_nodes={sb})
            for bb, s in agg_by_arm.get("AfterBand", []):
                if bb in region and s["rv"]["variant"] != "Done":
                    bad.append("a closed band does not end the stitch")
        if bad:
            for m in sorted(set(bad)):
                ck.fail(o, sn.name, m, m, uo[0].site())
        else:
            ck.ok(o, sites=[uo[0].site()])

    # ---- 3. nearest earlier existing band -------------------------------------------------------------------
    o = ck.ob("C08.3a", "AfterBand -> BeforeBand(p): p is the result of previous_existing_band(archive, band_id) of the finished band")
    good = True
    for bb, s in agg_by_arm.get("AfterBand", []):
        if s["rv"]["variant"] == "BeforeBand":
            orig = flow.origins_x(lib, sn, s["rv"]["ops"][0])
            if flow.origin_calls(orig) != {"index::stitch::previous_existing_band"}:
                good = False
                ck.fail(o, sn.name, "earlier band not from previous_existing_band", "p derives from %s" % flow.origin_summary(orig))
    if good:
        ck.ok(o)
    pb = w.body("index::stitch::previous_existing_band")
    o = ck.ob("C08.3b", "previous_existing_band returns Some(id) only if band_exists(id) was true, with id stepped by BandId::previous")
    uo2 = [e for e in pb.events if e.bb in pb.live and e.name == "std::result::Result::<T, E>::unwrap_or" and
           "archive::Archive::band_exists" in flow.origin_calls(flow.origins_x(lib, pb, e.args[0]))]
    somes = [(bb, s) for bb, j, s in rules.agg_sites(pb, "std::option::Option", "Some") if s["pl"]["l"] == 0]
    prev = [e for e in pb.events if e.bb in pb.live and e.name == "bandid::BandId::previous"]
    if uo2 and prev and not somes:
        # the candidate - the Option returned by previous() - is itself what is returned (`while let Some(id) = candidate { if
        # exists(id) { break } candidate = id.previous() } candidate`): every return lies behind band_exists==true or behind
        # the candidate being None, and what is tested and returned is stepped by BandId::previous
        te = rules.bool_switch_edges(pb, uo2[0], True)
        ne = set()
        for e in prev:
            ne |= flow.none_edges(pb, e)[0]
        c = rules.creators_of(pb, "archive::Archive::band_exists")
        tested = flow.origins_x(lib, pb, c[0].args[1]) if c else set()
        ret = flow.origins_x(lib, pb, 0)
        if not te or not all(pb.must_pass_edges(te | ne, bb) for bb in pb.return_blocks()):
            ck.fail(o, pb.name, "returns a band that was not found to exist", "the candidate can be returned without band_exists==true")
        elif "bandid::BandId::previous" not in flow.origin_calls(tested) or flow.origin_calls(ret) - {"bandid::BandId::previous"}:
            ck.fail(o, pb.name, "id not stepped by BandId::previous", "tested %s; returned %s" % (flow.origin_summary(tested), flow.origin_summary(ret)))
        else:
            ck.ok(o, "the candidate from BandId::previous is returned as it is")
    elif not uo2 or not somes or not prev:
        ck.fail(o, pb.name, "search loop changed", "band_exists tests=%d returns=%d previous calls=%d" % (len(uo2), len(somes), len(prev)))
    else:
        te = rules.bool_switch_edges(pb, uo2[0], True)
        c = rules.creators_of(pb, "archive::Archive::band_exists")
        tested = flow.origins_x(lib, pb, c[0].args[1]) if c else set()
        ret = flow.origins_x(lib, pb, somes[0][1]["rv"]["ops"][0])
        if not all(pb.must_pass_edges(te, bb) for bb, s in somes):
            ck.fail(o, pb.name, "returns a band that was not found to exist", "Some(id) reachable without band_exists==true")
        elif "bandid::BandId::previous" not in flow.origin_calls(tested) or "bandid::BandId::previous" not in flow.origin_calls(ret):
            ck.fail(o, pb.name, "id not stepped by BandId::previous", "tested %s; returned %s" % (flow.origin_summary(tested), flow.origin_summary(ret)))
        else:
            ck.ok(o)

    # ---- 4. termination measure ---------------------------------------------------------------------------------
    o = ck.ob("C08.3c", "previous_existing_band returns the NEAREST existing band: once band_exists(id) is true that id is returned - no further "
                        "condition can make the search step past an existing band")
    be_ = events_of(lib, pb, "archive::Archive::band_exists")
    t_edges_ = set()
    for e in be_:
        t_edges_ |= rules.local_bool_edges(pb, flow.result_carriers(pb, e.dest["l"]) | {x.dest["l"] for x in pb.events
                                                                                       if x.bb in pb.live and x.name.endswith("Result::<T, E>::unwrap_or") and
                                                                                       flow.operand_local(x.args[0]) in flow.result_carriers(pb, e.dest["l"])}, True)
    prevs_ = {e.bb for e in prev} if prev else set()
    if not be_ or not t_edges_:
        ck.fail(o, pb.name, "anchor-missing", "band_exists is not branched on in previous_existing_band")
    else:
        past = [v for (u, v) in t_edges_ if prevs_ & pb.reachable(v)]
        if past:
            ck.fail(o, pb.name, "an existing band can be skipped", "after band_exists(id) == true the search can still step to an earlier id")
        else:
            ck.ok(o)
    o = ck.ob("C08.4a", "BandId::previous is None at zero and otherwise exactly one less")
    bp = lib.bodies.get("bandid::BandId::previous")
    if bp is None:
        ck.fail(o, "bandid::BandId::previous", "anchor-missing", "not found")
    else:
        paths = pred.enumerate_paths(lib, bp)
        sub1 = any(s["rv"]["rk"] == "binop" and s["rv"]["op"].startswith("Sub") and
                   any(op.get("k") == "const" and op.get("int") == "1" for op in s["rv"]["ops"]) for bb, j, s in bp.all_assigns())
        zero_none = False
        for bb, j, s in rules.agg_sites(bp, "std::option::Option", "None"):
            for bb2, j2, s2 in bp.all_assigns():
                if s2["rv"]["rk"] == "binop" and s2["rv"]["op"] == "Eq" and any(op.get("int") == "0" for op in s2["rv"]["ops"]):
                    ed = rules.local_bool_edges(bp, {s2["pl"]["l"]}, True)
                    if ed and bp.must_pass_edges(ed, bb):
                        zero_none = True
        if sub1 and zero_none:
            ck.ok(o)
        else:
            ck.fail(o, bp.name, "previous() is not a strict decrement ending at zero", "sub1=%s zero->None=%s" % (sub1, zero_none))
    o = ck.ob("C08.4b", "previous_existing_band: every loop iteration steps BandId::previous and stops when it is None")
    if prev:
        pbbs = {e.bb for e in prev}
        # any cycle in the body must contain a previous() call
        cyc_without = False
        yields = {bb for bb in pb.live if pb.blocks[bb]["term"]["tk"] == "yield"}
        for bb in pb.live:
            if bb in pbbs or bb in yields:
                continue
            # a cycle that avoids previous() and the poll/yield loops of awaits
            if pb.reaches(bb, bb, removed_nodes=pbbs | yields):
                cyc_without = True
        none_ret = False
        none_e = set()
        for e in prev:
            none_e |= flow.none_edges(pb, e)[0]
        for (sbb, none_t) in sorted(none_e):
            reach = pb.reachable(none_t, removed_nodes=pbbs)
            if any(r in reach for r in pb.return_blocks()) and not (pbbs & pb.reachable(none_t)):
                none_ret = True
        if not cyc_without and none_ret:
            ck.ok(o)
        else:
            ck.fail(o, pb.name, "loop may not terminate", "cycle without previous()=%s; None ends the loop=%s" % (cyc_without, none_ret))
    else:
        ck.fail(o, pb.name, "no BandId::previous", "search loop does not step")
    o = ck.ob("C08.4c", "Stitch::next: every cycle through the state dispatch consumes an entry, a hunk, or moves to a strictly earlier band")
    # cycles: arm regions that come back to the dispatch. Each must contain a consuming event.
    consume = re.compile(r"Peekable<I> as std::iter::Iterator>::next$|IntoIter<T, A> as std::iter::Iterator>::next$|index::IndexHunkIter::(try_)?next|previous_existing_band|band::Band::open|band_is_closed")
    bad = []
    for vi, name in enumerate(vn):
        tgt = arms.get(vi)
        if tgt is None:
            continue
        cons_nodes = {e.bb for e in sn.events if e.bb in sn.live and consume.search(e.name)} | {e.bb for e in common.stitch_buffer_next(sn)}
        reach = sn.reachable(tgt, removed_nodes=cons_nodes | set())
        if sb in reach and name != "Done":
            # can return to the dispatch without consuming anything
            # the state must have changed in between (a State aggregate assigned)
            st_nodes = {bb for bb, j, s in rules.agg_sites(sn, STATE)}
            reach2 = sn.reachable(tgt, removed_nodes=cons_nodes | st_nodes)
            if sb in reach2:
                bad.append(name)
    if bad:
        ck.fail(o, sn.name, "a cycle makes no progress", "arms %s can loop without consuming or changing state" % bad)
    else:
        ck.ok(o)

    # ---- 5. resume point -------------------------------------------------------------------------------------------
    o = ck.ob("C08.5a", "BeforeBand: when last_apath is set, the hunk iterator installed in InBand went through advance_to_after(last_apath)")
    adv = [e for e in sn.events if e.bb in sn.live and e.name == "index::IndexHunkIter::advance_to_after"]
    inband = [(bb, s) for bb, s in agg_by_arm.get("BeforeBand", []) if s["rv"]["variant"] == "InBand"]
    la_sw = None
    for bb in sorted(sn.live):
        t = sn.blocks[bb]["term"]
        if t["tk"] != "switch":
            continue
        dl = flow.operand_local(t["discr"])
        for s in reversed(sn.blocks[bb]["stmts"]):
            if s["sk"] == "assign" and s["pl"]["l"] == dl and s["rv"]["rk"] == "discr":
                oo = flow.origins_x(lib, sn, {"k": "copy", "pl": s["rv"]["pl"]})
                if any(x[0] in ("param", "upvar") and x[2] and x[2][-1] == "last_apath" for x in oo):
                    la_sw = (bb, {int(a[0]): a[1] for a in t["arms"]}, t["otherwise"])
            break
    if not adv or not inband or la_sw is None:
        ck.fail(o, sn.name, "resume point not applied", "advance_to_after=%d InBand=%d test of last_apath=%s" % (len(adv), len(inband), la_sw is not None))
    else:
        lb, la, lo = la_sw
        some_t = la.get(1, lo)
        advn = {e.bb for e in adv}
        reach = sn.reachable(some_t, removed_nodes=advn)
        arg = flow.origins_x(lib, sn, adv[0].args[1])
        recv = flow.origins_x(lib, sn, adv[0].args[0])
        if any(bb in reach for bb, s in inband):
            ck.fail(o, sn.name, "InBand reachable without advance_to_after when last_apath is set", "resume point skipped")
        elif not any(x[0] in ("param", "upvar") and "last_apath" in x[2] for x in arg):
            ck.fail(o, sn.name, "advance_to_after not given last_apath", "argument from %s" % flow.origin_summary(arg))
        elif "index::IndexRead::iter_available_hunks" not in flow.origin_calls(recv):
            ck.fail(o, sn.name, "advance_to_after not applied to the band's hunk iterator", "receiver from %s" % flow.origin_summary(recv))
        else:
            ih_op = rules.field_operand(inband[0][1], "index_hunks") if "index_hunks" in inband[0][1]["rv"]["fields"] else None
            if ih_op is not None:
                io = flow.origins_x(lib, sn, ih_op)
            else:
                # the band's reading position is a value of its own (`InBand(BandCursor)`): everything it is built from
                io = set()
                for op_ in inband[0][1]["rv"]["ops"]:
                    if op_.get("k") != "const":
                        io |= flow.origins_x(lib, sn, op_)
            if "index::IndexHunkIter::advance_to_after" in flow.origin_calls(io) or any(x[0] == "via" for x in io):
                ck.ok(o, sites=[adv[0].site()])
            else:
                ck.fail(o, sn.name, "advanced iterator not the one installed", "index_hunks from %s" % flow.origin_summary(io))
    o = ck.ob("C08.5b", "InBand: last_apath is updated from the last entry of every hunk that is installed")
    assigns = [(bb, s) for bb, j, s in sn.all_assigns() if s["pl"]["p"] and s["pl"]["p"][-1].startswith("f:") and s["pl"]["p"][-1].split(":", 2)[2] == "last_apath"]
    # ... or through a `&mut self.last_apath` handed to a (dissolved) helper: `*last_apath = Some(..)`
    for bb, j, s in sn.all_assigns():
        if s["pl"]["p"] == ["*"] and "Option<apath::Apath>" in (sn.locals[s["pl"]["l"]] or ""):
            oo_ = flow.origins_x(lib, sn, s["pl"]["l"])
            if any(x[0] in ("param", "upvar") and x[2] and x[2][-1] == "last_apath" for x in oo_):
                assigns.append((bb, s))
    hn = events_of(lib, sn, "index::IndexHunkIter::next") + events_of(lib, sn, "index::IndexHunkIter::try_next")
    if not assigns or not hn:
        ck.fail(o, sn.name, "last_apath never updated", "no assignment to self.last_apath")
    else:
        src = flow.origins_x(lib, sn, assigns[0][1]["rv"]["ops"][0], through_calls=[r"Option::<T>::map$", r"<impl \[T\]>::last$"])
        via = {x[1] for x in src if x[0] == "via"}
        # ... of the hunk AS READ: nothing may drop or reorder its entries before `last()` is taken
        lasts = [e for e in sn.events if e.bb in sn.live and e.name.endswith("<impl [T]>::last")]
        mutators = [e for e in sn.events if e.bb in sn.live and re.search(
            r"Vec::<T, A>::(retain|retain_mut|truncate|pop|drain|remove|swap_remove|dedup\w*|clear|split_off|extract_if)$|<impl \[T\]>::(sort\w*|reverse|rotate_\w+)$", e.name)]
        shrunk = []
        for l_ in lasts:
            recv = {x for x in flow.origins_x(lib, sn, l_.args[0]) if x[0] == "call" and x[1].split("::")[-1] in ("next", "try_next")}
            for m_ in mutators:
                mrecv = {x for x in flow.origins_x(lib, sn, m_.args[0]) if x[0] == "call" and x[1].split("::")[-1] in ("next", "try_next")}
                if not (recv & mrecv):
                    continue
                # within one iteration: from where the hunk was read, the mutator is reached before `last()`
                srcbbs = {x[2] for x in recv & mrecv}
                for sb_ in srcbbs:
                    before = sn.reachable(sb_, removed_nodes={l_.bb})
                    if m_.bb in before and (m_.bb == l_.bb or l_.bb in sn.reachable(m_.bb, removed_nodes={sb_})):
                        shrunk.append(m_)
                        break
        if shrunk:
            ck.fail(o, sn.name, "hunk modified before its last entry is recorded",
                    "%s is applied to the hunk before last_apath is taken from it: the resume point is no longer the last path the band recorded" % shrunk[0].name.split("::")[-1], shrunk[0].site())
        elif flow.origin_calls(src) & {"index::IndexHunkIter::next", "index::IndexHunkIter::try_next"} and any(v.endswith("::last") for v in via):
            # the install of buffered_entries must come after
            ck.ok(o, sites=["%s:%d" % (sn.file, assigns[0][1]["line"])])
        else:
            ck.fail(o, sn.name, "last_apath not the last entry of the hunk", "assigned from %s" % flow.origin_summary(src))
    aa = lib.bodies.get("index::IndexHunkIter::advance_to_after")
    o = ck.ob("C08.5c", "advance_to_after stores the given path as the iterator's `after` and keeps everything else")
    if aa is None:
        ck.fail(o, "index::IndexHunkIter::advance_to_after", "anchor-missing", "not found")
    else:
        okk = False
        for bb, j, s in rules.agg_sites(aa, "index::IndexHunkIter"):
            ao = flow.origins_x(lib, aa, rules.field_operand(s, RF[0]))
            ho = flow.origins_x(lib, aa, rules.field_operand(s, "hunks"))
            if any(x[0] == "param" and x[1] == "apath" for x in ao) and any(x[0] == "param" and x[1] == "self" for x in ho):
                okk = True
        if okk:
            ck.ok(o)
        else:
            ck.fail(o, aa.name, "after not set from the argument", "advance_to_after provenance changed")

    _resume_skip(ck, w)
    _hunk_level_cases(ck, w)
    _resume_point_kept(ck, w)

    # ---- 6. entries are returned unmodified -----------------------------------------------------------------------
    o = ck.ob("C08.6", "Stitch::next returns the buffered entry itself")
    rets = [(bb, s) for bb, j, s in rules.agg_sites(sn, "std::option::Option", "Some") if s["pl"]["l"] == 0]
    good = bool(rets)
    for bb, s in rets:
        orig = flow.origins_x(lib, sn, s["rv"]["ops"][0])
        calls = flow.origin_calls(orig)
        buf_next = {e.name for e in common.stitch_buffer_next(sn)}
        if not calls or not all(c in buf_next for c in calls) or [x for x in orig if x[0] in ("agg", "arith")]:
            good = False
            ck.fail(o, sn.name, "returned entry is not the buffered one", "derives from %s" % flow.origin_summary(orig))
    if good:
        ck.ok(o, instances=len(rets))
    elif not rets:
        ck.fail(o, sn.name, "never returns an entry", "no Some(entry)")


def _in_await_loop(body, bb):
    """Is bb part of the poll/yield loop of an await (which is not a program loop)?"""
    seen = body.reachable(bb)
    for x in seen:
        if body.blocks[x]["term"]["tk"] == "yield" and bb in body.reachable(x):
            # the cycle through bb passes a yield
            if not body.reaches(bb, bb, removed_nodes={x}):
                return True
    return False


def _resume_skip(ck, w):
    """C08.7: skipping inside a straddling hunk. After binary_search_by_key(after): an exact hit
    (Ok(i)) must resume one position LATER than a miss (Err(i)) - otherwise the resume path itself
    is listed twice (or an entry is lost)."""
    lib = w.lib
    b = w.body("index::IndexHunkIter::try_next") if "index::IndexHunkIter::try_next" in lib.bodies else w.body("index::IndexHunkIter::next")
    o = ck.ob("C08.7", "IndexHunkIter: inside a straddling hunk an exact hit of the resume path resumes exactly one entry later than a miss")
    bs = [e for e in b.events if e.bb in b.live and re.search(r"<impl \[T\]>::binary_search(_by|_by_key)?$", e.name)]
    pp = [e for e in b.events if e.bb in b.live and re.search(r"<impl \[T\]>::partition_point$", e.name)]
    if not bs and pp:
        ck.ok(o, "partition_point idiom (no Ok/Err arms to compare)", instances=len(pp))
        return
    if len(bs) != 1:
        ck.fail(o, b.name, "resume-skip idiom not recognised", "expected one binary search over the hunk, found %d" % len(bs))
        return
    e = bs[0]
    # the key closure must project the apath, and the needle must be the `after` path
    needle = flow.origins_x(lib, b, e.args[1]) if len(e.args) > 1 else set()
    if not any(x[0] in ("param", "upvar") and RF[0] in x[2] for x in needle):
        ck.fail(o, b.name, "binary search needle is not self.after", "needle derives from %s" % flow.origin_summary(needle), e.site())
        return
    sw = None
    for (sb, tested, arms, other) in flow.discriminant_switches(b, flow.result_carriers(b, e.dest["l"])):
        if b.locals[tested].startswith("std::result::Result"):
            sw = (sb, arms, other)
    if sw is None:
        ck.fail(o, b.name, "binary search result not matched", "no match on Ok/Err of the binary search", e.site())
        return
    sb, arms, other = sw

    def added(arm_target, variant):
        """Sum of the constants added to the payload on this arm before the arms join."""
        payload = set()
        total = 0
        other_t = [t for v, t in arms.items() if t != arm_target] + [other]
        region = b.reachable(arm_target, removed_nodes={sb})
        # blocks only in this arm: reachable from this arm but not from the other arm
        other_reach = set()
        for t in other_t:
            if t != arm_target:
                other_reach |= b.reachable(t, removed_nodes={sb})
        mine = region - other_reach
        for bb in sorted(mine):
            for st in b.blocks[bb]["stmts"]:
                if st["sk"] != "assign":
                    continue
                rv = st["rv"]
                if rv["rk"] == "use" and rv["ops"][0].get("k") in ("copy", "move"):
                    src = rv["ops"][0]["pl"]
                    if src["l"] == e.dest["l"] and src["p"] and src["p"][0] == "dc:" + variant:
                        payload.add(st["pl"]["l"])
                    elif src["l"] in payload and not src["p"]:
                        payload.add(st["pl"]["l"])
                    elif src["l"] in payload and src["p"] and src["p"][0].startswith("f:0"):
                        payload.add(st["pl"]["l"])
                elif rv["rk"] == "binop" and rv["op"].startswith(("Add", "Sub")):
                    ls = [flow.operand_local(x) for x in rv["ops"]]
                    cs = [int(x["int"]) for x in rv["ops"] if x.get("k") == "const" and "int" in x]
                    if any(l in payload for l in ls) and cs:
                        total += cs[0] if rv["op"].startswith("Add") else -cs[0]
                        payload.add(st["pl"]["l"])
        return total if payload else None
    ok_add = added(arms.get(0), "Ok") if 0 in arms else None
    err_add = added(arms.get(1, other), "Err")
    if ok_add is None or err_add is None:
        ck.fail(o, b.name, "Ok/Err arms of the binary search are not distinguished",
                "the exact-hit and the miss case take the same position: the resume path would be listed again", e.site())
    elif ok_add - err_add != 1:
        ck.fail(o, b.name, "exact hit does not resume one later than a miss",
                "Ok arm adds %d, Err arm adds %d to the found position" % (ok_add, err_add), e.site())
    else:
        ck.ok(o, "Ok(i) -> i+%d, Err(i) -> i+%d" % (ok_add, err_add), sites=[e.site()])


def _resume_point_kept(ck, w):
    """C08.9: while hunks are being skipped the resume point must survive. `self.after` may be cleared only where a whole
    hunk is returned because its first entry is already past it; a take()/replace() of it must be undone (Some(..) stored
    back) on every path that goes on to the next hunk."""
    lib = w.lib
    b = w.body("index::IndexHunkIter::try_next") if "index::IndexHunkIter::try_next" in lib.bodies else w.body("index::IndexHunkIter::next")
    o = ck.ob("C08.9", "IndexHunkIter: the resume point is cleared only when a whole hunk is returned as already past it; it is never lost on a path "
                       "that continues with the next hunk")
    nxt = [e for e in b.events if e.bb in b.live and e.callee == "std::iter::Iterator::next"]

    def is_after_place(pl):
        return any(p.startswith("f:") and p.split(":", 2)[2] == RF[0] for p in pl["p"])
    clears, restores = [], set()
    for bb, j, st in b.all_assigns():
        if is_after_place(st["pl"]) and st["rv"]["rk"] == "agg" and st["rv"].get("adt") == "std::option::Option":
            if st["rv"]["variant"] == "None":
                clears.append((bb, "= None"))
            else:
                restores.add(bb)
        elif is_after_place(st["pl"]) and st["rv"]["rk"] == "use":
            # moved-in value: a Some(..) built just before, or anything else (treated as a restore only if it is Some)
            oo = flow.origins(b, st["rv"]["ops"][0])
            if any(x[0] == "agg" and x[1] == "std::option::Option" for x in oo) and not any(x[0] == "enum" and x[2] == "None" for x in oo):
                restores.add(bb)
            elif any(x[0] == "enum" and x[2] == "None" for x in oo):
                clears.append((bb, "= None"))
    for e in b.events:
        if e.bb in b.live and re.search(r"^std::option::Option::<T>::(take|take_if|replace)$|^std::mem::(take|replace|swap)$", e.name) and e.args:
            oo = flow.origins_x(lib, b, e.args[0])
            if any(x[0] in ("param", "upvar") and RF[0] in x[2] for x in oo):
                clears.append((e.bb, e.name.split("::")[-1] + "()"))
    # the legitimate clearing edge: first > after decided true
    whole_edges = set()
    for e in b.events:
        if e.bb in b.live and re.search(r"^std::cmp::PartialOrd::(gt|lt)$", e.callee or "") and len(e.args) == 2:
            kinds = []
            for a in e.args:
                oo = flow.origins_x(lib, b, a)
                calls = flow.origin_calls(oo)
                kinds.append("after" if any(x[0] in ("param", "upvar", "call") and (RF[0] in (x[2] if x[0] != "call" else ())) for x in oo)
                             else "first" if any(c.endswith("<impl [T]>::first") for c in calls) else "?")
            op = e.callee.rsplit("::", 1)[-1]
            if (kinds == ["first", "after"] and op == "gt") or (kinds == ["after", "first"] and op == "lt"):
                whole_edges |= rules.bool_switch_edges(b, e, True)
    problems = []
    for bb, how in clears:
        if whole_edges and b.must_pass_edges(whole_edges, bb):
            continue
        # otherwise: no way on to the next hunk without putting it back
        reach = set()
        for s_ in b.succ[bb]:
            reach |= b.reachable(s_, removed_nodes=restores, removed_edges=whole_edges)
        if any(x.bb in reach for x in nxt):
            problems.append((bb, how))
    if problems:
        ck.fail(o, b.name, "resume point lost while hunks are still being skipped",
                "self.after %s and the next hunk can be read without it being stored back: later hunks are then returned unfiltered" % problems[0][1],
                "%s:bb%d" % (b.file, problems[0][0]))
    else:
        ck.ok(o, "%d clearing site(s)" % len(clears), instances=len(clears))


_FLIP = {"le": "ge", "lt": "gt", "ge": "le", "gt": "lt"}
_NEG = {"le": "gt", "lt": "ge", "ge": "lt", "gt": "le"}


def _hunk_level_cases(ck, w):
    """C08.8: the two shortcuts of IndexHunkIter::try_next that decide about a WHOLE hunk from one of
    its ends. Skipping the hunk is sound only if its LAST entry is <= (or <) the resume path; returning
    it unsliced is sound only if its FIRST entry is strictly greater. Any other end / relation either
    loses the straddling hunk's tail or lists the resume path twice."""
    lib = w.lib
    b = w.body("index::IndexHunkIter::try_next") if "index::IndexHunkIter::try_next" in lib.bodies else w.body("index::IndexHunkIter::next")
    o = ck.ob("C08.8", "IndexHunkIter: a whole hunk is skipped only if its last entry is <= the resume path, and returned unsliced only "
                       "if its first entry is > the resume path")
    nxt = [e for e in b.events if e.bb in b.live and e.callee == "std::iter::Iterator::next"]
    slicers = [e for e in b.events if e.bb in b.live and re.search(
        r"binary_search|partition_point|Vec::<T, A>::retain(_mut)?$|ops::Index<.*::index$|<impl \[T\]>::(split_at|split_off|get)$|Vec::<T, A>::(split_off|drain|truncate)$", e.name)]
    oks = [bb for bb, j, st in rules.agg_sites(b, "std::result::Result", "Ok")]
    if not nxt or not oks:
        ck.fail(o, b.name, "anchor-missing", "no hunk-number iteration or no Ok(entries) return in %s" % b.name)
        return
    cmps = [e for e in b.events if e.bb in b.live and re.search(r"^std::cmp::PartialOrd::(le|lt|ge|gt)$", e.callee or "") and len(e.args) == 2]
    n = 0
    bad = []
    for e in cmps:
        kinds = []
        for a in e.args:
            oo = flow.origins_x(lib, b, a)
            calls = flow.origin_calls(oo)
            if any(x[0] in ("param", "upvar") and RF[0] in x[2] for x in oo):
                kinds.append("after")
            elif any(c.endswith("<impl [T]>::last") for c in calls):
                kinds.append("last")
            elif any(c.endswith("<impl [T]>::first") for c in calls):
                kinds.append("first")
            else:
                kinds.append("?")
        if "after" not in kinds or not ({"first", "last"} & set(kinds)):
            continue
        op = e.callee.rsplit("::", 1)[-1]
        if kinds[0] == "after":
            op = _FLIP[op]
        end = kinds[1] if kinds[0] == "after" else kinds[0]
        for pol in (True, False):
            cond = op if pol else _NEG[op]
            for (u, v) in rules.bool_switch_edges(b, e, pol):
                region = b.reachable(v)
                reach_ok = [r for r in oks if r in region]
                skip = bool(reach_ok) and all(b.must_pass_nodes({x.bb for x in nxt}, r, start=v) for r in reach_ok) or \
                    (not reach_ok and any(x.bb in region for x in nxt))
                direct = b.reachable(v, removed_nodes={x.bb for x in nxt} | {x.bb for x in slicers} | {x.bb for x in cmps if x is not e})
                whole = any(r in direct for r in oks)
                if skip:
                    n += 1
                    if not (end == "last" and cond in ("le", "lt")):
                        bad.append((e, "the hunk is skipped when its %s entry is %s the resume path" % (end, cond)))
                elif whole:
                    n += 1
                    if not (end == "first" and cond == "gt"):
                        bad.append((e, "the hunk is returned unsliced when its %s entry is %s the resume path" % (end, cond)))
    if bad:
        for e, m in bad:
            ck.fail(o, b.name, m, m + " (sound: skip iff last <= after; whole iff first > after)", e.site())
    elif n == 0:
        ck.ok(o, "no whole-hunk shortcut present (every hunk goes through the position search)")
    else:
        ck.ok(o, "%d whole-hunk decision(s), all from the sound end and relation" % n, instances=n,
              sites=[e.site() for e in cmps])


def _state_dispatch(w):
    """(body, switch block, {State variant -> [(bb, aggregate stmt)] built in that arm}) of Stitch::next."""
    lib = w.lib
    sn = w.body(SN)
    adt = lib.adts.get(STATE)
    vn = [v["name"] for v in adt["variants"]]
    sw = None
    for bb in sorted(sn.live):
        t = sn.blocks[bb]["term"]
        if t["tk"] != "switch":
            continue
        dl = flow.operand_local(t["discr"])
        for s in reversed(sn.blocks[bb]["stmts"]):
            if s["sk"] == "assign" and s["pl"]["l"] == dl and s["rv"]["rk"] == "discr":
                oo = flow.origins_x(lib, sn, {"k": "copy", "pl": s["rv"]["pl"]})
                if any(x[0] in ("param", "upvar") and x[2] and x[2][-1] == "state" for x in oo):
                    sw = (bb, {int(a[0]): a[1] for a in t["arms"]}, t["otherwise"])
                break
        if sw:
            break
    if sw is None:
        return sn, None, {}
    sb, arms, other = sw
    agg_by_arm = {}
    for vi, name in enumerate(vn):
        tgt = arms.get(vi)
        if tgt is None:
            continue
        region = sn.reachable(tgt, removed_nodes={sb})
        for bb, j, s in rules.agg_sites(sn, STATE):
            if bb in region:
                agg_by_arm.setdefault(name, []).append((bb, s))
    return sn, sb, agg_by_arm


def band_left_only_when_exhausted(ck, w, rid, sn=None, sb=None, agg_by_arm=None):
    if sn is None:
        sn, sb, agg_by_arm = _state_dispatch(w)
        if sb is None:
            o = ck.ob(rid, "InBand -> AfterBand only when the hunk iterator returned None")
            ck.fail(o, SN, "no match on self.state", "state dispatch not found")
            return
    # ---- 1b. a band is left only when its hunks are exhausted -------------------------------------------------
    o = ck.ob(rid, "InBand -> AfterBand only when the hunk iterator returned None: an unreadable hunk (Some(Err)) does not end the band")
    tn = [e for e in sn.events if e.bb in sn.live and e.callee == rules.POLL and
          re.search(r"^index::IndexHunkIter::(try_next|next)::", e.resolved or "")]
    ab = [(bb, s_) for bb, s_ in agg_by_arm.get("InBand", []) if s_["rv"]["variant"] == "AfterBand"]
    if not tn or not ab:
        ck.fail(o, sn.name, "anchor-missing", "no hunk read or no InBand->AfterBand transition found (reads=%d, transitions=%d)" % (len(tn), len(ab)))
    else:
        some_t = set()
        none_e = set()
        for e in tn:
            carriers = flow.result_carriers(sn, e.dest["l"])
            for (sb_, tested, arms_, other_) in flow.discriminant_switches(sn, carriers):
                if sn.locals[tested].startswith("std::option::Option"):
                    if 1 in arms_:
                        some_t.add(arms_[1])
                    none_e.add((sb_, arms_[0] if 0 in arms_ else other_))
        badt = []
        for bb, s_ in ab:
            for t_ in some_t:
                # (reading the hunk iterator again - in an inner loop of a cursor type, say - is a new decision)
                if bb in sn.reachable(t_, removed_nodes={sb} | {e.bb for e in tn}):
                    badt.append(bb)
        if not none_e:
            ck.fail(o, sn.name, "hunk iterator result not matched", "no test of the Option returned by the hunk iterator")
        elif badt:
            ck.fail(o, sn.name, "band abandoned while hunks remain", "State::AfterBand is reachable after the hunk iterator returned Some(..): "
                    "the remaining hunks of the band are never read", "%s:bb%d" % (sn.file, badt[0]))
        else:
            ck.ok(o, "%d transition(s), all on the None edge" % len(ab), instances=len(ab))

