"""C16 - Restore stays inside its destination and never clobbers by default."""
import re

from cv import flow, rules, graph
from cv.rules import events_of

from props import common

TITLE = "Restore stays inside its destination and never clobbers by default"
TECHNIQUE = 'static analysis: effect table over the call graph (no-follow primitives only on symlink paths), guard analysis of the refusal, path provenance'
EXPLANATION = (
    "Decided: (1) restore_symlink (and everything it calls) touches the link only with symlink(), lchown and "
    "lutimes - no chmod, no following chown/utimes, no open/create - and the shared set_owner uses lchown only; "
    "(2) in restore(), every file-system effect other than creating the destination directory itself lies behind "
    "overwrite == true or directory_is_empty == true, so the refusal happens before anything is touched; "
    "(3) every path handed to a file-system effect derives from destination.join(&entry.apath[1..]) (or the "
    "function's own path parameter), and restore cannot reach an archive write or removal."
    " Added: directory_is_empty never inspects the entries (C16.2d)."
)
UNDECIDED = ["pre-populated destinations with overwrite=true (following pre-existing links is run-time state)",
             "absence of '..' in apaths of foreign archives (write side: C11.3)"]
ASSUMPTIONS = ["lchown(2), utimensat(AT_SYMLINK_NOFOLLOW) and symlink(2) do not follow the final component"]

FS_EFFECTS = {"CHMOD", "CHOWN_NOFOLLOW", "CHOWN_FOLLOW", "UTIME_NOFOLLOW", "UTIME_FOLLOW", "UTIME_HANDLE", "FS_CREATE", "FS_REMOVE"}
# which argument of a primitive carries the path it acts on
PATH_ARG = [
    (r"^std::os::unix::fs::symlink$", 1),
    (r"^unix_mode::UnixMode::set_permissions$|^owner::Owner::set_owner$|^owner::unix::set_owner$", 1),
    (r"^filetime::set_file_handle_times$", None),
    (r".", 0),
]


def run(ck, w):
    lib = w.lib
    g = w.graph

    # ---- 1. no-follow on symlinks ----------------------------------------------------------------
    rs = w.raw("restore::restore_symlink")
    o = ck.ob("C16.1a", "restore_symlink touches the link only with symlink / lchown / lutimes")
    allowed = {"SYMLINK", "FS_CREATE", "CHOWN_NOFOLLOW", "UTIME_NOFOLLOW"}
    seen = set()
    bad = False
    for e in rs.events:
        if e.bb not in rs.live:
            continue
        eff = g.event_effects(lib, e) & (FS_EFFECTS | {"SYMLINK"})
        if not eff:
            continue
        seen |= eff
        if "FS_CREATE" in eff and "SYMLINK" not in eff:
            bad = True
            ck.fail(o, rs.name, "creates something other than the symlink", "%s has effect FS_CREATE" % e.name, e.site())
        extra = eff - allowed
        if extra:
            bad = True
            ck.fail(o, rs.name, "%s on a symlink path" % "/".join(sorted(extra)),
                    "%s can %s on the restored link (would follow it)" % (e.name, "/".join(sorted(extra))), e.site())
    need = {"SYMLINK", "CHOWN_NOFOLLOW", "UTIME_NOFOLLOW"}
    if not need <= seen:
        bad = True
        ck.fail(o, rs.name, "symlink metadata step missing", "effects seen: %s" % sorted(seen))
    if not bad:
        ck.ok(o, "effects: %s" % sorted(seen), instances=len(seen))
    o = ck.ob("C16.1b", "owner::unix::set_owner changes ownership with lchown only")
    so = "owner::unix::set_owner"
    eff = g.effects.get(so, set())
    if so not in lib.bodies:
        ck.fail(o, so, "anchor-missing", "owner::unix::set_owner not found")
    elif "CHOWN_NOFOLLOW" not in eff or "CHOWN_FOLLOW" in eff:
        ck.fail(o, so, "set_owner follows symlinks", "set_owner effects: %s" % sorted(eff & {"CHOWN_NOFOLLOW", "CHOWN_FOLLOW"}))
    else:
        ck.ok(o)

    # ---- 2. refusal before any effect ----------------------------------------------------------------
    rb = w.body("restore::restore")
    o = ck.ob("C16.2", "restore(): every file-system effect except creating the destination directory is behind overwrite || directory_is_empty")
    die = events_of(lib, rb, "io::directory_is_empty")
    edges = set()
    for e in die:
        edges |= rules.local_bool_edges(rb, rules.ok_payload_locals(rb, e), True)
    edges |= rules.local_bool_edges(rb, rules.field_read_locals(rb, "overwrite"), True)
    inline_empty = {}
    if not die:
        # the emptiness test written in place: `read_dir(destination)?.next().is_some()` (or is_none()), possibly joined with
        # `!overwrite` in one bool local
        for e in rb.events:
            if e.bb in rb.live and e.args and e.name in ("std::option::Option::<T>::is_some", "std::option::Option::<T>::is_none"):
                oo = flow.origins_x(lib, rb, e.args[0], through_calls=[r"Try>?::branch$", r"Iterator>?::next$"])
                if "std::fs::read_dir" in flow.origin_calls(oo):
                    inline_empty[e] = e.name.endswith("is_none")        # polarity that means "empty"
        for e, pol in inline_empty.items():
            edges |= rules.bool_switch_edges(rb, e, pol)
        ow = rules.local_bool_edges(rb, rules.field_read_locals(rb, "overwrite"), True)
        for bb_ in sorted(rb.live):
            t_ = rb.blocks[bb_]["term"]
            if t_["tk"] != "switch" or t_["discr"].get("k") == "const" or t_["discr"]["pl"]["p"]:
                continue
            l_ = t_["discr"]["pl"]["l"]
            if rb.locals[l_] != "bool" or not inline_empty:
                continue
            for val_ in (True, False):
                if rules.local_implies_any(rb, l_, inline_empty, ow, val_) and any(d_[1] == "call" and d_[2] in inline_empty for d_ in rules._bool_defs(rb, l_)):
                    edges |= rules.local_bool_edges(rb, {l_}, val_)
        die = list(inline_empty)
    fx = []
    for e in rb.events:
        if e.bb not in rb.live:
            continue
        if e.callee != rules.POLL and rules.is_async_fn(lib, e.resolved or ""):
            continue
        eff = g.event_effects(lib, e) & FS_EFFECTS
        if eff and e.name != "io::ensure_dir_exists":
            fx.append(e)
    ck.floor("C16.2.n", "effectful events in restore()", len(fx), 4)
    if not die or not edges:
        ck.fail(o, rb.name, "no emptiness test", "directory_is_empty / overwrite do not control a branch in restore()")
    else:
        bad = [e for e in fx if not rb.must_pass_edges(edges, e.bb)]
        if bad:
            for e in bad:
                ck.fail(o, rb.name, "%s before the refusal" % e.name.replace("::{closure#0}", ""),
                        "effect reachable with overwrite=false and a non-empty destination: %s" % rules.witness(rb, e.bb, removed_edges=edges), e.site())
        else:
            ck.ok(o, "%d effectful event(s) guarded" % len(fx), sites=[e.site() for e in fx], instances=len(fx))
    o = ck.ob("C16.2b", "the refusing path returns Err(DestinationNotEmpty)")
    dn = [(bb, s) for bb, j, s in rules.agg_sites(rb, "errors::Error", "DestinationNotEmpty")]
    if not dn:
        ck.fail(o, rb.name, "no DestinationNotEmpty", "restore() no longer returns DestinationNotEmpty")
    else:
        # that block must NOT be behind the guard edges (it is the other side)
        if all(rb.must_pass_edges(edges, bb) for bb, s in dn):
            ck.fail(o, rb.name, "refusal unreachable", "DestinationNotEmpty is only reachable when the destination is empty or overwrite is set")
        else:
            ck.ok(o)

    o = ck.ob("C16.2d", "directory_is_empty says 'empty' only when the listing yields no entry at all: it lists the directory itself and never "
                        "inspects, stats or filters the entries (an entry of any kind, a dangling link included, makes it non-empty)")
    fam = lib.family("io::directory_is_empty")
    if not fam and inline_empty:
        # merged into restore(): the listing is `read_dir(destination)`, asked only whether it yields an entry
        rdv = [e for e in rb.events if e.bb in rb.live and e.name == "std::fs::read_dir"]
        src_ = flow.origins_x(lib, rb, rdv[0].args[0]) if rdv else set()
        if rdv and any(x[0] in ("param", "upvar") and x[1] == "destination" for x in src_):
            ck.ok(o, "emptiness test written in place in restore(): read_dir(destination)?.next().is_some()", sites=[rdv[0].site()])
        else:
            ck.fail(o, rb.name, "listing is not of the destination", "read_dir argument from %s" % flow.origin_summary(src_))
    elif not fam:
        ck.fail(o, "io::directory_is_empty", "anchor-missing", "directory_is_empty not found")
    else:
        allowed = re.compile(r"^std::fs::read_dir$|Try>?::branch$|::from_residual$|Iterator>?::next$|^std::iter::Iterator::(next|count)$|"
                             r"Option::<T>::(is_none|is_some|map|map_or|is_some_and|is_none_or)$|IntoIterator>?::into_iter$|^std::convert::(From::from|Into::into)$|From<.*>>?::from$|"
                             r"^std::result::Result::<T, E>::(map|and_then|map_err)$|^std::iter::Iterator::(peekable|any|all)$|Peekable<I>::peek$")
        other = []
        rd = []
        for fb in fam:
            for e in fb.events:
                if e.bb not in fb.live or (e.macro or "").startswith("trace") or (e.macro or "").startswith("debug"):
                    continue
                if e.name == "std::fs::read_dir":
                    rd.append((fb, e))
                if not allowed.search(e.name) and not allowed.search(e.callee or ""):
                    other.append((fb, e))
        if not rd:
            ck.fail(o, "io::directory_is_empty", "no read_dir", "directory_is_empty does not list the directory")
        elif other:
            fb, e = other[0]
            ck.fail(o, "io::directory_is_empty", "entries are inspected",
                    "directory_is_empty calls %s: whether an entry counts must not depend on what it is or points to" % e.name, e.site())
        else:
            src = flow.origins_x(lib, rd[0][0], rd[0][1].args[0])
            if any(x[0] == "param" for x in src):
                ck.ok(o, sites=[rd[0][1].site()])
            else:
                ck.fail(o, "io::directory_is_empty", "lists another directory", "read_dir argument derives from %s" % flow.origin_summary(src), rd[0][1].site())

    o = ck.ob("C16.2e", "what restore does to the destination BEFORE it may refuse is only io::ensure_dir_exists, and that only creates the directory: "
                        "no permission, ownership or time change, nothing removed")
    ede = g.effects.get("io::ensure_dir_exists", set())
    extra = ede & {"CHMOD", "CHOWN_FOLLOW", "CHOWN_NOFOLLOW", "UTIME_FOLLOW", "UTIME_NOFOLLOW", "UTIME_HANDLE", "FS_REMOVE"}
    edb = lib.bodies.get("io::ensure_dir_exists")
    perm_calls = [e for fb in lib.family("io::ensure_dir_exists") for e in fb.events if e.bb in fb.live and
                  re.search(r"set_permissions|set_readonly|set_mode|::chown$|set_file_m?times?|remove_(file|dir)", e.name)]
    if edb is None:
        ck.fail(o, "io::ensure_dir_exists", "anchor-missing", "ensure_dir_exists not found")
    elif extra or perm_calls:
        ck.fail(o, "io::ensure_dir_exists", "the destination is modified before the refusal", "ensure_dir_exists has effects %s%s" % (
            sorted(extra), (" and calls " + perm_calls[0].name) if perm_calls else ""), perm_calls[0].site() if perm_calls else None)
    elif "FS_CREATE" not in ede:
        ck.fail(o, "io::ensure_dir_exists", "does not create the directory", "effects %s" % sorted(ede))
    else:
        ck.ok(o, "effects=%s" % sorted(ede))
    o = ck.ob("C16.1c", "restore(): directory metadata is deferred only for entries of kind Dir (the push lies on the Dir arm of the kind dispatch), and "
                        "restore() never asks the file system what a restored path IS (a stat that follows links)")
    pushes_ = [e for e in rb.events if e.bb in rb.live and e.name.endswith("Vec::<T, A>::push") and "DirDeferral" in (rb.locals[e.args[0]["pl"]["l"]] or "")]
    kadt = lib.adts.get("kind::Kind")
    dir_idx = [i for i, v in enumerate(kadt["variants"]) if v["name"] == "Dir"][0] if kadt else None
    dir_edges = set()
    for bb_ in sorted(rb.live):
        t_ = rb.blocks[bb_]["term"]
        if t_["tk"] != "switch":
            continue
        dl_ = flow.operand_local(t_["discr"])
        for st_ in reversed(rb.blocks[bb_]["stmts"]):
            if st_["sk"] == "assign" and st_["pl"]["l"] == dl_ and st_["rv"]["rk"] == "discr" and "kind::Kind" in (rb.locals[st_["rv"]["pl"]["l"]] or ""):
                arms_ = {int(a[0]): a[1] for a in t_["arms"]}
                if dir_idx in arms_:
                    dir_edges.add((bb_, arms_[dir_idx]))
            break
    follow = [e for fb in lib.family("restore::restore") for e in fb.events if e.bb in fb.live and
              re.search(r"^std::path::Path(Buf)?::(is_dir|is_file|exists|try_exists|metadata|canonicalize)$|^(std|tokio)::fs::(metadata|canonicalize)$", e.name)]
    if not pushes_ or not dir_edges:
        ck.fail(o, rb.name, "anchor-missing", "deferral pushes=%d, Dir arms=%d" % (len(pushes_), len(dir_edges)))
    elif not all(rb.must_pass_edges(dir_edges, e.bb) for e in pushes_):
        ck.fail(o, rb.name, "deferral queued outside the Dir arm", "a DirDeferral can be queued for an entry that is not of kind Dir", pushes_[0].site())
    elif follow:
        ck.fail(o, rb.name, "restore stats a restored path through links", "%s follows symlinks" % follow[0].name, follow[0].site())
    else:
        ck.ok(o, sites=[e.site() for e in pushes_])

    # ---- 3. paths stay below the destination -------------------------------------------------------------
    o = ck.ob("C16.3a", "restore(): the path given to restore_dir/restore_file/restore_symlink/DirDeferral is destination.join(&entry.apath[1..])")
    targets = []
    for fn, idx in (("restore::restore_dir", 1), ("restore::restore_file", 0), ("restore::restore_symlink", 0)):
        for c in rules.creators_of(rb, fn):
            targets.append((c, c.args[idx], fn))
    for bb, j, s in rules.agg_sites(rb, "restore::DirDeferral"):
        targets.append((None, rules.field_operand(s, "path"), "DirDeferral.path"))
    ck.floor("C16.3a.n", "path hand-offs in restore()", len(targets), 4)
    joins = [e for e in rb.events if e.bb in rb.live and e.name == "std::path::Path::join"]
    good = True
    for c, op, what in targets:
        orig = flow.origins_x(lib, rb, op)
        calls = flow.origin_calls(orig)
        if calls != {"std::path::Path::join"} or any(x[0] == "param" for x in orig):
            good = False
            ck.fail(o, rb.name, "%s path not from destination.join" % what, "path derives from %s" % flow.origin_summary(orig), c.site() if c else None)
    if len(joins) != 1:
        good = False
        ck.fail(o, rb.name, "no unique Path::join", "expected one join, found %d" % len(joins))
    else:
        j = joins[0]
        recv = flow.origins_x(lib, rb, j.args[0])
        arg = flow.origins_x(lib, rb, j.args[1], through_calls=[r"ops::Index<.*::index$"])
        if not any(x[0] == "param" and x[1] == "destination" for x in recv):
            good = False
            ck.fail(o, rb.name, "join receiver is not the destination", "receiver derives from %s" % flow.origin_summary(recv), j.site())
        idx = [e for e in rb.events if e.bb in rb.live and re.search(r"ops::Index<.*::index$", e.name) and e.bb in rb.live]
        strip_ok = False
        for e in idx:
            src = flow.origins_x(lib, rb, e.args[0])
            if any("apath" in (x[3] if x[0] == "call" else ()) for x in src) or any(x[0] == "call" and x[1].endswith("Stitch::next") for x in src):
                ro = flow.origins(rb, e.args[1])
                if any(x[0] == "const" and x[1] == "int" and x[2] == "1" for x in ro) and any(x[0] == "agg" and "RangeFrom" in str(x[1]) for x in ro):
                    strip_ok = True
        if not any(x[0] == "call" and x[1].endswith("Stitch::next") for x in arg) or not strip_ok:
            good = False
            ck.fail(o, rb.name, "join argument is not entry.apath[1..]", "argument derives from %s" % flow.origin_summary(arg), j.site())
    if good:
        ck.ok(o, "%d hand-off(s)" % len(targets), instances=len(targets))

    o = ck.ob("C16.3b", "restore_file / restore_symlink / restore_dir / apply_deferrals act only on the path they were given")
    n = 0
    good = True
    for fn, names in (("restore::restore_file", {"path"}), ("restore::restore_symlink", {"path"}),
                      ("restore::restore_dir", {"restore_path"}), ("restore::apply_deferrals", {"deferrals", "path"}),
                      ("unix_mode::UnixMode::set_permissions", {"path"}), ("owner::Owner::set_owner", {"path"}),
                      ("owner::unix::set_owner", {"path"})):
        b = w.body(fn)
        for e in b.events:
            if e.bb not in b.live or e.callee == rules.POLL and not graph.primitive_effects(e.name.replace("::{closure#0}", "")):
                continue
            eff = g.event_effects(lib, e) & FS_EFFECTS
            if not eff or not e.args:
                continue
            if e.callee != rules.POLL and rules.is_async_fn(lib, e.resolved or ""):
                continue
            pi = 0
            for rx, i in PATH_ARG:
                if re.search(rx, e.name):
                    pi = i
                    break
            if pi is None or e.callee == rules.POLL:
                continue
            n += 1
            orig = flow.origins_x(lib, b, e.args[pi])
            roots = set()
            for x in orig:
                if x[0] == "param":
                    roots.add(str(x[1]))
                elif x[0] == "call" and x[1].endswith("Iterator>::next"):
                    roots.add("deferrals")
                elif x[0] in ("via", "const"):
                    continue
                else:
                    roots.add("%s:%s" % (x[0], x[1] if len(x) > 1 else ""))
            if not roots or not roots <= names:
                good = False
                ck.fail(o, b.root, "%s acts on a path other than its parameter" % e.name, "path derives from %s" % flow.origin_summary(orig), e.site())
    ck.floor("C16.3b.n", "path-taking effect calls in the restore helpers", n, 8)
    if good:
        ck.ok(o, "%d call(s)" % n, instances=n)

    o = ck.ob("C16.3c", "restore cannot write to or remove from the archive")
    have = g.effects.get("restore::restore", set()) & {"T_WRITE", "T_REMOVE", "T_MKDIR"}
    if have:
        ck.fail(o, "restore::restore", "reaches %s" % "/".join(sorted(have)), "restore can modify the archive")
    else:
        ck.ok(o)
    common.cli_option(ck, w, "C16.2c", "RestoreOptions", "overwrite", ("param", "force_overwrite"))
