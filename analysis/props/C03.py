"""C03 - A backup killed at any point leaves a consistent, usable archive.

Decided: the ORDER of storage effects on every path of the backup (DESIGN.md 4/C03)."""
import re

from cv import flow, rules
from cv.rules import events_of, order_after_success, none_after
from props import common

TITLE = "A backup killed at any point leaves a consistent, usable archive"
TECHNIQUE = 'static analysis: MIR dominance by edge deletion over every ? and await exit (order of storage effects), provenance of block addresses, who-may-write over the call graph'
EXPLANATION = (
    "A crash can only cut an execution between two storage operations, i.e. at an edge of the "
    "control-flow graph. The check proves by edge-deletion dominance on the MIR of the backup path that on "
    "EVERY path (every `?` exit and await point included): the band head is written before anything else of "
    "the band; the basis is chosen before the new band exists; every block address that can enter an index "
    "entry comes from a successful store (or from a presence-checked basis entry); combined blocks are "
    "drained before the hunk that names them; hunks and the index are finished before the tail; nothing is "
    "written after the tail; the present-block set only grows after a successful write / verified read / "
    "non-empty listing; hunk counters advance only after a successful hunk write. This decides the ordering "
    "clauses of the property, not the end-state equalities."
)
UNDECIDED = [
    "that stitching then yields 'new content up to the last recorded path, old after it' (value-level, see C08)",
    "atomicity of a single local file-system write (trusted OS semantics)",
    "byte equality of restored content after the crash",
]
ASSUMPTIONS = [
    "a crash discards in-memory state; only the order of storage operations matters",
    "unwind edges are not crash-relevant paths (a panic is also a cut between two storage operations)",
]

BACKUP = "backup::backup"
CREATE = "band::Band::create"
CREATE_FLAGS = "band::Band::create_with_flags"
WRITE_JSON = "jsonio::write_json"
STORE = "blockdir::BlockDir::store_or_deduplicate"
T_WRITE = "transport::Transport::write"


def const_strings(crate, orig):
    """String values of constants / statics among origins."""
    out = set()
    for o in orig:
        if o[0] == "const":
            if o[1] == "str":
                out.add(o[2])
            elif o[1] in ("static", "uneval"):
                p = o[2]
                v = crate.const_value(p)
                if v is None and p.startswith("conserve::"):
                    v = crate.const_value(p[len("conserve::"):])
                if v is not None:
                    out.add(v)
    return out


def write_json_sites(w, body, filename):
    """write_json events in body whose relpath argument is the constant `filename`."""
    out = []
    for c in rules.creators_of(body, WRITE_JSON):
        if len(c.args) >= 2:
            vals = const_strings(w.lib, flow.origins_x(w.lib, body, c.args[1]))
            if filename in vals:
                polls = flow.await_poll(body, c)
                out.extend(polls)
    return out


def field_events(w, body, callee_rx, field):
    """Call events matching callee_rx whose receiver (arg 0) derives from a place that
    goes through field `field` (e.g. self.exists / self.finished)."""
    out = []
    rx = re.compile(callee_rx)
    for e in body.events:
        if e.bb not in body.live or not e.args:
            continue
        if not (rx.search(e.name) or rx.search(e.callee or "")):
            continue
        orig = flow.origins_x(w.lib, body, e.args[0])
        for o in orig:
            path = o[2] if o[0] in ("param", "upvar") else (o[3] if o[0] == "call" else ())
            if field in path:
                out.append(e)
                break
    return out


def run(ck, w):
    lib = w.lib
    g = w.graph

    # ---- 1. head first ---------------------------------------------------------------
    cf = w.body(CREATE_FLAGS)
    o = ck.ob("C03.1a", "Band::create_with_flags returns a Band only after the BANDHEAD write succeeded")
    heads = write_json_sites(w, cf, "BANDHEAD")
    band_aggs = rules.agg_sites(cf, "band::Band")
    if not band_aggs:
        ck.fail(o, cf.name, "no Band construction", "no construction of band::Band found")
    else:
        order_after_success(ck, o, cf, heads, [bb for bb, j, s in band_aggs], "write_json(BANDHEAD)", "construct Band")

    bk = w.body(BACKUP)
    o = ck.ob("C03.1d", "Band::create_with_flags: the BANDHEAD is written last - after the band directory AND its index directory exist "
                        "(a band that has a head can always be listed)")
    cwf = w.body("band::Band::create_with_flags")
    heads_ = events_of(lib, cwf, "jsonio::write_json")
    mkdirs_ = events_of(lib, cwf, "transport::Transport::create_dir")
    if not heads_ or len(mkdirs_) < 2:
        ck.fail(o, cwf.name, "anchor-missing", "write_json events=%d create_dir events=%d" % (len(heads_), len(mkdirs_)))
    else:
        late = [m for m in mkdirs_ if any(cwf.reaches(h.bb, m.bb) for h in heads_)]
        if late:
            ck.fail(o, cwf.name, "directory created after the head was written",
                    "a create_dir can run after BANDHEAD exists: a kill in between leaves a headed band without its index directory", late[0].site())
        else:
            rules.order_after_success(ck, o, cwf, mkdirs_, [h.bb for h in heads_], "create_dir", "write_json(BANDHEAD)")
    o = ck.ob("C03.1b", "in backup(): every archive write other than Band::create happens after Band::create succeeded")
    creates = events_of(lib, bk, CREATE)
    writers = []
    for e in bk.events:
        if e.bb not in bk.live or e in creates:
            continue
        if e.callee != rules.POLL and rules.is_async_fn(lib, e.resolved or ""):
            continue  # the future is created here; its effects happen at the poll
        eff = g.event_effects(lib, e)
        if "T_WRITE" in eff or "T_MKDIR" in eff:
            writers.append(e)
    ck.floor("C03.1b.n", "write-capable events in backup()", len(writers), 3)
    order_after_success(ck, o, bk, creates, writers, "Band::create", "archive write")

    o = ck.ob("C03.1c", "Band::create forwards to create_with_flags and its result is propagated")
    cr = w.body(CREATE)
    ev = events_of(lib, cr, CREATE_FLAGS)
    if not ev:
        ck.fail(o, cr.name, "no create_with_flags", "Band::create does not await create_with_flags")
    else:
        ck.ok(o, sites=[e.site() for e in ev])

    # ---- 2. basis before new band ----------------------------------------------------------
    o = ck.ob("C03.2", "in backup(): the basis band id is read (last_band_id, feeding Stitch::new) before Band::create")
    stitch_new = events_of(lib, bk, "index::stitch::Stitch::new")
    lasts = events_of(lib, bk, "archive::Archive::last_band_id")
    if not stitch_new:
        ck.fail(o, bk.name, "no Stitch::new", "backup() does not build a basis Stitch")
    else:
        orig = flow.origins_x(lib, bk, stitch_new[0].args[1])
        if "archive::Archive::last_band_id" not in flow.origin_calls(orig):
            ck.fail(o, bk.name, "basis id not from last_band_id",
                    "Stitch::new band id derives from %s" % flow.origin_summary(orig), stitch_new[0].site())
        else:
            order_after_success(ck, o, bk, lasts, creates, "last_band_id", "Band::create")

    # ---- 3. blocks before the hunk that names them -----------------------------------------
    o = ck.ob("C03.3a", "every blockdir::Address built by hand takes its hash from a successful store_or_deduplicate")
    n_addr = 0
    for b in rules.user_bodies(lib):
        if rules.is_derive_body(b):
            continue
        for bb, j, s in rules.agg_sites(b, "blockdir::Address"):
            n_addr += 1
            hop = rules.field_operand(s, "hash")
            orig = flow.origins_x(lib, b, hop)
            calls = flow.origin_calls(orig)
            site = "%s:%d" % (b.file, s["line"])
            if calls != {STORE} or any(x[0] in ("param", "agg", "unknown") for x in orig):
                ck.fail(o, b.name, "Address.hash not from store_or_deduplicate",
                        "hash derives from %s" % flow.origin_summary(orig), site)
                continue
            # locate the body that holds the store event: this body or an enclosing one
            holder, anchor = b, bb
            while holder is not None and not events_of(lib, holder, STORE):
                cc = flow.closure_creation(lib, holder.name)
                if cc is None:
                    holder = None
                    break
                holder, anchor = cc[0], cc[1]
            if holder is None:
                ck.fail(o, b.name, "no store event in enclosing bodies", "cannot place the store event", site)
                continue
            oo = ck.ob("C03.3a." + holder.name.split("::")[-2 if holder.name.endswith("}") else -1],
                       "Address construction in %s is dominated by ok(store_or_deduplicate)" % b.name)
            order_after_success(ck, oo, holder, events_of(lib, holder, STORE), [anchor],
                                "store_or_deduplicate", "Address construction", fn_key=b.name)
    ck.floor("C03.3a.n", "hand-written Address constructions", n_addr, 2)
    if o.status == "open":
        ck.ok(o, "%d construction(s)" % n_addr, instances=n_addr)

    # 3b/3d: entries pushed by copy_file
    cfb = w.body("backup::BackupWriter::copy_file")
    o = ck.ob("C03.3d", "copy_file: every IndexEntry carrying addresses gets them from a successful store_file_content "
                        "or from a presence-checked basis entry")
    n = 0
    for bb, j, s in rules.agg_sites(cfb, "index::entry::IndexEntry"):
        n += 1
        aop = rules.field_operand(s, "addrs")
        orig = flow.origins_x(lib, cfb, aop)
        calls = flow.origin_calls(orig)
        params = {(p[1], tuple(p[2])) for p in orig if p[0] == "param"}
        site = "%s:%d" % (cfb.file, s["line"])
        if calls == {"backup::store_file_content"} and not params:
            order_after_success(ck, ck.ob("C03.3d.store", "entry with new addresses is built after ok(store_file_content)"),
                                cfb, events_of(lib, cfb, "backup::store_file_content"), [bb],
                                "store_file_content", "IndexEntry{addrs}")
        elif not calls - {"index::entry::IndexEntry::metadata_from"} and params and all(
                p[0] == "basis_entry" and "addrs" in p[1] for p in params):
            # presence check: `.all(|a| block_dir.contains(..))` must have returned true
            alls = common.presence_guards(w, cfb)
            closure_ok = bool(alls)
            g1 = ck.ob("C03.3d.reuse", "basis addresses are reused only when all(|a| block_dir.contains(a.hash)) was true")
            if not closure_ok:
                ck.fail(g1, cfb.name, "no contains() presence test", "no Iterator::all over BlockDir::contains found", site)
            else:
                pe_ = set()
                for g_ in alls:
                    pe_ |= g_.true_edges
                if not pe_:
                    ck.fail(g1, cfb.name, "all(contains) result not branched on", "the result of the presence test does not control a branch in copy_file", alls[0].site())
                elif not cfb.must_pass_edges(pe_, bb):
                    ck.fail(g1, cfb.name, "reuse of basis addrs not guarded by all(contains)==True",
                            "reuse of basis addrs is reachable without all(contains) being True: %s" % rules.witness(cfb, bb, removed_edges=pe_), site)
                else:
                    ck.ok(g1, "1 target(s) behind all(contains)==True", sites=[g_.site() for g_ in alls], instances=1)
        else:
            ck.fail(o, cfb.name, "IndexEntry.addrs from unexpected source",
                    "addrs derives from %s" % flow.origin_summary(orig), site)
    ck.floor("C03.3d.n", "IndexEntry constructions with explicit addrs in copy_file", n, 2)
    if o.status == "open":
        ck.ok(o, instances=n)

    # 3c: drain before finish_hunk; finished only filled after a successful store
    fg = w.body("backup::BackupWriter::flush_group")
    o = ck.ob("C03.3c", "flush_group: the combiner is drained (blocks stored) before finish_hunk writes the hunk")
    # (drain may have been merged into flush_group, its only caller: then the flush itself is the event, and the hand-out
    # of `finished` is looked for in flush_group)
    has_drain = lib.main_body("backup::FileCombiner::drain") is not None
    drain_fn = "backup::FileCombiner::drain" if has_drain else "backup::FileCombiner::flush"
    order_after_success(ck, o, fg, events_of(lib, fg, drain_fn),
                        events_of(lib, fg, "index::write::IndexWriter::finish_hunk"), "FileCombiner::" + drain_fn.rsplit("::", 1)[1], "finish_hunk")
    dr = w.body("backup::FileCombiner::drain") if has_drain else fg
    o = ck.ob("C03.3c.drain", "drain: the finished entries are handed out only after flush succeeded")
    takes = field_events(w, dr, r"^std::mem::take$", "finished")
    order_after_success(ck, o, dr, events_of(lib, dr, "backup::FileCombiner::flush"), takes, "flush", "take(finished)")
    fl = w.body("backup::FileCombiner::flush")
    o = ck.ob("C03.3c.flush", "flush: queued files move to `finished` only after the combined block was stored")
    ext = field_events(w, fl, r"Extend<.*>>::extend$|^std::vec::Vec::<T, A>::(push|append|extend_from_slice)$", "finished")
    order_after_success(ck, o, fl, events_of(lib, fl, STORE), ext, "store_or_deduplicate", "finished.extend")
    # who else touches `finished`?
    o = ck.ob("C03.3c.who", "only FileCombiner::{new,drain,flush,push_file} touch FileCombiner.finished; push_file adds only address-less entries")
    touch = set()
    for b in rules.user_bodies(lib):
        for e in b.events:
            if e.bb in b.live and e.args and re.search(r"Vec::<T, A>::(push|append|extend|insert)|Extend<.*>>::extend|mem::(take|replace|swap)$", e.name):
                for oo in flow.origins_x(lib, b, e.args[0]):
                    path = oo[2] if oo[0] in ("param", "upvar") else ()
                    if "finished" in path:
                        touch.add(b.root)
    allowed = {"backup::FileCombiner::drain", "backup::FileCombiner::flush", "backup::FileCombiner::push_file"}
    if not has_drain:
        allowed.add("backup::BackupWriter::flush_group")
    extra = touch - allowed
    if extra:
        ck.fail(o, ",".join(sorted(extra)), "unexpected writer of FileCombiner.finished",
                "bodies %s modify FileCombiner.finished" % sorted(extra))
    else:
        pf = w.body("backup::FileCombiner::push_file")
        bad = False
        pushes = field_events(w, pf, r"^std::vec::Vec::<T, A>::push$", "finished")
        for e in pushes:
            orig = flow.origins_x(lib, pf, e.args[1])
            if flow.origin_calls(orig) != {"index::entry::IndexEntry::metadata_from"}:
                bad = True
                ck.fail(o, pf.name, "push to finished not straight from metadata_from",
                        "pushed entry derives from %s" % flow.origin_summary(orig), e.site())
        if not bad:
            ck.ok(o, "writers=%s; %d address-less push(es) in push_file" % (sorted(touch), len(pushes)), instances=len(touch))

    # ---- 4. hunks before tail; tail last ----------------------------------------------------
    fin = w.body("backup::BackupWriter::finish")
    closes = events_of(lib, fin, "band::Band::close")
    o = ck.ob("C03.4a", "BackupWriter::finish: flush_group succeeded before Band::close")
    order_after_success(ck, o, fin, events_of(lib, fin, "backup::BackupWriter::flush_group"), closes, "flush_group", "Band::close")
    o = ck.ob("C03.4b", "BackupWriter::finish: IndexWriter::finish succeeded before Band::close")
    order_after_success(ck, o, fin, events_of(lib, fin, "index::write::IndexWriter::finish"), closes, "IndexWriter::finish", "Band::close")
    common.finish_only_when_exhausted(ck, w, "C03.4g")
    iwf = w.body("index::write::IndexWriter::finish")
    o = ck.ob("C03.4c", "IndexWriter::finish: the last hunk is written (finish_hunk ok) before it reports the count")
    rets = [bb for bb, j, s in rules.agg_sites(iwf, "std::result::Result", "Ok") if s["pl"]["l"] == 0]
    order_after_success(ck, o, iwf, events_of(lib, iwf, "index::write::IndexWriter::finish_hunk"), rets, "finish_hunk", "return Ok(hunks_written)")

    o = ck.ob("C03.4d", "only Band::close writes BANDTAIL, and only BackupWriter::finish calls Band::close")
    tail_writers = set()
    for b in rules.user_bodies(lib):
        if write_json_sites(w, b, "BANDTAIL"):
            tail_writers.add(b.root)
    close_callers = set()
    for key, b in g.bodies.items():
        if not b.file.startswith("src/"):
            continue
        for e in b.events:
            if e.bb in b.live and (e.resolved or e.callee or "").replace("conserve::", "") == "band::Band::close":
                close_callers.add(b.root)
    if tail_writers != {"band::Band::close"}:
        ck.fail(o, ",".join(sorted(tail_writers)) or "-", "BANDTAIL writers differ", "BANDTAIL is written by %s" % sorted(tail_writers))
    elif close_callers != {"backup::BackupWriter::finish"}:
        ck.fail(o, ",".join(sorted(close_callers)) or "-", "Band::close callers differ", "Band::close is called by %s" % sorted(close_callers))
    else:
        ck.ok(o, "tail writer=Band::close, caller=BackupWriter::finish", instances=2)

    o = ck.ob("C03.4e", "in backup(): no archive write or mkdir is reachable after BackupWriter::finish")
    fins = events_of(lib, bk, "backup::BackupWriter::finish")
    if not fins:
        ck.fail(o, bk.name, "no finish event", "backup() never awaits BackupWriter::finish")
    else:
        none_after(ck, o, bk, fins, lambda e: bool({"T_WRITE", "T_MKDIR"} & g.event_effects(lib, e)), "archive write")
    o = ck.ob("C03.4f", "in BackupWriter::finish: nothing is written after Band::close")
    none_after(ck, o, fin, closes, lambda e: bool({"T_WRITE", "T_MKDIR"} & g.event_effects(lib, e)), "archive write")

    # ---- 5. present-set honesty ------------------------------------------------------------
    o = ck.ob("C03.5.who", "BlockDir.exists is modified only in store_or_deduplicate, get_block_content, delete_block (and built in open)")
    mods = {}
    for b in rules.user_bodies(lib):
        evs = field_events(w, b, r"^std::sync::RwLock::<T>::write$", "exists")
        if evs:
            mods[b.root] = evs
    allowed = {"blockdir::BlockDir::store_or_deduplicate", "blockdir::BlockDir::get_block_content", "blockdir::BlockDir::delete_block"}
    if set(mods) - allowed:
        ck.fail(o, ",".join(sorted(set(mods) - allowed)), "unexpected writer of BlockDir.exists",
                "BlockDir.exists is write-locked in %s" % sorted(set(mods) - allowed))
    elif not {"blockdir::BlockDir::store_or_deduplicate"} <= set(mods):
        ck.fail(o, "blockdir::BlockDir::store_or_deduplicate", "exists not updated after store",
                "store_or_deduplicate no longer records the new block as present")
    else:
        ck.ok(o, "writers=%s" % sorted(mods), instances=len(mods))

    sd = w.body(STORE)
    o = ck.ob("C03.5.store", "store_or_deduplicate: the block is recorded as present / cached only after Transport::write succeeded")
    ins = [e for e in sd.events if e.bb in sd.live and re.search(r"HashSet::<T, S, A>::insert$|LruCache::<K, V, S>::(put|push)$", e.name)]
    order_after_success(ck, o, sd, events_of(lib, sd, T_WRITE), ins, "Transport::write", "exists.insert/cache.put")

    gb = w.body("blockdir::BlockDir::get_block_content")
    o = ck.ob("C03.5.read", "get_block_content: a block is recorded as present only after its hash was verified")
    ins = [e for e in gb.events if e.bb in gb.live and re.search(r"HashSet::<T, S, A>::insert$", e.name)]
    tests = rules.eq_tests(gb, r"blockhash::BlockHash")
    if not ins:
        ck.ok(o, "no insert into exists on the read path", instances=0)
    elif not tests:
        ck.fail(o, gb.name, "no hash comparison", "get_block_content no longer compares the content hash with the name")
    else:
        edges = set()
        for e, pol in tests:
            edges |= rules.bool_switch_edges(gb, e, pol)
        bad = [e for e in ins if not gb.must_pass_edges(edges, e.bb)]
        if bad:
            ck.fail(o, gb.name, "exists.insert not guarded by hash equality",
                    "insert reachable without the hash comparison succeeding: %s" % rules.witness(gb, bad[0].bb, removed_edges=edges), bad[0].site())
        else:
            ck.ok(o, "%d insert(s) behind hash==name" % len(ins), sites=[e.site() for e, _ in tests], instances=len(ins))

    common.list_blocks_present_set(ck, w, "C03.5.list", "C03.5.list0")

    op = w.body("blockdir::BlockDir::open")
    o = ck.ob("C03.5.open", "BlockDir::open initialises the present set from list_blocks")
    okk = False
    for bb, j, s in rules.agg_sites(op, "blockdir::BlockDir"):
        orig = flow.origins_x(lib, op, rules.field_operand(s, "exists"), through_calls=[r"^std::sync::RwLock::<T>::new$"])
        if "blockdir::list_blocks" in flow.origin_calls(orig):
            okk = True
    if okk:
        ck.ok(o)
    else:
        ck.fail(o, op.name, "exists not from list_blocks", "BlockDir.exists is not initialised from list_blocks")

    # ---- 6. hunk bookkeeping after success ---------------------------------------------------
    fh = w.body("index::write::IndexWriter::finish_hunk")
    writes = events_of(lib, fh, T_WRITE)
    o = ck.ob("C03.6", "finish_hunk: sequence/hunks_written advance and entries are cleared only after the hunk write succeeded")
    targets = []
    for bb, j, s in fh.all_assigns():
        p = s["pl"]["p"]
        if any(x.startswith("f:") and x.split(":", 2)[2] in ("sequence", "hunks_written") for x in p):
            targets.append(bb)
    clears = field_events(w, fh, r"^std::vec::Vec::<T, A>::(clear|truncate|drain)$", "entries")
    ck.floor("C03.6.n", "counter updates + entries.clear in finish_hunk", len(targets) + len(clears), 3)
    order_after_success(ck, o, fh, writes, targets + clears, "Transport::write", "sequence/hunks_written/clear")
