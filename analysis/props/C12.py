"""C12 - Selecting a subtree returns exactly that subtree."""
import re

from cv import flow, rules
from cv.rules import events_of

from props import common

TITLE = "Selecting a subtree returns exactly that subtree"
TECHNIQUE = 'static analysis: unit rule (byte length vs character index), guard analysis of the subtree filter with operand provenance, identity plumbing of the subtree parameter'
EXPLANATION = (
    "Decided: (1) UNIT - crate-wide, a byte length (str::len / String::len) is never used as a character index "
    "(Iterator::nth/skip/take on Chars or CharIndices) and a character count is never used as a byte index: for "
    "any ancestor containing a multi-byte character the ancestor test would otherwise both miss descendants and "
    "admit textual siblings; (2) GUARD - in Stitch::next an entry is returned only if "
    "self.subtree.is_prefix_of(&entry.apath) was true (receiver and argument in that order) and "
    "self.exclude.matches(&entry.apath) was false; (3) PROV - the subtree given to restore / iter_entries reaches "
    "Stitch.subtree unchanged."
    " Added: is_prefix_of uses no API that strips repeatedly / searches elsewhere / folds case (C12.1c); the subtree filter may be the per-entry test or a per-hunk retain with the same predicate (C12.2); restore_dir creates all missing parents (C12.2c)."
)
UNDECIDED = ["that is_prefix_of is exactly 'ancestor-or-self by whole components' for all strings (value-level; after the unit rule the remaining logic is starts_with + separator test)",
             "identity of the restored files under S with those of a full restore (run-time)"]
ASSUMPTIONS = []

BYTE_LEN = re.compile(r"^core::str::<impl str>::len$|^std::string::String::len$|^std::str::<impl str>::len$")
CHAR_COUNT = re.compile(r"Iterator::count$")


def run(ck, w):
    lib = w.lib

    # ---- 1. UNIT -------------------------------------------------------------------------------
    o = ck.ob("C12.1", "no byte length is used as a character index (and no character count as a byte index) anywhere in the crate")
    n_char_idx = 0
    bad = []
    for b in rules.user_bodies(lib):
        if rules.is_derive_body(b):
            continue
        for e in b.events:
            if e.bb not in b.live:
                continue
            if re.search(r"Iterator::(nth|skip|take|nth_back)$|Iterator>::(nth|skip|take)$", e.callee or "") and e.args:
                rty = b.locals[e.args[0]["pl"]["l"]] if e.args[0].get("k") != "const" else ""
                if "std::str::Chars" in rty or "std::str::CharIndices" in rty:
                    n_char_idx += 1
                    if len(e.args) > 1:
                        orig = flow.origins(b, e.args[1])
                        if any(x[0] == "call" and BYTE_LEN.search(x[1]) for x in orig):
                            bad.append((b, e, "byte length used as a character index in %s" % e.name.split("::")[-1]))
            if re.search(r"ops::Index<.*::index$|<impl str>::(get|split_at|is_char_boundary)$|as_bytes", e.name) and len(e.args) > 1:
                rty = b.locals[e.args[0]["pl"]["l"]] if e.args[0].get("k") != "const" else ""
                if "str" in rty or "String" in rty:
                    orig = flow.origins(b, e.args[1])
                    for x in orig:
                        if x[0] == "call" and CHAR_COUNT.search(x[1]):
                            # is the count over chars?
                            bad.append((b, e, "character count used as a byte index"))
    if bad:
        for b, e, msg in bad:
            ck.fail(o, b.root, msg, "%s: multi-byte characters make the two units differ" % msg, e.site())
    else:
        ck.ok(o, "%d character-indexing call(s) checked" % n_char_idx, instances=n_char_idx)
    ip = w.raw("apath::Apath::is_prefix_of")
    o = ck.ob("C12.1b", "Apath::is_prefix_of still decides by starts_with plus a separator test at the prefix boundary")
    sw = [e for e in ip.events if e.bb in ip.live and re.search(r"<impl str>::(starts_with|strip_prefix)$", e.name)]
    if sw:
        ck.ok(o, sites=[sw[0].site()])
    else:
        ck.fail(o, ip.name, "starts_with removed", "is_prefix_of no longer tests starts_with")

    o = ck.ob("C12.1c", "Apath::is_prefix_of tests starts_with(candidate, self) and looks at the single position right after the prefix: no API that "
                        "strips a pattern repeatedly, searches elsewhere in the string or folds case")
    fam = lib.family("apath::Apath::is_prefix_of")
    wrong = re.compile(r"<impl str>::(trim_start_matches|trim_end_matches|trim_matches|trim_left_matches|trim_right_matches|replace|replacen|contains|"
                       r"rfind|rsplit|rsplitn|rsplit_once|split_once|matches|match_indices|rmatch_indices|eq_ignore_ascii_case|to_lowercase|to_uppercase|"
                       r"to_ascii_lowercase|to_ascii_uppercase|trim|trim_start|trim_end)$|<impl \[u8\]>::(eq_ignore_ascii_case|to_ascii_lowercase)$")
    bad = [(fb, e) for fb in fam for e in fb.events if e.bb in fb.live and wrong.search(e.name)]
    sw_ok = False
    # the prefix test itself: candidate.starts_with(self) or candidate.strip_prefix(self)
    ptests = [e for fb in fam for e in fb.events if e.bb in fb.live and re.search(r"<impl str>::(starts_with|strip_prefix)$", e.name)]
    for e in ptests:
        recv = flow.origins_x(lib, e.body, e.args[0])
        pat = flow.origins_x(lib, e.body, e.args[1]) if len(e.args) > 1 else set()
        if any(x[0] == "param" and x[1] == "a" for x in recv) and any(x[0] == "param" and x[1] == "self" for x in pat):
            sw_ok = True
    if bad:
        fb, e = bad[0]
        ck.fail(o, ip.name, "prefix remainder taken with an API of different meaning",
                "is_prefix_of calls %s, which does not mean 'what follows this one prefix'" % e.name.split("::")[-1], e.site())
    elif not sw_ok:
        ck.fail(o, ip.name, "starts_with operands changed", "no candidate.starts_with(self) / candidate.strip_prefix(self) test", (ptests or sw or [None])[0].site() if (ptests or sw) else None)
    else:
        ck.ok(o)

    # ---- 2. GUARD in Stitch::next -----------------------------------------------------------------
    sn = w.body("index::stitch::Stitch::next")
    o = ck.ob("C12.2", "Stitch::next returns an entry only if subtree.is_prefix_of(entry.apath) was true and exclude.matches(entry.apath) was false")
    # the two tests, called directly or through a private bool helper whose result decides them (`is_selected`)
    pre = rules.predicate_sites(lib, sn, "apath::Apath::is_prefix_of")
    exc = rules.predicate_sites(lib, sn, "excludes::Exclude::matches")
    somes = [bb for bb, j, s in rules.agg_sites(sn, "std::option::Option", "Some")
             if any("IndexEntry" in sn.locals[flow.operand_local(op)] for op in s["rv"]["ops"] if flow.operand_local(op) is not None)
             and s["pl"]["l"] == 0]
    good = True
    retain = common.stitch_retain_idiom(w) if not pre else None
    ee = set()
    for e in exc:
        ee |= e.edges[False]
    if retain is not None and exc and somes:
        # the subtree test is applied to every hunk before it is buffered (retain idiom): only the exclusion test is per entry
        for bb in somes:
            if not ee or not sn.must_pass_edges(ee, bb):
                good = False
                ck.fail(o, sn.name, "entry returned without the exclusion test", "path: %s" % rules.witness(sn, bb, removed_edges=ee))
        er = exc[0].arg_origins(0)
        if not any(x[0] in ("param", "upvar") and "exclude" in x[2] for x in er):
            good = False
            ck.fail(o, sn.name, "exclusion test not on self.exclude", "receiver %s" % flow.origin_summary(er), exc[0].site())
        if good:
            ck.ok(o, "subtree filter applied per hunk with retain(is_prefix_of)", sites=[retain.site(), exc[0].site()], instances=len(somes))
            good = False    # already reported
    elif not pre or not exc or not somes:
        good = False
        ck.fail(o, sn.name, "filter missing", "is_prefix_of=%d matches=%d returns=%d" % (len(pre), len(exc), len(somes)))
    else:
        pe = set()
        for e in pre:
            pe |= e.edges[True]
        for bb in somes:
            if not pe or not sn.must_pass_edges(pe, bb):
                good = False
                ck.fail(o, sn.name, "entry returned without the subtree test", "path: %s" % rules.witness(sn, bb, removed_edges=pe))
            if not ee or not sn.must_pass_edges(ee, bb):
                good = False
                ck.fail(o, sn.name, "entry returned without the exclusion test", "path: %s" % rules.witness(sn, bb, removed_edges=ee))
        # receiver / argument order
        r = pre[0].arg_origins(0)
        a = pre[0].arg_origins(1)
        recv_sub = any(x[0] in ("param", "upvar") and "subtree" in x[2] for x in r)
        arg_entry = any((x[0] == "call" and "apath" in x[3]) or (x[0] in ("param", "upvar") and "apath" in x[2] and "subtree" not in x[2]) for x in a) and \
            not any(x[0] in ("param", "upvar") and "subtree" in x[2] for x in a)
        if not (recv_sub and arg_entry):
            good = False
            ck.fail(o, sn.name, "is_prefix_of operands swapped or changed",
                    "receiver %s, argument %s" % (flow.origin_summary(r), flow.origin_summary(a)), pre[0].site())
        er = exc[0].arg_origins(0)
        if not any(x[0] in ("param", "upvar") and "exclude" in x[2] for x in er):
            good = False
            ck.fail(o, sn.name, "exclusion test not on self.exclude", "receiver %s" % flow.origin_summary(er), exc[0].site())
    if good:
        ck.ok(o, sites=[pre[0].site(), exc[0].site()], instances=len(somes))

    o = ck.ob("C12.2c", "restore_dir creates the directory with ALL its missing parents (create_dir_all on the path it was given): a subtree "
                        "selected at any depth can be restored into an empty destination")
    rd = lib.bodies.get("restore::restore_dir")
    if rd is None:
        ck.fail(o, "restore::restore_dir", "anchor-missing", "restore_dir not found")
    else:
        fam = lib.family("restore::restore_dir")
        cda = [(fb, e) for fb in fam for e in fb.events if e.bb in fb.live and re.search(r"^(std|tokio)::fs::create_dir_all$|DirBuilder::recursive$", e.name)]
        single = [(fb, e) for fb in fam for e in fb.events if e.bb in fb.live and re.search(r"^(std|tokio)::fs::create_dir$", e.name)]
        if single and not cda:
            ck.fail(o, rd.name, "parents are not created recursively", "restore_dir uses create_dir, which does not create missing ancestors", single[0][1].site())
        elif not cda:
            ck.fail(o, rd.name, "no directory creation", "restore_dir does not create the directory")
        else:
            src = flow.origins_x(lib, cda[0][0], cda[0][1].args[0])
            if any(x[0] == "param" and x[1] in ("restore_path", "path") for x in src) or any(x[0] == "param" for x in src):
                ck.ok(o, sites=[cda[0][1].site()])
            else:
                ck.fail(o, rd.name, "creates another path", "create_dir_all argument derives from %s" % flow.origin_summary(src), cda[0][1].site())

    # ---- 3. PROV plumbing ----------------------------------------------------------------------------
    o = ck.ob("C12.3a", "restore(): the subtree given to iter_entries is options.only_subtree, else the root")
    rb = w.body("restore::restore")
    ie = rules.creators_of(rb, "stored_tree::StoredTree::iter_entries")
    if not ie:
        ck.fail(o, rb.name, "no iter_entries", "restore() does not iterate the stored tree")
    else:
        orig = flow.origins_x(lib, rb, ie[0].args[1], through_calls=[r"Option::<T>::unwrap_or_else$", r"Option::<T>::unwrap_or$"])
        uo = [e for e in rb.events if e.bb in rb.live and re.search(r"Option::<T>::unwrap_or(_else)?$", e.name)]
        root_default = any(a.get("fn") == "apath::Apath::root" for e in uo for a in e.args) or \
            any("apath::Apath::root" in flow.origin_calls(flow.origins_x(lib, rb, a)) for e in uo for a in e.args[1:])
        if any(x[0] in ("param", "upvar") and "only_subtree" in x[2] for x in orig) and root_default:
            ck.ok(o, sites=[ie[0].site()])
        else:
            ck.fail(o, rb.name, "subtree not from options.only_subtree", "subtree derives from %s (root default=%s)" % (flow.origin_summary(orig), root_default), ie[0].site())
    for rid, fn, callee, idx in (
        ("C12.3b", "archive::Archive::iter_entries", "stored_tree::StoredTree::iter_entries", 1),
        ("C12.3c", "stored_tree::StoredTree::iter_entries", "index::stitch::Stitch::new", 2),
    ):
        o = ck.ob(rid, "%s forwards its subtree parameter unchanged to %s" % (fn.split("::", 1)[1], callee.split("::", 1)[1]))
        b = w.body(fn)
        cs = rules.creators_of(b, callee)
        if not cs:
            ck.fail(o, fn, "no %s call" % callee, "%s not called" % callee)
            continue
        orig = flow.origins_x(lib, b, cs[0].args[idx])
        names = {x[1] for x in orig if x[0] == "param"}
        other = [x for x in orig if x[0] not in ("param", "via")]
        if names == {"subtree"} and not other:
            ck.ok(o, sites=[cs[0].site()])
        else:
            ck.fail(o, fn, "subtree not forwarded by identity", "argument derives from %s" % flow.origin_summary(orig), cs[0].site())
    o = ck.ob("C12.3d", "Stitch::new stores its subtree and exclude parameters in the Stitch")
    nb = w.raw("index::stitch::Stitch::new")
    good = False
    for bb, j, s in rules.agg_sites(nb, "index::stitch::Stitch"):
        so = flow.origins_x(lib, nb, rules.field_operand(s, "subtree"))
        eo = flow.origins_x(lib, nb, rules.field_operand(s, "exclude"))
        if {x[1] for x in so if x[0] == "param"} == {"subtree"} and {x[1] for x in eo if x[0] == "param"} == {"exclude"}:
            good = True
    if good:
        ck.ok(o)
    else:
        ck.fail(o, nb.name, "Stitch::new does not keep its filter parameters", "subtree/exclude fields not from the parameters")
    common.cli_option(ck, w, "C12.3e", "RestoreOptions", "only_subtree", ("param", "only_subtree"))
    common.stitch_drops_only_filtered(ck, w, "C12.2b")
