"""C13 - Everything written conforms to the documented archive format."""
import os
import re

from cv import inline, extract, flow, rules
from cv.rules import events_of, order_after_success
from props.C03 import const_strings
from props import common

TITLE = "Everything written conforms to the documented archive format"
TECHNIQUE = 'static analysis: evaluated format constants, decoded format_args! templates (path shapes), identity provenance of counts, names and addresses'
EXPLANATION = (
    "An independent decoder over all histories is run-time. Decided is writer-side provenance and the constant "
    "table: (1) the format constants have the documented values and doc/format.md names them; readers and writers "
    "of hunks (blocks) derive paths through the one hunk_relpath (block_relpath); (2) a hunk is written only when "
    "it has entries, numbered by the monotone sequence (C07.4) after sorting (C11.2); (3) the count in the tail is, "
    "by identity, IndexWriter::finish's result, which is hunks_written, incremented by one exactly where a hunk "
    "write succeeded; (4) a block's path is block_relpath(hash_bytes(data)) and its bytes are compress(data) of the "
    "same data, block_relpath = first SUBDIR_NAME_CHARS of the hex name + '/' + name; (5) addresses: start 0 and "
    "len = buffer.len() for whole blocks, start = buf.len() before the append and len = bytes read for combined "
    "files; (6) only the Kind::File path builds entries with addresses, only symlink_target() fills target."
    " Added in later rounds: consecutive hunk numbering from the writer's sequence (C13.2c), the per-10000 subdirectory guard and path (C13.2d), who may close a hunk (C13.2e), nothing resets the combine buffer between taking `start` and appending (C13.5b)."
)
UNDECIDED = ["'lengths sum to the file size' and strict ordering across hunks for all layouts (values)",
             "independent decoding of every archive in every history"]
ASSUMPTIONS = []

CONSTS = {
    "index::HUNKS_PER_SUBDIR": (10000, "10000"),
    "blockdir::SUBDIR_NAME_CHARS": (3, "three hex"),
    "BLAKE_HASH_SIZE_BYTES": (64, None),
    "ARCHIVE_VERSION": ("0.6", "\"conserve_archive_version\": \"0.6\""),
    "archive::HEADER_FILENAME": ("CONSERVE", "`CONSERVE`"),
    "BAND_HEAD_FILENAME": ("BANDHEAD", "`BANDHEAD`"),
    "BAND_TAIL_FILENAME": ("BANDTAIL", "`BANDTAIL`"),
    "gc_lock::GC_LOCK": ("GC_LOCK", "`GC_LOCK`"),
    "archive::BLOCK_DIR": ("d", None),
    "band::INDEX_DIR": ("i", None),
}


def run(ck, w):
    lib = w.lib
    g = w.graph

    # ---- 1. constant table -----------------------------------------------------------------------
    doc = ""
    try:
        doc = open(os.path.join(extract.repo_dir(), "doc", "format.md")).read()
    except OSError:
        pass
    o = ck.ob("C13.1a", "format constants have the documented values (and doc/format.md mentions them)")
    good = True
    for path, (val, doc_tok) in sorted(CONSTS.items()):
        have = lib.const_value(path)
        if have is None:
            good = False
            ck.fail(o, path, "anchor-missing", "constant %s not found" % path)
        elif have != val:
            good = False
            ck.fail(o, path, "format constant changed", "%s = %r, format 0.6 says %r" % (path, have, val))
        elif doc and doc_tok and doc_tok not in doc:
            good = False
            ck.fail(o, path, "doc/format.md no longer documents the value", "token %r not found in doc/format.md" % doc_tok)
    if good:
        ck.ok(o, "%d constants" % len(CONSTS), instances=len(CONSTS))
    o = ck.ob("C13.1b", "index hunks are located only through hunk_relpath, by the reader and the writer")
    users = {b.root for b in rules.user_bodies(lib) for e in b.events if e.bb in b.live and e.name == "index::hunk_relpath"}
    need = {"index::IndexRead::read_hunk", "index::write::IndexWriter::finish_hunk"}
    if need <= users:
        ck.ok(o, "users=%s" % sorted(users), instances=len(users))
    else:
        ck.fail(o, "index::hunk_relpath", "reader/writer no longer share hunk_relpath", "users=%s" % sorted(users))
    o = ck.ob("C13.1c", "block files are located only through block_relpath, by readers, writer and deleter")
    users = {b.root for b in rules.user_bodies(lib) if b.file == "src/blockdir.rs" and common.block_path_sites(w, b)}
    need = {"blockdir::BlockDir::store_or_deduplicate", "blockdir::BlockDir::get_block_content", "blockdir::get_async_uncached", "blockdir::BlockDir::delete_block"}
    if need <= users:
        ck.ok(o, "users=%s" % sorted(users), instances=len(users))
    else:
        ck.fail(o, "blockdir::block_relpath", "block path users changed", "missing %s" % sorted(need - users))
    o = ck.ob("C13.1d", "block_relpath takes the first SUBDIR_NAME_CHARS of the block's own hex name as the subdirectory (hunk paths: see C13.1e)")
    good = True
    sb = lib.bodies.get("blockdir::subdir_relpath")
    rt = [s for bb, j, s in (sb.all_assigns() if sb else []) if s["rv"]["rk"] == "agg" and "RangeTo" in (s["rv"].get("adt") or "") and
          any(op.get("uneval") == "blockdir::SUBDIR_NAME_CHARS" for op in s["rv"]["ops"])]
    br = lib.bodies.get("blockdir::block_relpath")
    if not rt or br is None or not [e for e in br.events if e.name == "blockdir::subdir_relpath"]:
        good = False
        ck.fail(o, "blockdir::block_relpath", "block subdirectory is not the first SUBDIR_NAME_CHARS of the name", "prefix slicing changed")
    else:
        # both format arguments derive from the same hex string of the hash
        ts = [e for e in br.events if e.bb in br.live and e.name.endswith("ToString>::to_string")]
        sr = [e for e in br.events if e.name == "blockdir::subdir_relpath"][0]
        so = flow.origins(br, sr.args[0])
        if not ts or not any(x[0] in ("call", "via") and x[1].endswith("to_string") for x in so):
            good = False
            ck.fail(o, "blockdir::block_relpath", "subdirectory not derived from the block's own name", "subdir_relpath arg from %s" % flow.origin_summary(so))
    if good:
        ck.ok(o)

    o = ck.ob("C13.1e", "path shapes: hunk = {hunk/HUNKS_PER_SUBDIR:05}/{hunk:09}, subdir = {..:05}, band directory = b{id:04}, block = prefix/name")
    from cv import fmtshape
    problems = []
    hs = fmtshape.shape(lib, "index::hunk_relpath")
    ss = fmtshape.shape(lib, "index::subdir_relpath")
    bs = fmtshape.shape(lib, "<bandid::BandId as std::fmt::Display>::fmt")
    ks = fmtshape.shape(lib, "blockdir::block_relpath")

    def is_arg(p, width, what):
        return p[0] == "arg" and p[1] == width and (p[2] is True or width is None) and all(t in p[3] for t in what)
    if not (hs and len(hs) == 3 and is_arg(hs[0], 5, ["hunk_number", "HUNKS_PER_SUBDIR"]) and hs[1] == ("lit", "/") and is_arg(hs[2], 9, ["hunk_number"])
            and "HUNKS_PER_SUBDIR" not in hs[2][3]):
        problems.append(("index::hunk_relpath", "hunk path shape is %s" % (hs,)))
    if not (ss and len(ss) == 1 and is_arg(ss[0], 5, ["hunk_number", "HUNKS_PER_SUBDIR"])):
        problems.append(("index::subdir_relpath", "hunk subdirectory shape is %s" % (ss,)))
    if not (bs and len(bs) == 2 and bs[0] == ("lit", "b") and is_arg(bs[1], 4, ["self"])):
        problems.append(("bandid::BandId::fmt", "band directory name shape is %s" % (bs,)))
    if not (ks and len(ks) == 3 and ks[0][0] == "arg" and "subdir_relpath" in ks[0][3] and ks[1] == ("lit", "/") and ks[2][0] == "arg" and ks[2][3] == "hash"):
        problems.append(("blockdir::block_relpath", "block path shape is %s" % (ks,)))
    if problems:
        for fn, m in problems:
            ck.fail(o, fn, "path format changed", m)
    else:
        ck.ok(o, "hunk=%s band=%s" % (hs, bs), instances=4)

    # ---- 2. hunks non-empty -----------------------------------------------------------------------------
    fh = w.body("index::write::IndexWriter::finish_hunk")
    o = ck.ob("C13.2", "finish_hunk writes a hunk only when there are entries to write")
    wr = events_of(lib, fh, "transport::Transport::write")
    ne_edges = rules.nonempty_edges(fh, lambda op: any("entries" in (x[2] if x[0] in ("param", "upvar") else ()) for x in flow.origins_x(lib, fh, op)))
    if not ne_edges:
        ck.fail(o, fh.name, "no entries.is_empty() test", "finish_hunk never tests self.entries for emptiness (is_empty(), or len() against a constant)")
    elif not wr:
        ck.fail(o, fh.name, "no hunk write", "Transport::write not found in finish_hunk")
    else:
        bad_ = [e for e in wr if not fh.must_pass_edges(ne_edges, e.bb)]
        if bad_:
            ck.fail(o, fh.name, "hunk write not guarded by entries.is_empty()==False",
                    "the hunk write is reachable with no entries queued: %s" % rules.witness(fh, bad_[0].bb, removed_edges=ne_edges), bad_[0].site())
        else:
            ck.ok(o, "%d write(s) behind a non-emptiness test of self.entries" % len(wr), instances=len(wr))
    o = ck.ob("C13.2b", "the hunk body is the serialisation of self.entries, compressed")
    cr = rules.creators_of(fh, "transport::Transport::write")
    if cr:
        orig = flow.origins_x(lib, fh, cr[0].args[2], through_calls=[r"^serde_json::to_vec$", r"Try>?::branch$"], through_all=[r"Compressor::compress$"])
        calls = flow.origin_calls(orig)
        via = {x[1] for x in orig if x[0] == "via"}
        ent = any("entries" in (x[2] if x[0] in ("param", "upvar") else ()) for x in orig)
        if any("Compressor::compress" in v for v in via) and any("serde_json::to_vec" in v for v in via) and ent:
            ck.ok(o)
        else:
            ck.fail(o, fh.name, "hunk body provenance changed", "written bytes derive from %s" % flow.origin_summary(orig))
    else:
        ck.fail(o, fh.name, "no hunk write", "no Transport::write in finish_hunk")

    # ---- 2c/2d. consecutive numbering and the per-10000 subdirectory -------------------------------------
    o = ck.ob("C13.2c", "hunks are numbered consecutively from zero: the hunk path is hunk_relpath(self.sequence); sequence starts at 0 and is "
                        "incremented by exactly one, only in finish_hunk, after the hunk write succeeded")
    problems = []
    hr = [e for e in fh.events if e.bb in fh.live and e.name == "index::hunk_relpath"]
    if not hr or not any(any(x[0] in ("param", "upvar") and "sequence" in x[2] for x in flow.origins_x(lib, fh, e.args[0])) for e in hr):
        problems.append("the hunk path is not hunk_relpath(self.sequence)")
    if cr:
        psrc = flow.origins_x(lib, fh, cr[0].args[1])
        if "index::hunk_relpath" not in flow.origin_calls(psrc):
            problems.append("the written path does not come from hunk_relpath")
    seq_writers = {}
    for b in rules.user_bodies(lib):
        if rules.is_derive_body(b) or "IndexWriter" not in (b.self_ty or ""):
            continue
        for bb, j, st in b.all_assigns():
            if any(x.startswith("f:") and x.split(":", 2)[2] == "sequence" for x in st["pl"]["p"]):
                seq_writers.setdefault(b.root, []).append((b, bb, st))
    if set(seq_writers) != {"index::write::IndexWriter::finish_hunk"}:
        problems.append("sequence is assigned in %s" % (sorted(seq_writers) or "no function"))
    else:
        for b, bb, st in seq_writers["index::write::IndexWriter::finish_hunk"]:
            if not rules.is_increment_by_one(b, st):
                problems.append("sequence update is not += 1")
            else:
                edges_, hows_, missing_ = rules.success_edges_union(b, events_of(lib, b, "transport::Transport::write"))
                if not edges_ or not b.must_pass_edges(edges_, bb):
                    problems.append("sequence advances without a successful hunk write")
    nw_ = w.raw("index::write::IndexWriter::new")
    if not any((rules.field_operand(st, "sequence") or {}).get("int") == "0" for bb, j, st in rules.agg_sites(nw_, "index::write::IndexWriter")):
        problems.append("sequence is not initialised to 0")
    if problems:
        for m_ in problems:
            ck.fail(o, fh.name, m_, m_)
    else:
        ck.ok(o)
    o = ck.ob("C13.2d", "the index subdirectory of a hunk is created, from the same sequence number, exactly when sequence % HUNKS_PER_SUBDIR == 0, "
                        "before the hunk is written")
    # a private bool helper holding the test (`hunk.starts_subdir()`) is expanded in a copy of the body first
    fhx, _n = inline.expand_predicates(lib, fh)
    problems = []
    mk = events_of(lib, fhx, "transport::Transport::create_dir")
    rems = []
    for bb, j, st in fhx.all_assigns():
        rv = st["rv"]
        if rv["rk"] == "binop" and rv["op"] == "Rem":
            lhs = flow.origins_x(lib, fhx, rv["ops"][0])
            rhs = rv["ops"][1]
            is_seq = any(x[0] in ("param", "upvar") and "sequence" in x[2] for x in lhs)
            is_hps = (rhs.get("uneval") == "index::HUNKS_PER_SUBDIR") or rhs.get("int") == "10000" or \
                any(x[0] == "const" and x[2] in ("index::HUNKS_PER_SUBDIR", "10000") for x in flow.origins(fhx, rhs))
            if is_seq and is_hps:
                rems.append((bb, st["pl"]["l"]))
    if not mk:
        problems.append("no create_dir in finish_hunk")
    elif not rems:
        problems.append("the subdirectory is not created on sequence % HUNKS_PER_SUBDIR")
    else:
        # the remainder is compared with 0 and create_dir lies behind the `== 0` edge only
        eq_edges = set()
        for bb, j, st in fhx.all_assigns():
            rv = st["rv"]
            if rv["rk"] == "binop" and rv["op"] in ("Eq", "Ne") and len(rv["ops"]) == 2:
                ls = [flow.operand_local(x) for x in rv["ops"]]
                zero = any(x.get("k") == "const" and x.get("int") == "0" for x in rv["ops"])
                if zero and any(l in {r[1] for r in rems} or (l is not None and any(
                        y[0] == "arith" and y[1] == "Rem" for y in flow.origins(fhx, l))) for l in ls):
                    eq_edges |= rules.local_bool_edges(fhx, {st["pl"]["l"]}, rv["op"] == "Eq")
        if not eq_edges:
            problems.append("the remainder is not compared with zero")
        else:
            for e in mk:
                if not fhx.must_pass_edges(eq_edges, e.bb):
                    problems.append("create_dir is not confined to sequence % HUNKS_PER_SUBDIR == 0")
            # and every write on the == 0 side passes create_dir's success
            for e in rules.creators_of(fhx, "transport::Transport::create_dir"):
                dsrc = flow.origins_x(lib, fhx, e.args[1])
                if "index::subdir_relpath" not in flow.origin_calls(dsrc):
                    problems.append("the created directory is not subdir_relpath(..)")
        sr = [e for e in fhx.events if e.bb in fhx.live and e.name == "index::subdir_relpath"]
        if sr and not any(any(x[0] in ("param", "upvar") and "sequence" in x[2] for x in flow.origins_x(lib, fhx, e.args[0])) for e in sr):
            problems.append("subdir_relpath is not given self.sequence")
        if mk and wr:
            edges_, hows_, missing_ = rules.success_edges_union(fhx, mk)
            # on paths that create the directory, the write comes after its success
            for w_ in wr:
                for m_ in mk:
                    if fhx.reaches(w_.bb, m_.bb):
                        problems.append("the hunk is written before its subdirectory is created")
    if problems:
        for m_ in sorted(set(problems)):
            ck.fail(o, fhx.name, m_, m_)
    else:
        ck.ok(o)

    o = ck.ob("C13.2e", "a hunk is closed only by BackupWriter::flush_group (after the combiner's entries were drained into it) and by IndexWriter::finish: "
                        "entries held back for a combined block cannot end up in a later hunk than entries that sort after them")
    fh_callers = set()
    for key, b in g.bodies.items():
        if key.startswith("bin::") or rules.is_derive_body(b):
            continue
        if [e for e in b.events if e.bb in b.live and e.callee != rules.POLL and (e.resolved or e.callee) == "index::write::IndexWriter::finish_hunk"]:
            fh_callers.add(b.root)
    want_callers = {"backup::BackupWriter::flush_group", "index::write::IndexWriter::finish"}
    if not fh_callers:
        ck.fail(o, "index::write::IndexWriter::finish_hunk", "anchor-missing", "finish_hunk has no caller")
    elif fh_callers - want_callers:
        ck.fail(o, ",".join(sorted(fh_callers - want_callers)), "hunk closed outside flush_group",
                "finish_hunk is also called by %s, without draining the file combiner first" % sorted(fh_callers - want_callers))
    else:
        ck.ok(o, "callers=%s" % sorted(fh_callers))

    # ---- 3. tail states the true count -------------------------------------------------------------------
    fin = w.body("backup::BackupWriter::finish")
    o = ck.ob("C13.3a", "the count given to Band::close is, by identity, the value returned by IndexWriter::finish")
    cl = rules.creators_of(fin, "band::Band::close")
    if not cl:
        ck.fail(o, fin.name, "no Band::close", "finish() does not close the band")
    else:
        orig = flow.origins_x(lib, fin, cl[0].args[1])
        arith = [x for x in orig if x[0] == "arith"]
        consts = [x for x in orig if x[0] == "const"]
        if flow.origin_calls(orig) == {"index::write::IndexWriter::finish"} and not arith and not consts:
            ck.ok(o, sites=[cl[0].site()])
        else:
            ck.fail(o, fin.name, "tail count is not IndexWriter::finish's result", "count derives from %s" % flow.origin_summary(orig), cl[0].site())
    iwf = w.body("index::write::IndexWriter::finish")
    o = ck.ob("C13.3b", "IndexWriter::finish returns hunks_written unchanged")
    okr = False
    for bb, j, s in [x for x in rules.agg_sites(iwf, "std::result::Result", "Ok") if x[2]["pl"]["l"] == 0]:
        orig = flow.origins_x(lib, iwf, s["rv"]["ops"][0])
        if any(x[0] in ("param", "upvar") and "hunks_written" in x[2] for x in orig) and not [x for x in orig if x[0] in ("arith", "const", "call")]:
            okr = True
    if okr:
        ck.ok(o)
    else:
        ck.fail(o, iwf.name, "returned count is not hunks_written", "IndexWriter::finish result provenance changed")
    o = ck.ob("C13.3c", "hunks_written is incremented by exactly one, only in finish_hunk, after the hunk write succeeded")
    writers = {}
    for b in rules.user_bodies(lib):
        if rules.is_derive_body(b):
            continue
        for bb, j, s in b.all_assigns():
            if any(x.startswith("f:") and x.split(":", 2)[2] == "hunks_written" for x in s["pl"]["p"]):
                writers.setdefault(b.root, []).append((b, bb, s))
    if set(writers) != {"index::write::IndexWriter::finish_hunk"}:
        ck.fail(o, ",".join(sorted(writers)) or "-", "hunks_written written elsewhere", "writers: %s" % sorted(writers))
    else:
        good = True
        for b, bb, s in writers["index::write::IndexWriter::finish_hunk"]:
            if not rules.is_increment_by_one(b, s):
                good = False
                ck.fail(o, b.name, "hunks_written update is not += 1", "hunks_written is not incremented by exactly one")
            else:
                order_after_success(ck, ck.ob("C13.3c.order", "the increment follows the successful write"), b,
                                    events_of(lib, b, "transport::Transport::write"), [bb], "Transport::write", "hunks_written += 1")
        nw = w.raw("index::write::IndexWriter::new")
        z = False
        for bb, j, s in rules.agg_sites(nw, "index::write::IndexWriter"):
            op = rules.field_operand(s, "hunks_written")
            if op and op.get("k") == "const" and op.get("int") == "0":
                z = True
        if not z:
            good = False
            ck.fail(o, nw.name, "hunks_written not initialised to 0", "IndexWriter::new")
        if good:
            ck.ok(o)
    bc = w.body("band::Band::close")
    o = ck.ob("C13.3d", "Band::close writes Tail{index_hunk_count: Some(count)} to BANDTAIL")
    okt = False
    for bb, j, s in rules.agg_sites(bc, "band::Tail"):
        orig = flow.origins_x(lib, bc, rules.field_operand(s, "index_hunk_count"))
        if any(x[0] in ("param", "upvar") and x[1] == "index_hunk_count" for x in orig) and not [x for x in orig if x[0] == "arith"]:
            okt = True
    if okt:
        ck.ok(o)
    else:
        ck.fail(o, bc.name, "tail count not the parameter", "Tail.index_hunk_count provenance changed")

    # ---- 4. block named by the hash of its content ----------------------------------------------------------
    sd = w.body("blockdir::BlockDir::store_or_deduplicate")
    o = ck.ob("C13.4", "store_or_deduplicate: path = block_relpath(hash_bytes(data)), bytes = compress(data), same data")
    cr = rules.creators_of(sd, "transport::Transport::write")
    if not cr:
        ck.fail(o, sd.name, "no block write", "no Transport::write")
    else:
        po = flow.origins_x(lib, sd, cr[0].args[1], through_calls=[r"^blockhash::BlockHash::hash_bytes$"], through_all=common.FMT_THROUGH)
        if common.block_path_sites(w, sd):
            po = set(po) | {("via", "blockdir::block_relpath")}
        bo = flow.origins_x(lib, sd, cr[0].args[2], through_calls=[r"Try>?::branch$"], through_all=[r"Compressor::compress$"])
        pvia = {x[1] for x in po if x[0] == "via"}
        bvia = {x[1] for x in bo if x[0] == "via"}
        pp = {x[1] for x in po if x[0] in ("param", "upvar")}
        bp = {x[1] for x in bo if x[0] in ("param", "upvar")}
        if "blockdir::block_relpath" in pvia and "blockhash::BlockHash::hash_bytes" in pvia and any("Compressor::compress" in v for v in bvia) \
                and "block_data" in pp and "block_data" in bp:
            ck.ok(o, sites=[cr[0].site()])
        else:
            ck.fail(o, sd.name, "block name / content provenance changed",
                    "path from %s; bytes from %s" % (flow.origin_summary(po), flow.origin_summary(bo)), cr[0].site())
    hb = lib.bodies.get("blockhash::BlockHash::hash_bytes")
    o = ck.ob("C13.4b", "hash_bytes is BLAKE2b with BLAKE_HASH_SIZE_BYTES output over exactly its argument")
    if hb is None:
        ck.fail(o, "blockhash::BlockHash::hash_bytes", "anchor-missing", "not found")
    else:
        bl = [e for e in hb.events if e.bb in hb.live and "blake2" in e.name.lower()]
        uses_size = any(op.get("uneval") in ("BLAKE_HASH_SIZE_BYTES",) for e in bl for op in e.args) or \
            any(op.get("uneval") == "BLAKE_HASH_SIZE_BYTES" for bb, j, s in hb.all_assigns() for op in s["rv"].get("ops", []))
        if bl and uses_size:
            ck.ok(o, "calls: %s" % sorted({e.name.split("::")[-1] for e in bl}))
        else:
            ck.fail(o, hb.name, "hash function changed", "blake2 calls=%s uses size const=%s" % ([e.name for e in bl], uses_size))

    # ---- 5. addresses inside their block ----------------------------------------------------------------------
    sf = w.body("backup::store_file_content")
    o = ck.ob("C13.5a", "store_file_content: Address{start: 0, len: buffer.len()} of the very buffer that was stored")
    aggs = rules.agg_sites(sf, "blockdir::Address")
    good = len(aggs) == 1
    if good:
        s = aggs[0][2]
        st = rules.field_operand(s, "start")
        thru = [r"^bytes::Bytes(Mut)?::len$", r"Try>?::branch$", r"Result::<T, E>::map_err$", r"^bytes::BytesMut::freeze$"]
        ln = flow.origins_x(lib, sf, rules.field_operand(s, "len"), through_calls=thru)
        store = rules.creators_of(sf, "blockdir::BlockDir::store_or_deduplicate")
        so = flow.origins_x(lib, sf, store[0].args[1], through_calls=thru) if store else set()
        if not (st.get("k") == "const" and st.get("int") == "0"):
            good = False
            ck.fail(o, sf.name, "start is not 0", "Address.start = %s" % st)
        buf_calls = {c for c in flow.origin_calls(ln) if "read_with_retries" in c}
        if not buf_calls or not ({c for c in flow.origin_calls(so) if "read_with_retries" in c}):
            good = False
            ck.fail(o, sf.name, "len is not the stored buffer's length", "len from %s; stored from %s" % (flow.origin_summary(ln), flow.origin_summary(so)))
    else:
        ck.fail(o, sf.name, "no unique Address construction", "found %d" % len(aggs))
    if good:
        ck.ok(o)
    pf = w.body("backup::FileCombiner::push_file")
    o = ck.ob("C13.5b", "push_file: start = buf.len() before the append, len = bytes actually read")
    qa = rules.agg_sites(pf, "backup::QueuedFile")
    good = len(qa) == 1
    if good:
        s = qa[0][2]
        if "start" in s["rv"]["fields"] and "len" in s["rv"]["fields"]:
            # (a helper may hand the span back as `(len != 0).then_some((start, len))`)
            so = flow.origins_x(lib, pf, rules.field_operand(s, "start"), through_calls=[r"Try>?::branch$"], through_all=[r"<impl bool>::then_some$|bool::then_some$"])
            so = {x for x in so if not (x[0] == "arith" and x[1] in ("Ne", "Eq", "Gt", "Lt", "Ge", "Le"))}
            lo = flow.origins_x(lib, pf, rules.field_operand(s, "len"), through_calls=[r"Try>?::branch$", r"Result::<T, E>::map_err$"], through_all=[r"<impl bool>::then_some$|bool::then_some$"])
        else:
            # another representation of "where this file's bytes lie in the buffer" (a Range, a span struct ...): the position
            # operands taken together - everything that is not the IndexEntry
            so = set()
            for f_, op_ in zip(s["rv"]["fields"], s["rv"]["ops"]):
                l_ = flow.operand_local(op_)
                if l_ is not None and "IndexEntry" in (pf.locals[l_] or ""):
                    continue
                so |= flow.origins_x(lib, pf, op_, through_calls=[r"Try>?::branch$", r"Result::<T, E>::map_err$"], through_all=[r"<impl bool>::then_some$|bool::then_some$"])
            lo = so
            so = {x for x in so if x[0] != "arith"}       # start..start+len: the sum is the end, not the start
        lens = [e for e in pf.events if e.bb in pf.live and e.name == "bytes::BytesMut::len"]
        resize = [e for e in pf.events if e.bb in pf.live and e.name in ("bytes::BytesMut::resize", "bytes::BytesMut::extend_from_slice", "bytes::BytesMut::put_slice")]
        if "bytes::BytesMut::len" not in flow.origin_calls(so) or [x for x in so if x[0] == "arith"]:
            good = False
            ck.fail(o, pf.name, "start is not buf.len()", "start from %s" % flow.origin_summary(so))
        elif not resize or not lens or not all(pf.must_pass_nodes({l_.bb for l_ in lens if any(x[0] == "call" and x[1] == "bytes::BytesMut::len" and x[2] == l_.bb for x in so)}, r.bb)
                                               for r in resize):
            good = False
            ck.fail(o, pf.name, "start not taken before the append", "buf.len() does not precede the resize")
        if not any(c.endswith("Read::read") for c in flow.origin_calls(lo)):
            good = False
            ck.fail(o, pf.name, "len is not the read count", "len from %s" % flow.origin_summary(lo))
        # nothing empties or replaces the buffer between taking `start` and appending the bytes
        start_lens = [e for e in lens if any(x[0] == "call" and x[1] == "bytes::BytesMut::len" and x[2] == e.bb for x in so)]
        appends = resize or events_of(lib, pf, "bytes::BytesMut::resize")
        resets = events_of(lib, pf, "backup::FileCombiner::flush") + [
            e for e in pf.events if e.bb in pf.live and e.name in (
                "std::mem::take", "std::mem::replace", "bytes::BytesMut::clear", "bytes::BytesMut::split",
                "bytes::BytesMut::split_to", "bytes::BytesMut::split_off", "bytes::BytesMut::freeze", "bytes::BytesMut::new",
                "bytes::BytesMut::with_capacity")]
        for m in resets:
            if any(pf.reaches(l.bb, m.bb) or l.bb == m.bb for l in start_lens) and any(pf.reaches(m.bb, r.bb) for r in appends):
                good = False
                ck.fail(o, pf.name, "buffer reset between start and the append",
                        "%s can run after start = buf.len() and before the file's bytes are appended" % m.name, m.site())
        # truncate to start+len so that the buffer holds exactly the bytes read
        tr = [e for e in pf.events if e.bb in pf.live and e.name == "bytes::BytesMut::truncate"]
        if not tr:
            good = False
            ck.fail(o, pf.name, "buffer not truncated to the bytes read", "no truncate(start + len)")
    else:
        ck.fail(o, pf.name, "no unique QueuedFile construction", "found %d" % len(qa))
    if good:
        ck.ok(o)
    fl = lib.bodies.get("backup::FileCombiner::flush::{closure#0}::{closure#0}")
    o = ck.ob("C13.5c", "flush: each queued file's Address takes start and len from its own QueuedFile")
    if fl is None:
        # the closure may be numbered differently: search the family
        for b in lib.family("backup::FileCombiner::flush"):
            if rules.agg_sites(b, "blockdir::Address"):
                fl = b
    if fl is None:
        ck.fail(o, "backup::FileCombiner::flush", "anchor-missing", "no Address construction in flush")
    else:
        s = rules.agg_sites(fl, "blockdir::Address")[0][2]
        so = flow.origins_x(lib, fl, rules.field_operand(s, "start"))
        lo = flow.origins_x(lib, fl, rules.field_operand(s, "len"))
        def fld(oo, name):
            # the field of the queued file: a closure parameter (`|qf| .. qf.start`), or the loop variable of `for qf in queue`
            return any((x[0] in ("param", "upvar") and name in x[2]) or (x[0] == "call" and name in x[3] and re.search(r"Iterator>?::next$|into_iter$", x[1]))
                       for x in oo)

        def qf_field(oo):
            # ... whatever the position fields are called (`span.start`, `span.len()`): some field of the queued file other than its entry
            return any((x[0] in ("param", "upvar") and x[2] and x[2][0] != "entry") or
                       (x[0] == "call" and x[3] and x[3][0] != "entry" and re.search(r"Iterator>?::next$|into_iter$", x[1])) for x in oo)
        lo2 = flow.origins_x(lib, fl, rules.field_operand(s, "len"), through_all=[r"::len$", r"TryInto<.*>>?::try_into$|^std::convert::TryInto::try_into$", r"Result::<T, E>::unwrap$"])
        if fld(so, "start") and fld(lo, "len") and not [x for x in so | lo if x[0] == "arith"]:
            ck.ok(o)
        elif qf_field(so) and qf_field(lo2) and not [x for x in so if x[0] == "arith"] and \
                not [x for x in lo2 if x[0] == "arith" and x[1] not in ("Sub", "SubWithOverflow", "SubUnchecked")]:
            ck.ok(o, "position fields of the queued file (other representation)")
        else:
            ck.fail(o, fl.name, "address fields not from the queued file", "start from %s, len from %s" % (flow.origin_summary(so), flow.origin_summary(lo)))

    # ---- 6. who carries addresses / target -------------------------------------------------------------------
    o = ck.ob("C13.6", "entries with addresses are built only on the Kind::File path (copy_file, FileCombiner::flush); target only from symlink_target()")
    builders = set()
    for b in rules.user_bodies(lib):
        if rules.is_derive_body(b) or b.file.startswith("src/test_fixtures"):
            continue
        for bb, j, s in rules.agg_sites(b, "index::entry::IndexEntry"):
            ao = flow.origins_x(lib, b, rules.field_operand(s, "addrs"))
            if flow.origin_calls(ao) != {"std::vec::Vec::<T>::new"}:
                builders.add(b.root)
    allowed = {"backup::BackupWriter::copy_file", "backup::FileCombiner::flush"}
    good = True
    if builders - allowed:
        good = False
        ck.fail(o, ",".join(sorted(builders - allowed)), "entry with addresses built outside the file path", "builders: %s" % sorted(builders))
    ce = w.body("backup::BackupWriter::copy_entry")
    cfe = rules.creators_of(ce, "backup::BackupWriter::copy_file")
    # copy_file is called only from copy_entry, on the arm where kind() == File
    callers = {g.bodies[c].root for c in g.callers_of("backup::BackupWriter::copy_file") if c in g.bodies}
    pcallers = {g.bodies[c].root for c in g.callers_of("backup::FileCombiner::push_file") if c in g.bodies}
    if callers != {"backup::BackupWriter::copy_entry"} or pcallers != {"backup::BackupWriter::copy_file"}:
        good = False
        ck.fail(o, "backup::BackupWriter::copy_file", "file path has other callers", "copy_file callers %s; push_file callers %s" % (sorted(callers), sorted(pcallers)))
    kd = [e for e in ce.events if e.bb in ce.live and (e.callee or "").endswith("EntryTrait::kind")]
    adt = lib.adts.get("kind::Kind")
    if kd and adt and cfe:
        vn = [v["name"] for v in adt["variants"]]
        fi = vn.index("File") if "File" in vn else None
        okk = False
        for (sb, tested, arms, other) in flow.discriminant_switches(ce, flow.result_carriers(ce, kd[0].dest["l"])):
            if fi in arms and ce.must_pass_edges({(sb, arms[fi])}, cfe[0].bb):
                okk = True
        if not okk:
            good = False
            ck.fail(o, ce.name, "copy_file not confined to the Kind::File arm", "copy_file is reachable for other kinds", cfe[0].site())
    else:
        good = False
        ck.fail(o, ce.name, "kind dispatch changed", "no switch on source_entry.kind()")
    if good:
        ck.ok(o, "builders=%s" % sorted(builders), instances=len(builders))
