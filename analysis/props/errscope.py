"""Shared ERR-scope helper: classify fallible storage/decoding results under entry points."""
import re

from cv import err, graph, rules

SKIP_FILES = re.compile(r"^src/(transport/|monitor|termui|test_fixtures|mount|bin/)")
DECODE_CALLS = re.compile(r"^compress::snappy::Decompressor::decompress$|^serde_json::from_(slice|str)$|^jsonio::read_json$|^index::IndexRead::read_hunk$"
                          r"|^blockdir::(get_async_uncached|BlockDir::get_block_content|BlockDir::read_address)$|^band::Band::(open|get_info)$")
STORAGE = {"T_READ", "T_LIST", "T_META", "T_MKDIR", "T_WRITE", "T_REMOVE"}


def sites_under(w, entries, damage_only=False):
    """ERR sites (cv.err.Site) in lib bodies reachable from `entries`.
    damage_only: keep only results that damage to a stored file can turn into an error
    (read, list, decompress, deserialize, hash check) - not metadata probes."""
    g = w.graph
    lib = w.lib
    scope = g.reachable_from(entries)
    out = []
    for n in sorted(scope):
        b = lib.bodies.get(n)
        if b is None or not b.file.startswith("src/") or b.kind in ("const", "static", "anon_const"):
            continue
        if SKIP_FILES.search(b.file) or rules.is_derive_body(b):
            continue
        for s in err.result_sites(b):
            callee = s.callee_short()
            eff = g.effects.get(callee, set()) | graph.primitive_effects(callee)
            is_storage = bool(eff & STORAGE) or bool(DECODE_CALLS.search(callee))
            if not is_storage:
                continue
            if damage_only:
                # damage = a stored FILE deleted / truncated / garbled: only reads and decoding can
                # start failing; listing a directory or probing metadata cannot
                dmg = bool(eff & {"T_READ"}) or bool(DECODE_CALLS.search(callee))
                if not dmg:
                    continue
            out.append(s)
    return out, scope


# Sites where ONE error kind is deliberately turned into a value because the absence of the file is
# a legal state of the archive; every other error kind is still propagated there. (function, callee)
NOT_FOUND_IS_A_VALUE = {
    ("jsonio::read_json", "transport::Transport::read"): "a missing json file is Ok(None): callers decide (BANDTAIL absent = incomplete band; head/header absent = reported by the caller)",
    ("index::IndexRead::read_hunk", "transport::Transport::read"): "a hunk that is listed but gone is Ok(None); try_next / referenced_blocks turn that into an error",
    ("transport::Transport::is_file", "transport::Transport::metadata"): "is_file: a path that does not exist is simply not a file",
    ("archive::Archive::create", "transport::Transport::list_dir"): "creating an archive in a directory that does not exist yet creates it",
}


def allowed_kind_conversion(site):
    return site.detail.startswith("an Err path") and (site.body.root, site.callee_short()) in NOT_FOUND_IS_A_VALUE
