#!/usr/bin/env python3
"""Developer tool: list non-macro call events of bodies matching a regex."""
import sys, os, re
sys.path.insert(0, os.path.dirname(os.path.abspath(__file__)))
from cv import extract, mir
d = extract.ensure_facts("default")
kind = sys.argv[2] if len(sys.argv) > 2 else "lib"
c = mir.load(d, (kind,))[kind]
rx = re.compile(sys.argv[1])
skip = re.compile(r"into_future|new_unchecked|get_context|Try>::branch|from_residual|tracing|core::fmt|std::fmt|Clone>::clone|Deref>::deref")
for n, b in sorted(c.bodies.items()):
    if rx.search(n):
        print("==", n, b.kind, "%s:%d" % (b.file, b.lo), "blocks", b.n, "live", len(b.live))
        for e in b.events:
            if e.bb in b.live and not skip.search(e.name) and e.macro in (None, "desugaring of `await` expression", "desugaring of `for` loop"):
                print("   bb%-4d L%-4d %s%s" % (e.bb, e.line, e.name, "" if e.name == e.callee else "   (decl %s)" % e.callee))
