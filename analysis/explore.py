#!/usr/bin/env python3
"""Developer tool: print bodies from the cached facts. usage: explore.py <regex> [lib|bin]"""
import sys, os, re
sys.path.insert(0, os.path.dirname(os.path.abspath(__file__)))
from cv import extract, mir
d = extract.ensure_facts("default")
kind = sys.argv[2] if len(sys.argv) > 2 else "lib"
c = mir.load(d, (kind,))[kind]
rx = re.compile(sys.argv[1])
for n, b in sorted(c.bodies.items()):
    if rx.search(n):
        if len(sys.argv) > 3 and sys.argv[3] == "names":
            print(n, b.kind, b.file, b.lo)
        else:
            print(b.dump()); print()
