"""The analysed program: fact files for one configuration + call graph."""
import re

import os

from . import extract, graph, inline, mir


class AnchorMissing(Exception):
    pass


class World:
    def __init__(self, config="default", repo=None):
        self.config = config
        self.facts_dir = extract.ensure_facts(config, repo=repo)
        crates = mir.load(self.facts_dir)
        self.lib = crates["lib"]
        self.bin = crates["bin"]
        self.inline_report = None
        if not os.environ.get("CV_NO_INLINE"):
            vocab = inline.load_vocab()
            self.inline_report = {"lib": inline.inline_crate(self.lib, vocab), "bin": inline.inline_crate(self.bin, vocab)}
        self._graph = None

    @property
    def graph(self):
        if self._graph is None:
            self._graph = graph.Graph([self.lib, self.bin])
        return self._graph

    def body(self, name):
        """User-code body of lib fn `name` (through async / instrument wrappers)."""
        b = self.lib.main_body(name)
        if b is None:
            raise AnchorMissing(name)
        return b

    def raw(self, name):
        b = self.lib.body(name)
        if b is None:
            raise AnchorMissing(name)
        return b

    def bodies_matching(self, pat):
        rx = re.compile(pat)
        return [b for n, b in sorted(self.lib.bodies.items()) if rx.search(n)]

    def stats(self):
        nb = len(self.lib.bodies) + len(self.bin.bodies)
        calls = sum(len(b.events) for b in self.lib.bodies.values()) + sum(
            len(b.events) for b in self.bin.bodies.values())
        return {"config": self.config, "bodies": nb, "lib_bodies": len(self.lib.bodies),
                "bin_bodies": len(self.bin.bodies), "call_sites": calls,
                "debug_assertions": self.lib.debug_assertions,
                "dissolved_private_helpers": (self.inline_report or {}).get("lib", {}).get("helpers", {})}
