"""Fact loader: bodies, control-flow graphs, dominance by edge/node deletion, def-use."""
import json
import os
import re
from collections import defaultdict, deque


def pl_key(pl):
    """Hashable key of a place: (local, (proj,...))."""
    return (pl["l"], tuple(pl["p"]))


def pl_str(pl, body=None):
    s = "_%d" % pl["l"]
    if body is not None:
        n = body.local_names.get(pl["l"])
        if n:
            s += "<%s>" % n
    for p in pl["p"]:
        if p == "*":
            s = "(*%s)" % s
        elif p.startswith("f:"):
            _, idx, name = p.split(":", 2)
            s += "." + (name or idx)
        elif p.startswith("dc:"):
            s = "(%s as %s)" % (s, p[3:])
        else:
            s += "[%s]" % p
    return s


def op_str(op, body=None):
    k = op.get("k")
    if k in ("copy", "move"):
        return "%s %s" % (k, pl_str(op["pl"], body))
    if k == "const":
        for key in ("fn", "closure", "str", "int", "uneval", "static"):
            if key in op:
                return "const %s=%r" % (key, op[key])
        return "const <%s>" % op.get("ty")
    return "?"


class Event:
    """A call terminator (or the poll of an awaited future)."""

    __slots__ = ("body", "bb", "term")

    def __init__(self, body, bb, term):
        self.body = body
        self.bb = bb
        self.term = term

    @property
    def callee(self):
        return self.term.get("callee")

    @property
    def resolved(self):
        return self.term.get("resolved")

    @property
    def name(self):
        return self.term.get("resolved") or self.term.get("callee") or ""

    @property
    def line(self):
        return self.term.get("line")

    @property
    def args(self):
        return self.term.get("args", [])

    @property
    def dest(self):
        return self.term.get("dest")

    @property
    def target(self):
        return self.term.get("t")

    @property
    def from_expansion(self):
        return self.term.get("exp", False)

    @property
    def macro(self):
        return self.term.get("mac")

    def site(self):
        return "%s:%s" % (self.body.file, self.line)

    def __repr__(self):
        return "<%s @bb%d %s in %s>" % (self.name, self.bb, self.site(), self.body.name)


class Body:
    def __init__(self, d, crate):
        self.d = d
        self.crate = crate
        self.name = d["def"]
        self.kind = d["kind"]
        self.parent = d["parent"]
        self.root = d["root"]
        self.file = d["file"]
        self.lo = d["lo"]
        self.hi = d["hi"]
        self.self_ty = d["self_ty"]
        self.trait = d["trait"]
        self.def_mac = d["def_mac"]
        self.arg_count = d["arg_count"]
        self.ret = d["ret"]
        self.locals = d["locals"]
        self.blocks = d["blocks"]
        self.vars = d["vars"]
        self.n = len(self.blocks)
        self.local_names = {}
        for v in self.vars:
            if not v["pl"]["p"]:
                self.local_names.setdefault(v["pl"]["l"], v["name"])
        # upvar names: place (_1.f:i) or ((*_1).f:i) -> name
        self.upvar_names = {}
        for v in self.vars:
            p = v["pl"]["p"]
            if v["pl"]["l"] == 1 and p:
                for e in p:
                    if e.startswith("f:"):
                        self.upvar_names[int(e.split(":")[1])] = v["name"]
                        break
        self._succ = None
        self._pred = None
        self._reach = None
        self._defs = None
        self._events = None

    # ---- CFG -----------------------------------------------------------------
    def term(self, bb):
        return self.blocks[bb]["term"]

    def term_succs(self, bb):
        t = self.blocks[bb]["term"]
        k = t["tk"]
        if k == "goto":
            return [t["t"]]
        if k == "switch":
            cv = self._const_discr(bb, t)
            if cv is not None:
                for a in t["arms"]:
                    if int(a[0]) == cv:
                        return [a[1]]
                return [t["otherwise"]]
            out = [a[1] for a in t["arms"]]
            out.append(t["otherwise"])
            return out
        if k in ("drop", "assert", "yield"):
            return [t["t"]]
        if k == "call":
            return [t["t"]] if t["t"] is not None else []
        return []

    def _const_discr(self, bb, t):
        """Value of a switch discriminant that is a literal constant assigned in the same
        block (`if false`, `cfg!(..)`), else None."""
        d = t["discr"]
        if d.get("k") == "const":
            return int(d["int"]) if "int" in d else None
        if d["pl"]["p"]:
            return None
        l = d["pl"]["l"]
        stmts = self.blocks[bb]["stmts"]
        for i in range(len(stmts) - 1, -1, -1):
            s = stmts[i]
            if s["sk"] == "assign" and s["pl"]["l"] == l:
                if not s["pl"]["p"] and s["rv"]["rk"] == "use":
                    op = s["rv"]["ops"][0]
                    if op.get("k") == "const" and "int" in op and "uneval" not in op:
                        return int(op["int"])
                if not s["pl"]["p"] and s["rv"]["rk"] == "discr" and not s["rv"]["pl"]["p"]:
                    # discriminant of a value built just above from a literal variant
                    src = s["rv"]["pl"]["l"]
                    for k in range(i - 1, -1, -1):
                        s2 = stmts[k]
                        if s2["sk"] == "assign" and s2["pl"]["l"] == src:
                            rv = s2["rv"]
                            if not s2["pl"]["p"] and rv["rk"] == "agg" and rv.get("ak") == "adt" and "vidx" in rv \
                                    and rv["adt"] in ("std::option::Option", "std::result::Result"):
                                return rv["vidx"]
                            return None
                return None
        return None

    @property
    def succ(self):
        if self._succ is None:
            self._succ = []
            for i in range(self.n):
                if self.blocks[i]["cleanup"]:
                    self._succ.append([])
                else:
                    seen = []
                    for s in self.term_succs(i):
                        if s not in seen and not self.blocks[s]["cleanup"]:
                            seen.append(s)
                    self._succ.append(seen)
        return self._succ

    @property
    def pred(self):
        if self._pred is None:
            self._pred = [[] for _ in range(self.n)]
            for i, ss in enumerate(self.succ):
                for s in ss:
                    self._pred[s].append(i)
        return self._pred

    def reachable(self, start=0, removed_edges=(), removed_nodes=(), succ=None):
        """Blocks reachable from `start` over real edges, optionally with some edges or
        nodes deleted."""
        removed_edges = set(removed_edges)
        removed_nodes = set(removed_nodes)
        succ = succ or self.succ
        if start in removed_nodes:
            return set()
        seen = {start}
        dq = deque([start])
        while dq:
            u = dq.popleft()
            for v in succ[u]:
                if v in seen or v in removed_nodes or (u, v) in removed_edges:
                    continue
                seen.add(v)
                dq.append(v)
        return seen

    @property
    def live(self):
        if self._reach is None:
            self._reach = self.reachable(0)
        return self._reach

    def reaches(self, a, b, removed_edges=(), removed_nodes=()):
        """True if block b is reachable from the *exit* of block a (a path of >= 1 edge)."""
        removed_edges = set(removed_edges)
        removed_nodes = set(removed_nodes)
        seen = set()
        dq = deque()
        for v in self.succ[a]:
            if (a, v) not in removed_edges and v not in removed_nodes:
                if v not in seen:
                    seen.add(v)
                    dq.append(v)
        while dq:
            u = dq.popleft()
            for v in self.succ[u]:
                if v in seen or v in removed_nodes or (u, v) in removed_edges:
                    continue
                seen.add(v)
                dq.append(v)
        return b in seen

    def after(self, a):
        """All blocks reachable from the exit of block a."""
        seen = set()
        dq = deque(self.succ[a])
        seen.update(self.succ[a])
        while dq:
            u = dq.popleft()
            for v in self.succ[u]:
                if v not in seen:
                    seen.add(v)
                    dq.append(v)
        return seen

    def must_pass_edges(self, edges, target, start=0):
        """Every path start->target uses one of `edges` (vacuously true if unreachable)."""
        return target not in self.reachable(start, removed_edges=edges)

    def must_pass_nodes(self, nodes, target, start=0):
        if target in nodes:
            return True
        return target not in self.reachable(start, removed_nodes=nodes)

    def find_path(self, target, removed_edges=(), removed_nodes=(), start=0):
        """A witness path start->target avoiding the removed edges/nodes, or None."""
        removed_edges = set(removed_edges)
        removed_nodes = set(removed_nodes)
        prev = {start: None}
        dq = deque([start])
        while dq:
            u = dq.popleft()
            if u == target:
                path = []
                while u is not None:
                    path.append(u)
                    u = prev[u]
                return path[::-1]
            for v in self.succ[u]:
                if v in prev or v in removed_nodes or (u, v) in removed_edges:
                    continue
                prev[v] = u
                dq.append(v)
        return None

    def return_blocks(self):
        return [i for i in self.live if self.blocks[i]["term"]["tk"] == "return"]

    # ---- events -----------------------------------------------------------------
    @property
    def events(self):
        if self._events is None:
            self._events = []
            for i in range(self.n):
                if self.blocks[i]["cleanup"]:
                    continue
                t = self.blocks[i]["term"]
                if t["tk"] in ("call", "tailcall"):
                    self._events.append(Event(self, i, t))
        return self._events

    def calls(self, pat, live_only=True):
        """Events whose resolved or declared callee matches regex `pat` (search)."""
        rx = re.compile(pat) if isinstance(pat, str) else pat
        out = []
        for e in self.events:
            if live_only and e.bb not in self.live:
                continue
            if rx.search(e.term.get("resolved") or "") or rx.search(e.term.get("callee") or ""):
                out.append(e)
        return out

    # ---- def-use ----------------------------------------------------------------
    @property
    def defs(self):
        """local -> list of (bb, idx|'term', kind, payload) definitions (whole or partial)."""
        if self._defs is None:
            d = defaultdict(list)
            for i, b in enumerate(self.blocks):
                if b["cleanup"]:
                    continue
                for j, s in enumerate(b["stmts"]):
                    if s["sk"] == "assign":
                        d[s["pl"]["l"]].append((i, j, "assign", s))
                t = b["term"]
                if t["tk"] == "call":
                    d[t["dest"]["l"]].append((i, "term", "call", t))
                elif t["tk"] == "yield":
                    d[t["resume_arg"]["l"]].append((i, "term", "yield", t))
            self._defs = d
        return self._defs

    def stmts(self, bb):
        return self.blocks[bb]["stmts"]

    def all_assigns(self):
        for i, b in enumerate(self.blocks):
            if b["cleanup"] or i not in self.live:
                continue
            for j, s in enumerate(b["stmts"]):
                if s["sk"] == "assign":
                    yield i, j, s

    def dump(self, live_only=True):
        out = []
        out.append("body %s [%s] %s:%d-%d self=%s trait=%s" % (
            self.name, self.kind, self.file, self.lo, self.hi, self.self_ty, self.trait))
        for i, b in enumerate(self.blocks):
            if b["cleanup"] or (live_only and i not in self.live):
                continue
            out.append("bb%d:" % i)
            for s in b["stmts"]:
                if s["sk"] == "assign":
                    out.append("    %s = %s" % (pl_str(s["pl"], self), rv_str(s["rv"], self)))
                else:
                    out.append("    setdiscr %s %s" % (pl_str(s["pl"], self), s["v"]))
            t = b["term"]
            k = t["tk"]
            if k == "call":
                out.append("    %s = CALL %s [%s] (%s) -> bb%s  L%s%s" % (
                    pl_str(t["dest"], self), t.get("callee"), t.get("resolved"),
                    ", ".join(op_str(a, self) for a in t["args"]), t["t"], t["line"],
                    " {%s}" % t["mac"] if t.get("mac") else ""))
            elif k == "switch":
                out.append("    SWITCH %s %s else bb%d" % (
                    op_str(t["discr"], self), ["%s->bb%d" % (a[0], a[1]) for a in t["arms"]], t["otherwise"]))
            elif k == "drop":
                out.append("    DROP %s -> bb%d" % (pl_str(t["pl"], self), t["t"]))
            elif k == "assert":
                out.append("    ASSERT %s==%s %s -> bb%d" % (op_str(t["cond"], self), t["expected"], t["msg"], t["t"]))
            elif k == "yield":
                out.append("    YIELD -> bb%d" % t["t"])
            elif k == "goto":
                out.append("    GOTO bb%d" % t["t"])
            else:
                out.append("    %s" % k.upper())
        return "\n".join(out)


def rv_str(rv, body=None):
    k = rv["rk"]
    if k == "use":
        return op_str(rv["ops"][0], body)
    if k in ("ref", "rawptr"):
        return "&%s%s" % ("mut " if rv.get("bk") == "mut" else "", pl_str(rv["pl"], body))
    if k == "discr":
        return "discriminant(%s)" % pl_str(rv["pl"], body)
    if k == "cast":
        return "%s as %s [%s]" % (op_str(rv["ops"][0], body), rv["to"], rv["ck"])
    if k == "binop":
        return "%s(%s)" % (rv["op"], ", ".join(op_str(o, body) for o in rv["ops"]))
    if k == "unop":
        return "%s(%s)" % (rv["op"], op_str(rv["ops"][0], body))
    if k == "agg":
        if rv["ak"] == "adt":
            fs = rv["fields"]
            return "%s::%s{%s}" % (rv["adt"], rv["variant"], ", ".join(
                "%s: %s" % (fs[i] if i < len(fs) else i, op_str(o, body)) for i, o in enumerate(rv["ops"])))
        if rv["ak"] == "closure":
            return "closure %s(%s)" % (rv["closure"], ", ".join(op_str(o, body) for o in rv["ops"]))
        return "%s(%s)" % (rv["ak"], ", ".join(op_str(o, body) for o in rv["ops"]))
    return k + ":" + rv.get("dbg", "")


class Crate:
    def __init__(self, path):
        with open(path) as f:
            d = json.load(f)
        self.path = path
        self.name = d["crate"]
        self.kind = d["kind"]
        self.nonce = d["nonce"]
        self.debug_assertions = d["debug_assertions"]
        self.adts = {a["path"]: a for a in d["adts"]}
        self.consts = {c["path"]: c for c in d["consts"]}
        self.impls = d["impls"]
        self.bodies = {}
        for b in d["bodies"]:
            body = Body(b, self)
            self.bodies[body.name] = body
        self.children = defaultdict(list)
        for b in self.bodies.values():
            if b.kind in ("closure", "coroutine") and b.parent:
                self.children[b.parent].append(b.name)

    def body(self, name):
        return self.bodies.get(name)

    def family(self, name):
        """The body `name` and all closures/coroutines nested in it (transitively)."""
        out = []
        st = [name]
        while st:
            n = st.pop()
            if n in self.bodies:
                out.append(self.bodies[n])
            st.extend(self.children.get(n, []))
        return out

    def main_body(self, name):
        """The body that holds the user-written statements of fn `name`: for an async fn
        its coroutine; for a #[tracing::instrument]ed async fn the inner coroutine."""
        b = self.bodies.get(name)
        if b is None:
            return None
        cur = b
        for _ in range(3):
            kids = [self.bodies[k] for k in self.children.get(cur.name, []) if self.bodies[k].kind == "coroutine"]
            # async fn: the outer fn only builds the coroutine and returns it
            if len(kids) >= 1 and _is_trampoline(cur):
                # choose the coroutine created by the body
                cur = sorted(kids, key=lambda k: k.name)[0]
            else:
                break
        return cur

    def const_value(self, path):
        c = self.consts.get(path)
        if c is None:
            return None
        if c["kind"] == "int":
            return int(c["val"])
        if c["kind"] == "bool":
            return c["val"] == "true"
        return c["val"]


def _is_trampoline(body):
    """A body whose only job is to build a coroutine and return/box/instrument it."""
    has_cor = False
    for i in body.live:
        for s in body.blocks[i]["stmts"]:
            if s["sk"] == "assign" and s["rv"]["rk"] == "agg" and s["rv"].get("ak") == "closure":
                cl = body.crate.bodies.get(s["rv"]["closure"]) if body.crate else None
                if cl is not None and cl.kind == "coroutine":
                    has_cor = True
    if not has_cor:
        return False
    if body.kind in ("fn", "assoc_fn"):
        # async fn (returns the coroutine), async_trait (boxes it)
        real_calls = [e for e in body.events if e.bb in body.live and not _noise(e.name)]
        return len(real_calls) <= 2
    # instrumented outer coroutine: creates the inner async block and awaits Instrumented
    names = [e.name for e in body.events if e.bb in body.live]
    return any("tracing::Instrument" in n or "tracing::instrument::Instrument" in n for n in names)


def _noise(name):
    return (name.startswith("std::boxed::Box") or name.startswith("alloc::boxed")
            or "tracing" in name or name.startswith("core::fmt") or name.startswith("std::fmt")
            or name.startswith("std::pin::Pin"))


def load(facts_dir, kinds=("lib", "bin")):
    out = {}
    for k in kinds:
        p = os.path.join(facts_dir, "conserve-%s.json" % k)
        out[k] = Crate(p)
    return out
