"""Reusable rule families: ORDER, GUARD, WHO, CONST-ARG, ... (DESIGN.md section 3)."""
import re

from . import flow
from .mir import Event, pl_str, op_str

POLL = "std::future::Future::poll"


def is_async_fn(crate, fn):
    b = crate.bodies.get(fn + "::{closure#0}")
    return b is not None and b.kind == "coroutine" and crate.bodies.get(fn) is not None and \
        crate.bodies[fn].kind in ("fn", "assoc_fn")


def events_of(crate, body, fn, declared=False):
    """Occurrences of `fn` in `body`: for an async fn the poll of its future (the point
    where its effects happen), otherwise the call itself. `fn` is an exact def path or,
    with declared=True, a declared (trait) callee path."""
    out = []
    if declared:
        for e in body.events:
            if e.bb in body.live and e.callee == fn:
                out.append(e)
        return out
    if is_async_fn(crate, fn):
        want = fn + "::{closure#0}"
        for e in body.events:
            if e.bb in body.live and e.callee == POLL and e.resolved == want:
                out.append(e)
    else:
        for e in body.events:
            if e.bb in body.live and e.callee != POLL and (e.resolved == fn or (e.resolved is None and e.callee == fn)):
                out.append(e)
    if not out:
        out = _events_through_helpers(crate, body, fn)
    return out


def _local_callees(crate, body):
    """Names of crate-local bodies this body calls / awaits / creates (closures)."""
    out = set()
    for e in body.events:
        if e.bb not in body.live:
            continue
        n = e.resolved or e.callee or ""
        if n in crate.bodies:
            out.add(n)
            if n + "::{closure#0}" in crate.bodies:
                out.add(n + "::{closure#0}")
    for bb, j, s in body.all_assigns():
        rv = s["rv"]
        if rv["rk"] == "agg" and rv.get("ak") == "closure" and rv["closure"] in crate.bodies:
            out.add(rv["closure"])
    return out


def _reaches_in_file(crate, start, fn, file, depth=4):
    """Does body `start` reach an occurrence of `fn` through bodies of the same source file?"""
    want = {fn, fn + "::{closure#0}"}
    seen = set()
    frontier = {start}
    for _ in range(depth):
        nxt = set()
        for n in frontier:
            if n in seen:
                continue
            seen.add(n)
            b = crate.bodies.get(n)
            if b is None or b.file != file:
                continue
            callees = _local_callees(crate, b)
            if callees & want:
                return True
            nxt |= callees
        frontier = nxt - seen
    return False


def _events_through_helpers(crate, body, fn):
    """Fallback used only when `fn` does not occur directly in `body`: calls to a helper in the
    same source file that (within a few same-file hops) performs `fn`. Keeps rules stable when a
    step is extracted into a private helper."""
    out = []
    for e in body.events:
        if e.bb not in body.live:
            continue
        if e.callee == POLL:
            tgt = e.resolved or ""
            if not tgt.endswith("::{closure#0}"):
                continue
        else:
            tgt = e.resolved or e.callee or ""
            if is_async_fn(crate, tgt):
                continue          # its effects happen at the poll
        if tgt in (fn, fn + "::{closure#0}"):
            continue
        tb = crate.bodies.get(tgt)
        if tb is None or tb.file != body.file or tgt == body.name:
            continue
        if _reaches_in_file(crate, tgt, fn, body.file):
            out.append(e)
    return out


def creators_of(body, fn):
    return [e for e in body.events if e.bb in body.live and e.callee != POLL and
            (e.resolved == fn or e.callee == fn)]


def unawaited(crate, body, fn):
    """Calls that create the future of async `fn` but never poll it in this body."""
    if not is_async_fn(crate, fn):
        return []
    out = []
    for c in creators_of(body, fn):
        if not flow.await_poll(body, c):
            out.append(c)
    return out


def success_edges_union(body, events, kind="ok"):
    edges = set()
    hows = []
    missing = []
    for e in events:
        ed, how = flow.success_edges(body, e, kind)
        if not ed:
            missing.append(e)
        edges |= ed
        hows.extend(how or [])
    return edges, hows, missing


def failure_edges_union(body, events, kind="ok"):
    edges = set()
    for e in events:
        edges |= flow.failure_edges(body, e, kind)[0]
    return edges


def witness(body, target, removed_edges=(), removed_nodes=()):
    p = body.find_path(target, removed_edges=removed_edges, removed_nodes=removed_nodes)
    if p is None:
        return None
    # compress: only blocks that end in a call or switch
    keep = []
    for b in p:
        t = body.blocks[b]["term"]
        if t["tk"] == "call" and not (t.get("mac") or "").startswith("trace"):
            keep.append("bb%d:%s@L%s" % (b, (t.get("resolved") or t.get("callee") or "?").split("::")[-1], t["line"]))
    return " -> ".join(keep[-12:])


def order_after_success(ck, o, body, a_events, b_events, a_name, b_name, kind="ok", fn_key=None):
    """ORDER (succeeded): every B is reachable only through a success edge of some A."""
    fn_key = fn_key or body.name
    if not a_events:
        ck.fail(o, fn_key, "no %s event" % a_name, "%s never occurs in %s" % (a_name, body.name))
        return False
    if not b_events:
        ck.fail(o, fn_key, "no %s event" % b_name, "%s never occurs in %s" % (b_name, body.name))
        return False
    edges, hows, missing = success_edges_union(body, a_events, kind)
    if not edges:
        ck.fail(o, fn_key, "%s result unchecked before %s" % (a_name, b_name),
                "the result of %s is never tested for success in %s" % (a_name, body.name), a_events[0].site())
        return False
    good = True
    for b in b_events:
        bb = b.bb if isinstance(b, Event) else b
        if not body.must_pass_edges(edges, bb):
            good = False
            site = b.site() if isinstance(b, Event) else "%s:bb%d" % (body.file, bb)
            ck.fail(o, fn_key, "%s not dominated by ok(%s)" % (b_name, a_name),
                    "a path reaches %s without a successful %s: %s" % (
                        b_name, a_name, witness(body, bb, removed_edges=edges)), site)
    if good:
        ck.ok(o, "%d x %s after ok(%s) via %s" % (len(b_events), b_name, a_name, ",".join(sorted(set(hows)))[:80]),
              sites=[e.site() for e in a_events] + [b.site() for b in b_events if isinstance(b, Event)],
              instances=len(b_events))
    return good


def none_after(ck, o, body, a_events, pred, what, fn_key=None, crate=None):
    """AFTER-NONE: no event satisfying pred is reachable from (after) any A."""
    fn_key = fn_key or body.name
    bad = []
    for a in a_events:
        # start from where A has completed (for an await: the Ready arm, not the poll loop)
        done, _ = flow.success_edges(body, a, "done")
        after = set()
        for (u, v) in done:
            after |= body.reachable(v)
        if not done:
            after = body.after(a.bb)
        for e in body.events:
            if e.bb in after and e.bb in body.live and pred(e):
                bad.append((a, e))
    if bad:
        for a, e in bad[:5]:
            ck.fail(o, fn_key, "%s after %s" % (what, a.name.split("::{")[0]),
                    "%s (%s) is reachable after %s" % (e.name, what, a.name), e.site())
        return False
    ck.ok(o, "checked %d start event(s)" % len(a_events), sites=[a.site() for a in a_events], instances=len(a_events))
    return True


def _tuple_places(body, tracked):
    """(local, path) of tuple fields that hold one of the tracked bools: `match (closed, prev) { (true, _) => ..`."""
    out = {}
    for bb, j, s in body.all_assigns():
        rv = s["rv"]
        if rv["rk"] == "agg" and rv.get("ak") == "tuple" and not s["pl"]["p"]:
            for i, op in enumerate(rv["ops"]):
                l = flow.operand_local(op)
                if l is not None and op.get("k") != "const" and not op["pl"]["p"] and l in tracked:
                    out[(s["pl"]["l"], ("f:%d:" % i,))] = tracked[l]
    return out


def bool_switch_edges(body, event, polarity):
    """Edges taken when the bool returned by `event` (a call whose dest is switched on,
    possibly through Not/copies) equals `polarity`."""
    edges = set()
    tracked = {event.dest["l"]: False}   # local -> negated?
    changed = True
    while changed:
        changed = False
        for bb, j, s in body.all_assigns():
            if s["pl"]["p"]:
                continue
            rv = s["rv"]
            d = s["pl"]["l"]
            if rv["rk"] == "use":
                l = flow.operand_local(rv["ops"][0])
                if l in tracked and not rv["ops"][0]["pl"]["p"] and d not in tracked:
                    tracked[d] = tracked[l]
                    changed = True
            elif rv["rk"] == "unop" and rv["op"] == "Not":
                l = flow.operand_local(rv["ops"][0])
                if l in tracked and d not in tracked:
                    tracked[d] = not tracked[l]
                    changed = True
    places = _tuple_places(body, tracked)
    for bb in body.live:
        t = body.blocks[bb]["term"]
        if t["tk"] != "switch":
            continue
        l = flow.operand_local(t["discr"])
        pk = (l, tuple(t["discr"]["pl"]["p"])) if l is not None else None
        if (l in tracked and not t["discr"]["pl"]["p"]) or pk in places:
            neg = tracked[l] if not t["discr"]["pl"]["p"] else places[pk]
            want = polarity != neg   # value the switched local must have
            arms = {int(a[0]): a[1] for a in t["arms"]}
            if want:
                # true = any non-zero: the otherwise edge when 0 is listed
                if 0 in arms:
                    edges.add((bb, t["otherwise"]))
                if 1 in arms:
                    edges.add((bb, arms[1]))
            else:
                if 0 in arms:
                    edges.add((bb, arms[0]))
                elif 1 in arms:
                    edges.add((bb, t["otherwise"]))
    return edges


def guarded_by_bool(ck, o, body, pred_events, polarity, targets, pred_name, target_name, fn_key=None):
    """GUARD: every target block is reachable only over an edge where a predicate call
    returned `polarity`."""
    fn_key = fn_key or body.name
    if not pred_events:
        ck.fail(o, fn_key, "no %s test" % pred_name, "%s is never called in %s" % (pred_name, body.name))
        return False
    edges = set()
    for p in pred_events:
        edges |= bool_switch_edges(body, p, polarity)
    if not edges:
        ck.fail(o, fn_key, "%s result not branched on" % pred_name,
                "the result of %s does not control a branch in %s" % (pred_name, body.name), pred_events[0].site())
        return False
    if not targets:
        ck.fail(o, fn_key, "no %s" % target_name, "%s not found in %s" % (target_name, body.name))
        return False
    good = True
    for t in targets:
        bb = t.bb if isinstance(t, Event) else t
        if not body.must_pass_edges(edges, bb):
            good = False
            ck.fail(o, fn_key, "%s not guarded by %s==%s" % (target_name, pred_name, polarity),
                    "%s is reachable without %s being %s: %s" % (target_name, pred_name, polarity,
                                                                 witness(body, bb, removed_edges=edges)),
                    t.site() if isinstance(t, Event) else None)
    if good:
        ck.ok(o, "%d target(s) behind %s==%s" % (len(targets), pred_name, polarity),
              sites=[p.site() for p in pred_events], instances=len(targets))
    return good


def const_arg(op, crate=None):
    """Constant value of an operand if it is one: ('str', s) / ('int', n) / ('adt', path, variant)."""
    if op.get("k") == "const":
        return flow.const_value(op)
    return None


def enum_variant_of_operand(body, op):
    """If operand is a local assigned exactly once from a fieldless enum aggregate,
    return (adt, variant)."""
    l = flow.operand_local(op)
    if l is None:
        return None
    vs = set()
    for (bb, idx, kind, payload) in body.defs.get(l, []):
        if kind == "assign" and payload["rv"]["rk"] == "agg" and payload["rv"].get("ak") == "adt":
            vs.add((payload["rv"]["adt"], payload["rv"]["variant"]))
        else:
            return None
    if len(vs) == 1:
        return next(iter(vs))
    return None


def agg_sites(body, adt, variant=None):
    """(bb, idx, stmt) of constructions of ADT `adt` in live blocks."""
    out = []
    for bb, j, s in body.all_assigns():
        rv = s["rv"]
        if rv["rk"] == "agg" and rv.get("ak") == "adt" and rv["adt"] == adt and (variant is None or rv["variant"] == variant):
            out.append((bb, j, s))
    return out


def field_operand(stmt, field):
    rv = stmt["rv"]
    fs = rv["fields"]
    if field in fs:
        i = fs.index(field)
        if i < len(rv["ops"]):
            return rv["ops"][i]
    return None


def is_derive_body(body):
    return bool(body.def_mac) and "derive" in (body.def_mac or "").lower()


def user_bodies(crate):
    """Bodies written by hand (not produced by a derive / attribute macro expansion of
    serde etc.) and not consts/statics."""
    out = []
    for b in crate.bodies.values():
        if b.kind in ("const", "static", "anon_const", "other"):
            continue
        if not b.file.startswith("src/"):
            continue
        out.append(b)
    return out


def eq_tests(body, self_ty_rx):
    """Equality comparisons on a type: list of (event, polarity) where the event returning
    `polarity` means 'equal'."""
    rx = re.compile(self_ty_rx)
    out = []
    for e in body.events:
        if e.bb not in body.live:
            continue
        c = e.callee or ""
        if c in ("std::cmp::PartialEq::eq", "std::cmp::PartialEq::ne") and rx.search(e.term.get("self_ty") or ""):
            out.append((e, c.endswith("::eq")))
    return out


def ok_payload_locals(body, event):
    """Locals that hold the Ok/Some/Ready payload of the value produced by `event`
    (after `?`, await or a match)."""
    carriers = flow.result_carriers(body, event.dest["l"])
    branch_dests = set()
    for e in body.events:
        if e.callee == "std::ops::Try::branch" and e.args:
            l = flow.operand_local(e.args[0])
            if l in carriers:
                branch_dests.add(e.dest["l"])
    out = set()
    for bb, j, s in body.all_assigns():
        rv = s["rv"]
        if rv["rk"] != "use" or rv["ops"][0].get("k") not in ("copy", "move"):
            continue
        src = rv["ops"][0]["pl"]
        if not src["p"]:
            continue
        if (src["l"] in branch_dests and src["p"][0] == "dc:Continue") or \
                (src["l"] in carriers and src["p"][0] in ("dc:Ok", "dc:Some")):
            if not s["pl"]["p"]:
                out.add(s["pl"]["l"])
    return out


def local_bool_edges(body, start_locals, polarity):
    """Edges taken when one of the bool locals (or a copy / negation of it) == polarity."""
    edges = set()
    tracked = {l: False for l in start_locals}
    changed = True
    while changed:
        changed = False
        for bb, j, s in body.all_assigns():
            if s["pl"]["p"]:
                continue
            rv = s["rv"]
            d = s["pl"]["l"]
            if rv["rk"] == "use":
                l = flow.operand_local(rv["ops"][0])
                if l in tracked and not rv["ops"][0]["pl"]["p"] and d not in tracked:
                    tracked[d] = tracked[l]
                    changed = True
            elif rv["rk"] == "unop" and rv["op"] == "Not":
                l = flow.operand_local(rv["ops"][0])
                if l in tracked and d not in tracked:
                    tracked[d] = not tracked[l]
                    changed = True
    places = _tuple_places(body, tracked)
    for bb in body.live:
        t = body.blocks[bb]["term"]
        if t["tk"] != "switch":
            continue
        l = flow.operand_local(t["discr"])
        pk = (l, tuple(t["discr"]["pl"]["p"])) if l is not None else None
        if (l in tracked and not t["discr"]["pl"]["p"]) or pk in places:
            want = polarity != (tracked[l] if not t["discr"]["pl"]["p"] else places[pk])
            arms = {int(a[0]): a[1] for a in t["arms"]}
            if want:
                if 0 in arms:
                    edges.add((bb, t["otherwise"]))
                if 1 in arms:
                    edges.add((bb, arms[1]))
            else:
                if 0 in arms:
                    edges.add((bb, arms[0]))
                elif 1 in arms:
                    edges.add((bb, t["otherwise"]))
    return edges


def _bool_defs(body, local, neg=False, seen=None):
    """Where the bool in `local` gets its value: list of (bb, 'const', value) | (bb, 'call', event, negated) |
    (bb, 'unknown', None), through copies and `!`."""
    seen = seen if seen is not None else set()
    if (local, neg) in seen:
        return []
    seen.add((local, neg))
    out = []
    for (bb, idx, kind, payload) in body.defs.get(local, []):
        if bb not in body.live:
            continue
        if kind == "assign":
            if payload["pl"]["p"]:
                out.append((bb, "unknown", None))
                continue
            rv = payload["rv"]
            if rv["rk"] == "use":
                op = rv["ops"][0]
                if op.get("k") == "const":
                    cv = flow.const_value(op)
                    if cv[0] == "int" and str(cv[1]) in ("0", "1"):
                        out.append((bb, "const", (str(cv[1]) == "1") != neg))
                    else:
                        out.append((bb, "unknown", None))
                elif not op["pl"]["p"]:
                    out.extend(_bool_defs(body, op["pl"]["l"], neg, seen))
                else:
                    out.append((bb, "unknown", None))
            elif rv["rk"] == "unop" and rv["op"] == "Not" and rv["ops"][0].get("k") != "const" and not rv["ops"][0]["pl"]["p"]:
                out.extend(_bool_defs(body, rv["ops"][0]["pl"]["l"], not neg, seen))
            else:
                out.append((bb, "unknown", None))
        elif kind == "call":
            ev = [e for e in body.events if e.bb == bb]
            out.append((bb, "call", ev[0] if ev else None, neg))
        else:
            out.append((bb, "unknown", None))
    if not body.defs.get(local):
        out.append((0, "unknown", None))
    return out


def reachable_const(body, start, limit=20000, env0=None, removed_nodes=()):
    """Blocks reachable from `start` when bool locals that were just assigned a constant are remembered: after
    `_2 = const true` a `switch(_2)` only takes its true arm (`a || b || c` stored in a temporary and tested later)."""
    seen = set()
    out = set()
    removed_nodes = set(removed_nodes)
    work = [(start, frozenset((env0 or {}).items()))]
    while work and len(seen) < limit:
        bb, env = work.pop()
        if (bb, env) in seen or bb in removed_nodes:
            continue
        seen.add((bb, env))
        out.add(bb)
        blk = body.blocks[bb]
        if blk["cleanup"]:
            continue
        e = dict(env)
        for st in blk["stmts"]:
            if st["sk"] != "assign" or st["pl"]["p"]:
                continue
            d = st["pl"]["l"]
            rv = st["rv"]
            for k_ in [k_ for k_ in e if isinstance(k_, tuple) and k_[0] == d]:
                e.pop(k_, None)
            if rv["rk"] == "agg" and rv.get("ak") == "tuple":
                e.pop(d, None)
                for i_, op in enumerate(rv["ops"]):
                    if op.get("k") != "const" and not op["pl"]["p"] and op["pl"]["l"] in e:
                        e[(d, ("f:%d:" % i_,))] = e[op["pl"]["l"]]
                continue
            if rv["rk"] == "use":
                op = rv["ops"][0]
                if op.get("k") == "const" and "int" in op and str(op["int"]) in ("0", "1") and body.locals[d] == "bool":
                    e[d] = int(op["int"])
                elif op.get("k") != "const" and not op["pl"]["p"] and op["pl"]["l"] in e:
                    e[d] = e[op["pl"]["l"]]
                else:
                    e.pop(d, None)
            elif rv["rk"] == "unop" and rv.get("op") == "Not" and rv["ops"][0].get("k") != "const" and rv["ops"][0]["pl"]["l"] in e and not rv["ops"][0]["pl"]["p"]:
                e[d] = 1 - e[rv["ops"][0]["pl"]["l"]]
            else:
                e.pop(d, None)
        t = blk["term"]
        if t["tk"] == "call" and t.get("dest") and not t["dest"]["p"]:
            e.pop(t["dest"]["l"], None)
        succs = None
        dk_ = None
        if t["tk"] == "switch" and t["discr"].get("k") != "const":
            dk_ = t["discr"]["pl"]["l"] if not t["discr"]["pl"]["p"] else (t["discr"]["pl"]["l"], tuple(t["discr"]["pl"]["p"]))
        if dk_ is not None and dk_ in e:
            v = e[dk_]
            arms = {int(a[0]): a[1] for a in t["arms"]}
            succs = [arms[v]] if v in arms else [t["otherwise"]]
        if succs is None:
            succs = [x for x in body.term_succs(bb)]
        fe = frozenset(e.items())
        for sx in succs:
            if sx is not None and not body.blocks[sx]["cleanup"]:
                work.append((sx, fe))
    return out


def local_implies(body, local, inner, polarity, value):
    """Does the bool `local` having `value` imply that the test event(s) `inner` returned `polarity`? (`let wanted =
    a.test() && !b.test(); if wanted {..}`: every way the local can become `value` is the test's own result in
    the right sense, or lies behind an edge on which the test returned `polarity`.)"""
    edges = set()
    for e in inner:
        edges |= bool_switch_edges(body, e, polarity)
    defs = _bool_defs(body, local)
    if not any(d[1] == "call" and d[2] in inner for d in defs) and not edges:
        return False
    for d in defs:
        bb, kind = d[0], d[1]
        if kind == "const":
            if d[2] != value:
                continue
        elif kind == "call" and d[2] is not None and d[2] in inner:
            if (value != d[3]) == polarity:
                continue
        if not edges or not body.must_pass_edges(edges, bb):
            return False
    return True


def local_implies_any(body, local, inner, extra_edges, value):
    """Does the bool `local` having `value` imply that at least one of the tests in `inner` ({event: polarity}) had its
    polarity, or that one of `extra_edges` was taken?  (`let occupied = !overwrite && dir.next().is_some();` - occupied
    false implies overwrite, or an empty directory.)"""
    edges = set(extra_edges)
    for e, pol in inner.items():
        edges |= bool_switch_edges(body, e, pol)
    for d in _bool_defs(body, local):
        bb, kind = d[0], d[1]
        if kind == "const":
            if d[2] != value:
                continue
        elif kind == "call" and d[2] is not None and d[2] in inner:
            if (value != d[3]) == inner[d[2]]:
                continue
        if not edges or not body.must_pass_edges(edges, bb):
            return False
    return True


def joined_bool_edges(body, e, polarity):
    """Edges of switches on a bool local that combines the result of test `e` with constants or other tests
    (`let wanted = e() && ..`), taken when the local's value implies e == polarity."""
    out = set()
    direct = set()
    for pol in (True, False):
        direct |= {u for (u, v) in bool_switch_edges(body, e, pol)}
    for bb in body.live:
        t = body.blocks[bb]["term"]
        if t["tk"] != "switch" or bb in direct:
            continue
        l = flow.operand_local(t["discr"])
        if l is None or t["discr"]["pl"]["p"] or body.locals[l] != "bool":
            continue
        defs = _bool_defs(body, l)
        if not any(d[1] == "call" and d[2] is e for d in defs) and \
                not any(d[1] == "const" for d in defs):
            continue
        if not (any(d[1] == "call" and d[2] is e for d in defs) or
                any(body.must_pass_edges(bool_switch_edges(body, e, p_), d[0]) for d in defs for p_ in (True, False) if bool_switch_edges(body, e, p_))):
            continue
        for val in (True, False):
            if local_implies(body, l, [e], polarity, val):
                out |= local_bool_edges(body, {l}, val)
    return out


def helper_implies(crate, hb, fn, polarity, value):
    """In the bool-returning body `hb`: does returning `value` imply that a call of `fn` in it returned
    `polarity`? (Every way _0 can become `value` either IS fn's result with the right sense, or lies behind
    an edge on which fn returned `polarity`.)"""
    inner = [e for e in hb.events if e.bb in hb.live and e.callee != POLL and (e.resolved == fn or (e.resolved is None and e.callee == fn))]
    if not inner:
        return False
    edges = set()
    for e in inner:
        edges |= bool_switch_edges(hb, e, polarity)
    for d in _bool_defs(hb, 0):
        bb, kind = d[0], d[1]
        if kind == "const":
            if d[2] != value:
                continue
        elif kind == "call" and d[2] is not None and d[2] in inner:
            # _0 = fn(..) or !fn(..): equals `value` exactly when fn == value ^ negated
            if (value != d[3]) == polarity:
                continue
        if not edges or not hb.must_pass_edges(edges, bb):
            return False
    return True


def helper_implies_any(crate, hb, alts, value):
    """In the bool-returning body `hb`: does returning `value` imply that AT LEAST ONE of the tests in `alts`
    ({fn: polarity}) had its polarity?  (`is_selected == false` implies `!is_prefix_of || matches`.)"""
    inner = {}
    for e in hb.events:
        if e.bb in hb.live and e.callee != POLL:
            n = e.resolved or (e.callee if e.resolved is None else None)
            if n in alts:
                inner[e] = alts[n]
    if not inner:
        return False
    edges = set()
    for e, pol in inner.items():
        edges |= bool_switch_edges(hb, e, pol)
    for d in _bool_defs(hb, 0):
        bb, kind = d[0], d[1]
        if kind == "const":
            if d[2] != value:
                continue
        elif kind == "call" and d[2] is not None and d[2] in inner:
            if (value != d[3]) == inner[d[2]]:
                continue
        if not edges or not hb.must_pass_edges(edges, bb):
            return False
    return True


class PredSite:
    """An occurrence, in `body`, of the bool test `fn`: called directly, or through a private bool helper whose
    result decides it. `edges[polarity]` are the edges of `body` on which fn is known to have returned polarity."""

    def __init__(self, crate, body, event, inner_body, inner_event, edges):
        self.crate, self.body, self.event, self.inner_body, self.inner_event, self.edges = crate, body, event, inner_body, inner_event, edges

    def site(self):
        return self.event.site()

    def arg_origins(self, i, **kw):
        """Origins of fn's i-th argument, in terms of `body` (helper parameters are followed to the call)."""
        o = flow.origins_x(self.crate, self.inner_body, self.inner_event.args[i], **kw)
        if self.inner_body is self.body:
            return o
        hb = self.inner_body
        names = {hb.local_names.get(l, l): l for l in range(1, hb.arg_count + 1)}
        out = set()
        for x in o:
            if x[0] == "param" and x[1] in names and names[x[1]] - 1 < len(self.event.args):
                for y in flow.origins_x(self.crate, self.body, self.event.args[names[x[1]] - 1], **kw):
                    if y[0] in ("param", "upvar"):
                        out.add((y[0], y[1], tuple(y[2]) + tuple(x[2])))
                    elif y[0] == "call":
                        out.add(("call", y[1], y[2], tuple(y[3]) + tuple(x[2])))
                    else:
                        out.add(y)
            else:
                out.add(x)
        return out


def predicate_sites(crate, body, fn):
    out = []
    for e in body.events:
        if e.bb not in body.live or e.callee == POLL or e.dest is None:
            continue
        tgt = e.resolved or (e.callee if e.resolved is None else None) or ""
        if tgt == fn:
            out.append(PredSite(crate, body, e, body, e, {True: bool_switch_edges(body, e, True) | joined_bool_edges(body, e, True),
                                                          False: bool_switch_edges(body, e, False) | joined_bool_edges(body, e, False)}))
            continue
        hb = crate.bodies.get(tgt)
        if hb is None or hb is body or (hb.ret or "") != "bool" or hb.kind not in ("fn", "assoc_fn"):
            continue
        inner = [x for x in hb.events if x.bb in hb.live and x.callee != POLL and (x.resolved == fn or (x.resolved is None and x.callee == fn))]
        if not inner:
            continue
        edges = {True: set(), False: set()}
        for pol in (True, False):
            for val in (True, False):
                if helper_implies(crate, hb, fn, pol, val):
                    edges[pol] |= bool_switch_edges(body, e, val)
        out.append(PredSite(crate, body, e, hb, inner[0], edges))
    return out


_CMP_EVAL = {"Eq": lambda a, b: a == b, "Ne": lambda a, b: a != b, "Lt": lambda a, b: a < b, "Le": lambda a, b: a <= b,
             "Gt": lambda a, b: a > b, "Ge": lambda a, b: a >= b}


def nonempty_edges(body, is_target):
    """Edges on which the collection selected by `is_target(operand)` is known to hold at least one element:
    the false edge of `x.is_empty()`, and the edge of a comparison of `x.len()` with a constant that the value
    0 does not take (`len == 0` false, `len != 0` true, `len > 0`, `len >= 1`, `0 < len`, `len < 1` false ...)."""
    edges = set()
    lens = set()
    for e in body.events:
        if e.bb not in body.live or not e.args or e.dest is None or e.dest["p"]:
            continue
        if e.name.endswith("::is_empty") and is_target(e.args[0]):
            edges |= bool_switch_edges(body, e, False)
        elif e.name.endswith("::len") and is_target(e.args[0]):
            lens |= {l for l in flow.result_carriers(body, e.dest["l"])}
    for bb, j, s in body.all_assigns():
        rv = s["rv"]
        if rv["rk"] != "binop" or rv["op"] not in _CMP_EVAL or s["pl"]["p"]:
            continue
        a, b = rv["ops"]
        la, lb = flow.operand_local(a), flow.operand_local(b)
        ca = flow.const_value(a) if a.get("k") == "const" else None
        cb = flow.const_value(b) if b.get("k") == "const" else None
        try:
            if la in lens and not a["pl"]["p"] and cb and cb[0] == "int":
                at_zero = _CMP_EVAL[rv["op"]](0, int(cb[1]))
            elif lb in lens and not b["pl"]["p"] and ca and ca[0] == "int":
                at_zero = _CMP_EVAL[rv["op"]](int(ca[1]), 0)
            else:
                continue
        except (TypeError, ValueError):
            continue
        edges |= local_bool_edges(body, {s["pl"]["l"]}, not at_zero)
    return edges


def field_read_locals(body, field):
    """Locals assigned from a read of a struct field named `field`."""
    out = set()
    for bb, j, s in body.all_assigns():
        rv = s["rv"]
        if rv["rk"] == "use" and rv["ops"][0].get("k") in ("copy", "move") and not s["pl"]["p"]:
            p = rv["ops"][0]["pl"]["p"]
            if p and p[-1].startswith("f:") and p[-1].split(":", 2)[2] == field:
                out.add(s["pl"]["l"])
    return out


def is_increment_by_one(body, stmt):
    """Is `stmt` (an assignment to a counter field) `x = x + 1` (checked or unchecked add)?"""
    rv = stmt["rv"]
    if rv["rk"] == "binop":
        return rv["op"].startswith("Add") and any(op.get("k") == "const" and op.get("int") == "1" for op in rv["ops"])
    if rv["rk"] == "use":
        orig = flow.origins(body, rv["ops"][0])
        adds = [x for x in orig if x[0] == "arith"]
        ones = [x for x in orig if x[0] == "const" and x[1] == "int" and x[2] == "1"]
        return bool(adds) and all(a[1].startswith("Add") for a in adds) and bool(ones)
    return False
