"""PRED / TABLE: enumerate the paths of a loop-free body symbolically.

Each path yields the polarity of every boolean atom decided on it (comparison calls,
bool-returning calls, binary comparisons, enum discriminant tests), the marker calls it
passes, and the symbolic return value."""
import re

from . import flow


class NotLoopFree(Exception):
    pass


class TooManyPaths(Exception):
    pass


CMP_BINOPS = {"Eq": ("eq", False), "Ne": ("eq", True), "Lt": ("lt", False), "Ge": ("lt", True),
              "Gt": ("gt", False), "Le": ("gt", True)}


def describe(crate, body, op, depth=0):
    """A stable, human-readable description of what an operand is: `accessor(param)`,
    `Enum::Variant`, `param.field`, a constant ..."""
    if op.get("k") == "const":
        cv = flow.const_value(op)
        return "%s" % (cv[1],)
    orig = flow.origins_x(crate, body, op)
    parts = set()
    for o in orig:
        if o[0] == "call":
            name = o[1]
            short = name.split("::")[-1]
            # describe the receiver of the call
            recv = None
            for e in body.events:
                if e.bb == o[2]:
                    if e.args and depth < 3:
                        recv = describe(crate, body, e.args[0], depth + 1)
                    if e.callee == "std::future::Future::poll":
                        recv = None
            fld = ("." + ".".join(o[3])) if o[3] else ""
            parts.add("%s(%s)%s" % (short, recv or "", fld))
        elif o[0] == "param":
            parts.add("%s%s" % (o[1], ("." + ".".join(o[2])) if o[2] else ""))
        elif o[0] == "upvar":
            parts.add("%s%s" % (o[1], ("." + ".".join(o[2])) if o[2] else ""))
        elif o[0] == "enum":
            parts.add("%s::%s" % (o[1].split("::")[-1], o[2]))
        elif o[0] == "const":
            parts.add(str(o[2]))
        elif o[0] in ("via",):
            continue
        elif o[0] == "agg":
            parts.add("agg:%s" % str(o[1]).split("::")[-1])
        else:
            parts.add(o[0])
    return "|".join(sorted(parts))


def enumerate_paths(crate, body, markers=None, max_paths=4096, atom_calls=None):
    """Return list of dict(constraints={atom: value}, markers=[...], ret=sym).

    atom = (kind, frozenset/tuple of operand descriptions); value is bool (or the
    discriminant integer for enum tests).  sym = ('const', n) | ('atom', atom, negated) | ('unk',)"""
    markers = re.compile(markers) if markers else None
    atom_calls = re.compile(atom_calls) if atom_calls else None
    paths = []
    desc_cache = {}

    def dsc(op):
        k = repr(op)
        if k not in desc_cache:
            desc_cache[k] = describe(crate, body, op)
        return desc_cache[k]

    def step(bb, env, cons, marks, visited):
        if len(paths) > max_paths:
            raise TooManyPaths(body.name)
        if bb in visited:
            raise NotLoopFree("%s revisits bb%d" % (body.name, bb))
        visited = visited | {bb}
        env = dict(env)
        blk = body.blocks[bb]
        for s in blk["stmts"]:
            if s["sk"] != "assign" or s["pl"]["p"]:
                continue
            d = s["pl"]["l"]
            rv = s["rv"]
            if rv["rk"] == "use":
                op = rv["ops"][0]
                if op.get("k") == "const":
                    env[d] = ("const", int(op["int"])) if "int" in op and "uneval" not in op else ("unk",)
                elif not op["pl"]["p"] and op["pl"]["l"] in env:
                    env[d] = env[op["pl"]["l"]]
                    for k_ in [k_ for k_ in env if isinstance(k_, tuple) and k_[0] == op["pl"]["l"]]:
                        env[(d, k_[1])] = env[k_]
                else:
                    env[d] = ("unk",)
            elif rv["rk"] == "unop" and rv["op"] == "Not":
                l = flow.operand_local(rv["ops"][0])
                v = env.get(l, ("unk",))
                if v[0] == "const":
                    env[d] = ("const", 0 if v[1] else 1)
                elif v[0] == "atom":
                    env[d] = ("atom", v[1], not v[2])
                else:
                    env[d] = ("unk",)
            elif rv["rk"] == "binop" and rv["op"] in CMP_BINOPS:
                kind, neg = CMP_BINOPS[rv["op"]]
                a, b = rv["ops"]
                if kind == "eq":
                    atom = ("eq", frozenset([dsc(a), dsc(b)]))
                else:
                    atom = (kind, (dsc(a), dsc(b)))
                env[d] = ("atom", atom, neg)
            elif rv["rk"] == "discr":
                src_v = env.get(rv["pl"]["l"], ("unk",)) if rv["pl"]["p"] in ([], ["*"]) else ("unk",)
                if len(rv["pl"]["p"]) == 1 and rv["pl"]["p"][0].startswith("f:"):
                    src_v = env.get((rv["pl"]["l"], rv["pl"]["p"][0]), ("unk",))       # a field of a tuple built on this path
                if src_v[0] == "variant":
                    env[d] = ("const", src_v[2])          # the variant was built on this very path
                else:
                    env[d] = ("discr", describe(crate, body, {"k": "copy", "pl": rv["pl"]}))
            elif rv["rk"] == "agg" and rv.get("ak") == "adt" and "vidx" in rv:
                # an enum value built on this path (`ChangeKind::Unchanged`, `Turn::from(..)`'s arms): remembered, so that a later
                # match on it, or a derived `==` against another such value, is decided instead of explored both ways
                env[d] = ("variant", rv.get("adt"), int(rv["vidx"]), not rv.get("ops"))
            elif rv["rk"] == "ref" and rv["pl"]["p"] in ([], ["*"]) and env.get(rv["pl"]["l"], ("unk",))[0] == "variant":
                env[d] = env[rv["pl"]["l"]]
            elif rv["rk"] == "agg" and rv.get("ak") == "tuple":
                # `(Some(a), None)`: remember which variants the fields hold, for a `match` on the tuple further down this path
                env[d] = ("unk",)
                for k_ in [k_ for k_ in env if isinstance(k_, tuple) and k_[0] == d]:
                    env.pop(k_)
                for i_, op_ in enumerate(rv["ops"]):
                    l_ = flow.operand_local(op_)
                    if l_ is not None and op_.get("k") != "const" and not op_["pl"]["p"] and env.get(l_, ("unk",))[0] == "variant":
                        env[(d, "f:%d:" % i_)] = env[l_]
            else:
                env[d] = ("unk",)
        t = blk["term"]
        k = t["tk"]
        if k == "return":
            paths.append({"constraints": cons, "markers": marks, "ret": env.get(0, ("unk",))})
            return
        if k in ("unreachable", "resume", "terminate", "cordrop"):
            return
        if k == "call":
            name = t.get("resolved") or t.get("callee") or ""
            decl = t.get("callee") or ""
            marks2 = marks
            if markers and (markers.search(name) or markers.search(decl)):
                marks2 = marks + [name]
            d = t["dest"]["l"]
            if not t["dest"]["p"]:
                va = [env.get(flow.operand_local(a), ("unk",)) if a.get("k") != "const" and not a["pl"]["p"] else ("unk",) for a in t["args"][:2]]
                if decl in ("std::cmp::PartialEq::eq", "std::cmp::PartialEq::ne") and len(t["args"]) == 2 and \
                        va[0][0] == "variant" and va[1][0] == "variant" and va[0][1] == va[1][1] and va[0][3] and va[1][3] and \
                        name.startswith("<%s as " % va[0][1]) and "{closure" not in name and _derived_eq(crate, name):
                    # derived equality of two field-less variants known on this path
                    same = va[0][2] == va[1][2]
                    env[d] = ("const", 1 if same != decl.endswith("::ne") else 0)
                elif decl in ("std::cmp::PartialEq::eq", "std::cmp::PartialEq::ne") and len(t["args"]) == 2:
                    atom = ("eq", frozenset([dsc(t["args"][0]), dsc(t["args"][1])]))
                    env[d] = ("atom", atom, decl.endswith("::ne"))
                elif body.locals[d] == "bool":
                    short = name.split("::")[-1]
                    atom = ("call:" + short, tuple(dsc(a) for a in t["args"]))
                    env[d] = ("atom", atom, False)
                else:
                    env[d] = ("unk",)
            if t["t"] is None:
                return
            if body.blocks[t["t"]]["cleanup"]:
                return
            step(t["t"], env, cons, marks2, visited)
            return
        if k == "switch":
            cv = body._const_discr(bb, t)
            dl = flow.operand_local(t["discr"])
            v = env.get(dl, ("unk",)) if dl is not None else ("unk",)
            arms = [(int(a[0]), a[1]) for a in t["arms"]]
            if cv is not None or v[0] == "const":
                val = cv if cv is not None else v[1]
                for a, tgt in arms:
                    if a == val:
                        step(tgt, env, cons, marks, visited)
                        return
                step(t["otherwise"], env, cons, marks, visited)
                return
            if v[0] == "atom":
                atom, neg = v[1], v[2]
                listed = dict(arms)
                # value of the switched local: 0 = false
                for local_val, tgt in ((0, listed.get(0, t["otherwise"])), (1, t["otherwise"] if 0 in listed else listed.get(1))):
                    if tgt is None:
                        continue
                    atom_val = (local_val == 1) != neg
                    if atom in cons and cons[atom] != atom_val:
                        continue
                    c2 = dict(cons)
                    c2[atom] = atom_val
                    step(tgt, env, c2, marks, visited)
                return
            if v[0] == "discr":
                atom = ("discr", v[1])
                for a, tgt in arms:
                    if atom in cons and cons[atom] != a:
                        continue
                    c2 = dict(cons)
                    c2[atom] = a
                    step(tgt, env, c2, marks, visited)
                if not (atom in cons and isinstance(cons[atom], int) and cons[atom] in dict(arms)):
                    if body.blocks[t["otherwise"]]["term"]["tk"] != "unreachable":
                        c2 = dict(cons)
                        if atom not in c2:
                            c2[atom] = ("other",) + tuple(sorted(a for a, _ in arms))      # none of the listed values
                        step(t["otherwise"], env, c2, marks, visited)
                return
            # unknown discriminant: explore all
            for a, tgt in arms:
                step(tgt, env, cons, marks, visited)
            step(t["otherwise"], env, cons, marks, visited)
            return
        for sx in body.term_succs(bb):
            if not body.blocks[sx]["cleanup"]:
                step(sx, env, cons, marks, visited)
                return

    step(0, {}, {}, [], frozenset())
    return paths


def _derived_eq(crate, impl_fn):
    """Is `<T as PartialEq>::eq` the derived one (compares discriminants and fields)? The driver marks derive output."""
    b = crate.bodies.get(impl_fn)
    if b is None:
        return False
    return bool(b.def_mac) or "derive" in str(b.d.get("attrs", "")) or b.d.get("from_derive") is True or _looks_derived_eq(b)


def _looks_derived_eq(b):
    # a derived eq on a field-less enum: reads both discriminants and compares them, nothing else
    calls = [e for e in b.events if e.bb in b.live]
    discr = [1 for bb, j, s in b.all_assigns() if s["rv"]["rk"] == "discr"]
    return len(discr) >= 2 and all("discriminant_value" in e.name or "PartialEq" in e.name for e in calls)


def atoms_true_when(paths, selector):
    """For the paths selected (selector(path) -> bool/augmented constraints or None),
    return the set of (atom, value) pairs common to ALL of them."""
    common = None
    n = 0
    for p in paths:
        c = selector(p)
        if c is None:
            continue
        n += 1
        items = set(c.items())
        common = items if common is None else (common & items)
    return common or set(), n
