"""PAIR: two fields of a struct must be reset together on every exit of every method."""
import re

from . import flow

RESET_CALLS = re.compile(
    r"^std::mem::take$|^std::mem::replace$|::clear$|^std::vec::Vec::<T, A>::drain$|^std::vec::Vec::<T, A>::split_off$"
    r"|^bytes::BytesMut::split$|^bytes::BytesMut::split_to$|^bytes::BytesMut::split_off$|^std::vec::Vec::<T, A>::truncate$|^bytes::BytesMut::truncate$"
)


def reset_events(crate, body, field):
    """(bb, description) of operations in `body` that empty self.<field>."""
    out = []
    for e in body.events:
        if e.bb not in body.live or not e.args:
            continue
        if not RESET_CALLS.search(e.name):
            continue
        if e.name.endswith("::truncate"):
            a = e.args[1] if len(e.args) > 1 else {}
            if not (a.get("k") == "const" and a.get("int") == "0"):
                continue
        if e.name.endswith("::split_off") or e.name.endswith("::split_to"):
            a = e.args[1] if len(e.args) > 1 else {}
            if not (a.get("k") == "const" and a.get("int") == "0"):
                continue
        orig = flow.origins_x(crate, body, e.args[0])
        for o in orig:
            path = o[2] if o[0] in ("param", "upvar") else ()
            if path and path[-1] == field and (o[1] == "self" or str(o[1]).startswith("self")):
                out.append((e.bb, "%s@L%s" % (e.name.split("::")[-1], e.line)))
                break
    # whole-field assignment
    for bb, j, s in body.all_assigns():
        p = s["pl"]["p"]
        if p and p[-1].startswith("f:") and p[-1].split(":", 2)[2] == field:
            out.append((bb, "assign@L%s" % s["line"]))
    return out


def exit_states(body, resets_a, resets_b):
    """Forward dataflow over the real-edge CFG of the set of possible (a_reset, b_reset)
    pairs; returns {return_bb: set of pairs}."""
    ra = {bb for bb, _ in resets_a}
    rb = {bb for bb, _ in resets_b}
    state = {0: {(False, False)}}
    wl = [0]
    while wl:
        u = wl.pop()
        outs = set()
        for (a, b) in state[u]:
            outs.add((a or u in ra, b or u in rb))
        for v in body.succ[u]:
            cur = state.setdefault(v, set())
            if not outs <= cur:
                cur |= outs
                wl.append(v)
    res = {}
    for r in body.return_blocks():
        outs = set()
        for (a, b) in state.get(r, set()):
            outs.add((a or r in ra, b or r in rb))
        res[r] = outs
    return res


def mismatch_witness(body, resets_a, resets_b, want):
    """A path to a return on which the reset flags end up as `want`=(a,b)."""
    ra = {bb for bb, _ in resets_a}
    rb = {bb for bb, _ in resets_b}
    from collections import deque
    start = (0, False, False)
    prev = {start: None}
    dq = deque([start])
    while dq:
        u, a, b = dq.popleft()
        a2, b2 = a or u in ra, b or u in rb
        if body.blocks[u]["term"]["tk"] == "return" and (a2, b2) == want:
            path = []
            cur = (u, a, b)
            while cur is not None:
                path.append(cur[0])
                cur = prev[cur]
            return path[::-1]
        for v in body.succ[u]:
            nxt = (v, a2, b2)
            if nxt not in prev:
                prev[nxt] = (u, a, b)
                dq.append(nxt)
    return None
