"""Dissolve private helpers the rules know nothing about.

A rule is written against the functions it names (its anchors).  Extracting a few statements of
an anchored function into a new module-private helper changes nothing in behaviour but moves the
calls, aggregates and tests the rule looks for into another body.  To keep the rules about the
behaviour and not about where the statements happen to live, every module-private, non-trait,
non-recursive function whose name no rule mentions is inlined into its callers on the MIR facts
before any rule runs (sync fns at the call, async fns at the poll of their future), and then
removed from the program.  Functions named by a rule are never dissolved, so every anchor
keeps its own body.

The copy is return-path sensitive for helpers returning Result: blocks after the assignment of
the return value are duplicated per variant (Ok / Err) and, where the caller tests the result with
`?` or a match right after the call, each copy continues at the matching arm.  Without that, the
error return of the helper would merge with its normal return and `a()?; b()` split over a helper
would seem to allow b after a failed a.
"""
import copy
import glob
import os
import re

from . import flow
from . import mir

POLL = "std::future::Future::poll"
NONE, OK, ERR, UNK = "none", "ok", "err", "unk"
_WORD = re.compile(r"[A-Za-z_][A-Za-z0-9_]*")
_NOISE_OK_IN_CHAIN = re.compile(r"Try>?::branch$|::from_residual$|^std::result::Result::<T, E>::(map_err|inspect_err|inspect)$|Into>?::into$|From<.*>>?::from$"
                                r"|^std::convert::(Into::into|From::from)$")


def load_vocab():
    """The text of every rule module (and of the known-findings file): a function is 'known to the rules' if that
    text names it (see _known)."""
    here = os.path.dirname(os.path.abspath(__file__))
    ana = os.path.dirname(here)
    files = glob.glob(os.path.join(ana, "props", "*.py"))
    for n in ("rules", "err", "taint", "graph", "pair", "pred", "fmtshape", "flow"):
        files.append(os.path.join(here, n + ".py"))
    kf = os.path.join(os.path.dirname(ana), "known_findings.json")
    if os.path.exists(kf):
        files.append(kf)
    text = []
    for f in files:
        with open(f) as fh:
            text.append(fh.read())
    return "\n".join(text)


_GENERIC = re.compile(r"<[^<>]*>")


def _known(name, text):
    """Does the rule text name this function? Methods must be named with their type (`Type::method`, also inside a
    regex alternation `Type::(a|b)`); free functions by `module::name` or by their bare name as a word."""
    segs = name.split("::")
    last = segs[-1]
    if len(segs) < 2:
        return bool(re.search(r"\b%s\b" % re.escape(last), text))
    parent = segs[-2]
    while _GENERIC.search(parent):
        parent = _GENERIC.sub("", parent)
    if not parent and len(segs) >= 3:       # `Type::<A, B>::method` splits into ['Type', '<A, B>', 'method']
        parent = _GENERIC.sub("", segs[-3])
    if ("%s::%s" % (parent, last)) in text:
        return True
    if re.search(re.escape(parent) + r"::\\?\((?:[^)]*\|)?" + re.escape(last) + r"(?:\|[^)]*)?\\?\)", text):
        return True
    is_method = parent[:1].isupper() or parent.startswith("<")
    if not is_method:
        return bool(re.search(r"(?<![A-Za-z0-9_])%s(?![A-Za-z0-9_])" % re.escape(last), text))
    return False


def _module_private(b):
    """Not part of the public API: private to a module, or pub(crate) / pub(super)."""
    vis = b.d.get("vis") or ""
    return vis.startswith("Restricted")


def _candidates(crate, vocab):
    H = {}
    for name, b in crate.bodies.items():
        if b.kind not in ("fn", "assoc_fn") or not b.file.startswith("src/") or b.trait or b.def_mac:
            continue
        if not _module_private(b):
            continue
        if _known(name, vocab):
            continue
        # predicates stay what they are: a bool-returning helper is a named test, and rules look at tests as events
        # (through the helper, see rules.events_of / props.common.presence_tests)
        if (b.ret or "") == "bool":
            continue
        cor_ = crate.bodies.get(name + "::{closure#0}")
        if cor_ is not None and cor_.kind == "coroutine" and (cor_.ret or "") == "bool":
            continue
        cor = crate.bodies.get(name + "::{closure#0}")
        if cor is not None and cor.kind == "coroutine":
            # async fn: the shell must be the plain trampoline (one aggregate, no calls)
            aggs = [s for blk in b.blocks if not blk["cleanup"] for s in blk["stmts"]
                    if s["sk"] == "assign" and s["rv"]["rk"] == "agg" and s["rv"].get("ak") == "closure"]
            calls = [blk for blk in b.blocks if not blk["cleanup"] and blk["term"]["tk"] in ("call", "tailcall")]
            if len(aggs) != 1 or aggs[0]["rv"]["closure"] != cor.name or calls:
                continue
            if any(blk["term"]["tk"] == "call" and "tracing::instrument" in (blk["term"].get("resolved") or blk["term"].get("callee") or "")
                   for blk in cor.blocks):
                continue
            H[name] = ("async", b, cor)
        else:
            H[name] = ("sync", b, None)
    # a helper used as a value (fn pointer) cannot be dissolved
    used_as_value = set()
    for b in crate.bodies.values():
        for blk in b.blocks:
            for s in blk["stmts"]:
                if s["sk"] == "assign":
                    for op in s["rv"].get("ops", []):
                        if op.get("k") == "const" and "fn" in op:
                            used_as_value.add(op["fn"])
            t = blk["term"]
            for op in t.get("args", []):
                if op.get("k") == "const" and "fn" in op:
                    used_as_value.add(op["fn"])
    for n in list(H):
        if n in used_as_value:
            del H[n]
    return H


def _callee_of(t):
    if t["tk"] != "call":
        return None
    if t.get("rkind") == "virtual":
        return None
    return t.get("resolved") or t.get("callee")


def _helper_refs(body, H):
    """Helper names called (sync) or created (async) in this body."""
    out = set()
    for blk in body.blocks:
        if blk["cleanup"]:
            continue
        n = _callee_of(blk["term"])
        if n in H and blk["term"].get("callee") != POLL:
            out.add(n)
    return out


# ------------------------------------------------------------------------------------------------
# copying


def _ren_place(pl, offL):
    pl["l"] += offL
    p = pl["p"]
    for k, e in enumerate(p):
        if e.startswith("idx:"):
            p[k] = "idx:%d" % (int(e[4:]) + offL)


def _ren_any(x, offL):
    """Rename every place inside a copied JSON fragment."""
    if isinstance(x, dict):
        if "l" in x and "p" in x and isinstance(x.get("p"), list) and isinstance(x.get("l"), int):
            _ren_place(x, offL)
            return
        for v in x.values():
            _ren_any(v, offL)
    elif isinstance(x, list):
        for v in x:
            _ren_any(v, offL)


def _raw_succs(t):
    k = t["tk"]
    if k == "goto":
        return [t["t"]]
    if k == "switch":
        return [a[1] for a in t["arms"]] + [t["otherwise"]]
    if k in ("drop", "assert", "yield"):
        return [t["t"]]
    if k == "call":
        return [t["t"]] if t["t"] is not None else []
    return []


def _exit_tag(blk, tag, tagging):
    """Tag of the return value after executing the block's statements (not its terminator)."""
    if not tagging:
        return NONE
    for s in blk["stmts"]:
        if s["pl"]["l"] != 0:
            continue
        if s["sk"] == "assign" and not s["pl"]["p"]:
            rv = s["rv"]
            if rv["rk"] == "agg" and rv.get("ak") == "adt" and rv.get("adt") == "std::result::Result" and tagging in (True, "std::result::Result"):
                tag = OK if rv.get("variant") == "Ok" else ERR
                if tag == OK and rv.get("ops"):
                    # Ok(None) / Ok(Some(..)) built right here: remember which (Result<Option<T>> helpers)
                    pl_ = flow.operand_local(rv["ops"][0])
                    for s2 in blk["stmts"]:
                        if s2 is s:
                            break
                        if s2["sk"] == "assign" and s2["pl"]["l"] == pl_ and not s2["pl"]["p"] and pl_ is not None:
                            rv2 = s2["rv"]
                            if rv2["rk"] == "agg" and rv2.get("ak") == "adt" and rv2.get("adt") == "std::option::Option" and "vidx" in rv2:
                                tag = "ok:v%d" % int(rv2["vidx"])
                            else:
                                tag = OK
            elif rv["rk"] == "agg" and rv.get("ak") == "adt" and rv.get("adt") == tagging and "vidx" in rv:
                tag = "v%d" % int(rv["vidx"])          # which variant of the returned enum was built on this path
            else:
                tag = UNK
        else:
            tag = UNK
    return tag


def _term_tag(t, tag, tagging):
    if not tagging:
        return NONE
    if t["tk"] == "call" and t["dest"]["l"] == 0:
        name = t.get("resolved") or t.get("callee") or ""
        if not t["dest"]["p"] and (name.endswith("::from_residual") or (t.get("callee") or "").endswith("::from_residual")):
            if tagging in (True, "std::result::Result"):
                return ERR
            if tagging == "std::option::Option":
                return "v0"
        return UNK
    return tag


def _copy_body(h, offL, offB, tagging):
    """Product (block x return-value tag) copy of the non-cleanup blocks of `h`.
    Returns (blocks, exits) with exits = [(new index, tag)] for the copied Return blocks."""
    idx = {}
    order = []
    wl = [(0, NONE)]
    while wl:
        node = wl.pop()
        if node in idx:
            continue
        b, tag = node
        blk = h.blocks[b]
        if blk["cleanup"]:
            continue
        idx[node] = offB + len(order)
        order.append(node)
        t1 = _exit_tag(blk, tag, tagging)
        t2 = _term_tag(blk["term"], t1, tagging)
        for s in _raw_succs(blk["term"]):
            if not h.blocks[s]["cleanup"]:
                wl.append((s, t2))
        if len(order) > 6000:
            raise RuntimeError("helper too large to inline: " + h.name)
    blocks = []
    exits = []
    for (b, tag) in order:
        blk = copy.deepcopy(h.blocks[b])
        _ren_any(blk["stmts"], offL)
        t = blk["term"]
        t1 = _exit_tag(h.blocks[b], tag, tagging)
        t2 = _term_tag(h.blocks[b]["term"], t1, tagging)
        for key in ("args", "dest", "discr", "pl", "cond", "mops", "value", "resume_arg"):
            if key in t:
                _ren_any(t[key], offL)

        def m(s):
            return idx.get((s, t2))
        k = t["tk"]
        if k in ("goto", "drop", "assert", "yield", "call"):
            if t.get("t") is not None:
                t["t"] = m(t["t"])
        if k == "switch":
            t["arms"] = [[a[0], m(a[1])] for a in t["arms"]]
            t["otherwise"] = m(t["otherwise"])
        for key in ("unwind", "imag", "drop"):
            if key in t and isinstance(t[key], int) and key != "drop":
                t[key] = None
        if k == "yield":
            t["drop"] = None
        if k == "return":
            exits.append((idx[(b, tag)], t1))
        blk["inl"] = h.name
        blocks.append(blk)
    return blocks, exits


def _assign(pl, rv, line):
    return {"sk": "assign", "pl": pl, "rv": rv, "line": line, "exp": False, "mac": None}


def _use(op):
    return {"rk": "use", "ops": [op]}


def _mv(local):
    return {"k": "move", "pl": {"l": local, "p": []}}


def _goto(t, src):
    return {"tk": "goto", "t": t, "line": src.get("line"), "exp": src.get("exp", False), "mac": src.get("mac")}


# ------------------------------------------------------------------------------------------------
# continuation threading in the caller


def _thread(B, c0, r_local, tagging=True, tags=(OK, ERR)):
    """From block c0 (where the helper's result in r_local becomes available) follow the straight
    line to the switch that tests it for Ok/Err.  Returns {OK: block, ERR: block} - entry blocks of
    two copies of that line ending in a jump to the respective arm - or {} if there is no such
    simple test."""
    if c0 is None:
        return {}
    B.n = len(B.blocks)
    carriers = flow.result_carriers(B, r_local)
    chain = []
    cur = c0
    try_dest = set()
    found = None
    for _ in range(24):
        if cur is None or cur in chain:
            return {}
        blk = B.blocks[cur]
        if blk["cleanup"]:
            return {}
        chain.append(cur)
        t = blk["term"]
        k = t["tk"]
        if k in ("goto", "drop"):
            cur = t["t"]
            continue
        if k == "call":
            name = t.get("resolved") or t.get("callee") or ""
            decl = t.get("callee") or ""
            if not (_NOISE_OK_IN_CHAIN.search(name) or _NOISE_OK_IN_CHAIN.search(decl)):
                return {}
            a0 = t["args"][0] if t["args"] else None
            l = flow.operand_local(a0) if a0 else None
            if decl.endswith("Try::branch") and l in carriers:
                try_dest.add(t["dest"]["l"])
            cur = t["t"]
            continue
        if k == "switch":
            dl = flow.operand_local(t["discr"])
            tested = None
            for s in reversed(blk["stmts"]):
                if s["sk"] == "assign" and s["pl"]["l"] == dl and not s["pl"]["p"]:
                    if s["rv"]["rk"] == "discr" and not s["rv"]["pl"]["p"]:
                        tested = s["rv"]["pl"]["l"]
                    break
            arms = {int(a[0]): a[1] for a in t["arms"]}
            head = "std::result::Result" if tagging is True else tagging
            if tested is not None and (tested in try_dest or (tested in carriers and B.locals[tested].startswith(head))):
                found = {}
                for tg in tags:
                    if tg == OK or (isinstance(tg, str) and tg.startswith("ok:")):
                        found[tg] = arms.get(0, t["otherwise"])
                    elif tg == ERR:
                        found[tg] = arms.get(1, t["otherwise"])
                    elif isinstance(tg, str) and tg.startswith("v") and tg[1:].isdigit():
                        v = int(tg[1:])
                        if tested in try_dest:
                            v = 0 if v == 1 else 1          # Option: Some -> Continue(0), None -> Break(1)
                        found[tg] = arms.get(v, t["otherwise"])
            break
        return {}
    if not found:
        return {}
    # second level: Ok(None) / Ok(Some(..)) - follow the Ok arm on to the test of the payload
    chains = {tg: list(chain) for tg in found}
    lvl2 = [tg for tg in found if isinstance(tg, str) and tg.startswith("ok:v")]
    if lvl2 and found[lvl2[0]] is not None:
        second = _second_level(B, found[lvl2[0]], tested, set(chain))
        if second is not None:
            chain2, arms2, other2 = second
            for tg in lvl2:
                chains[tg] = list(chain) + chain2
                found[tg] = arms2.get(int(tg[4:]), other2)
    out = {}
    for tag, target in sorted(found.items()):
        if target is None:
            continue
        chain = chains[tag]
        base = len(B.blocks)
        for k, b in enumerate(chain):
            blk = copy.deepcopy(B.blocks[b])
            blk["thr"] = tag
            if k + 1 < len(chain):
                t = blk["term"]
                if t["tk"] == "switch":
                    blk["term"] = _goto(base + k + 1, t)
                elif t["tk"] in ("goto", "drop", "call"):
                    t["t"] = base + k + 1
                    if "unwind" in t:
                        t["unwind"] = None
            else:
                blk["term"] = _goto(target, blk["term"])
            B.blocks.append(blk)
        out[tag] = base
    B.n = len(B.blocks)
    return out


def _thread_local_variants(B):
    """Jump threading for enum values: a block that ends by assigning `L = Enum::V(..)` and runs straight (goto / drop) into a
    switch on L's discriminant gets its own copy of that line, ending in the arm for V. Returns the number of jumps threaded."""
    adts = getattr(B.crate, "adts", {})
    n = 0
    for i in range(len(B.blocks)):
        blk = B.blocks[i]
        if blk["cleanup"] or "thr" in blk:
            continue
        t = blk["term"]
        if t["tk"] not in ("goto", "drop") or t.get("t") is None:
            continue
        last = None
        for st in blk["stmts"]:
            if st["sk"] != "assign":
                continue
            if not st["pl"]["p"]:
                rv = st["rv"]
                if rv["rk"] == "agg" and rv.get("ak") == "adt" and "vidx" in rv and \
                        (rv.get("adt") in ("std::option::Option", "std::result::Result") or (adts.get(rv.get("adt")) or {}).get("enum")):
                    last = (st["pl"]["l"], rv["adt"], int(rv["vidx"]), rv.get("variant"))
                elif last and st["pl"]["l"] == last[0]:
                    last = None
            elif last and st["pl"]["l"] == last[0]:
                last = None
        if not last:
            continue
        L, adt, v, vname = last
        if adt == "std::result::Result":
            tag = OK if vname == "Ok" else ERR
        else:
            tag = "v%d" % v
        _reset(B)
        conts = _thread(B, t["t"], L, adt, [tag])
        tgt = conts.get(tag)
        if tgt is not None:
            t["t"] = tgt
            n += 1
    if n:
        _reset(B)
    return n


def _second_level(B, start, tested1, seen):
    """From the Ok arm of the first test follow the straight line to a switch on the discriminant of the Ok /
    Continue payload (an Option). Returns (blocks on the way incl. the switch block, {value: target}, otherwise)."""
    payload = set()
    chain2 = []
    cur = start
    for _ in range(24):
        if cur is None or cur in chain2 or cur in seen:
            return None
        blk = B.blocks[cur]
        if blk["cleanup"]:
            return None
        chain2.append(cur)
        for st in blk["stmts"]:
            if st["sk"] == "assign" and not st["pl"]["p"] and st["rv"]["rk"] == "use":
                op = st["rv"]["ops"][0]
                if op.get("k") in ("copy", "move") and op["pl"]["l"] == tested1 and op["pl"]["p"] and op["pl"]["p"][0] in ("dc:Continue", "dc:Ok"):
                    payload |= flow.result_carriers(B, st["pl"]["l"])
                elif op.get("k") in ("copy", "move") and not op["pl"]["p"] and op["pl"]["l"] in payload:
                    payload.add(st["pl"]["l"])
        t = blk["term"]
        k = t["tk"]
        if k in ("goto", "drop"):
            cur = t["t"]
            continue
        if k == "switch":
            dl = flow.operand_local(t["discr"])
            for st in reversed(blk["stmts"]):
                if st["sk"] == "assign" and st["pl"]["l"] == dl and not st["pl"]["p"]:
                    if st["rv"]["rk"] == "discr" and not st["rv"]["pl"]["p"] and st["rv"]["pl"]["l"] in payload \
                            and B.locals[st["rv"]["pl"]["l"]].startswith("std::option::Option"):
                        return chain2, {int(a[0]): a[1] for a in t["arms"]}, t["otherwise"]
                    break
            return None
        return None
    return None


# ------------------------------------------------------------------------------------------------
# sites


def _is_result(h):
    """What the return-path tags of helper `h` distinguish: the Ok / Err of a Result, or the variant of a crate-local
    enum / of an Option it returns (a classification helper: `fn compare_to_basis(..) -> BasisMatch`); False if neither."""
    ret = h.ret or ""
    if ret.startswith("std::result::Result<"):
        return "std::result::Result"
    head = ret.split("<", 1)[0].strip()
    if head == "std::option::Option":
        return head
    adt = getattr(h.crate, "adts", {}).get(head)
    if adt is not None and adt.get("enum"):
        return head
    return False


def _add_locals(B, h, offL):
    B.locals.extend(h.locals)
    for v in h.vars:
        if not v["pl"]["p"]:
            B.local_names.setdefault(v["pl"]["l"] + offL, v["name"])
    for l, n in h.local_names.items():
        B.local_names.setdefault(l + offL, n)
    if h.kind == "coroutine":
        for fi, n in h.upvar_names.items():
            pass


def _inline_sync_site(B, i, h):
    t = B.blocks[i]["term"]
    offL = len(B.locals)
    _add_locals(B, h, offL)
    offB = len(B.blocks)
    tagging = _is_result(h) if not t["dest"]["p"] else False
    blocks, exits = _copy_body(h, offL, offB, tagging)
    B.blocks.extend(blocks)
    for k, a in enumerate(t["args"]):
        B.blocks[i]["stmts"].append(_assign({"l": offL + 1 + k, "p": []}, _use(copy.deepcopy(a)), t.get("line")))
    cont = t["t"]
    B.blocks[i]["term"] = _goto(offB, t)
    conts = _thread(B, cont, t["dest"]["l"], tagging, sorted({tg for _, tg in exits if tg not in (NONE, UNK)})) if tagging else {}
    for nb, tag in exits:
        blk = B.blocks[nb]
        blk["stmts"].append(_assign(copy.deepcopy(t["dest"]), _use(_mv(offL)), t.get("line")))
        tgt = conts.get(tag, cont)
        if tgt is None:
            blk["term"] = {"tk": "unreachable", "line": t.get("line"), "exp": False, "mac": None}
        else:
            blk["term"] = _goto(tgt, blk["term"])
    B.n = len(B.blocks)


def _ready_target(B, tp):
    """The Ready arm of the switch that follows a poll."""
    nb = tp["t"]
    if nb is None:
        return None
    blk = B.blocks[nb]
    t = blk["term"]
    if t["tk"] != "switch":
        return None
    dl = flow.operand_local(t["discr"])
    for s in reversed(blk["stmts"]):
        if s["sk"] == "assign" and s["pl"]["l"] == dl and not s["pl"]["p"]:
            if s["rv"]["rk"] == "discr" and s["rv"]["pl"]["l"] == tp["dest"]["l"] and not s["rv"]["pl"]["p"]:
                for a in t["arms"]:
                    if int(a[0]) == 0:
                        return a[1]
            break
    return None


def _inline_async_site(B, ci, polls, cor):
    tc = B.blocks[ci]["term"]
    # the call that created the future now just packs the arguments
    B.blocks[ci]["stmts"].append(_assign(copy.deepcopy(tc["dest"]),
                                         {"rk": "agg", "ak": "tuple", "ops": [copy.deepcopy(a) for a in tc["args"]], "inl": cor.name},
                                         tc.get("line")))
    B.blocks[ci]["term"] = _goto(tc["t"], tc)
    for pi in polls:
        tp = B.blocks[pi]["term"]
        offL = len(B.locals)
        _add_locals(B, cor, offL)
        offB = len(B.blocks)
        tagging = _is_result(cor) if not tp["dest"]["p"] else False
        blocks, exits = _copy_body(cor, offL, offB, tagging)
        B.blocks.extend(blocks)
        for k, a in enumerate(tp["args"][:2]):
            B.blocks[pi]["stmts"].append(_assign({"l": offL + 1 + k, "p": []}, _use(copy.deepcopy(a)), tp.get("line")))
        ready = _ready_target(B, tp)
        cont = ready if ready is not None else tp["t"]
        B.blocks[pi]["term"] = _goto(offB, tp)
        conts = _thread(B, cont, tp["dest"]["l"], tagging, sorted({tg for _, tg in exits if tg not in (NONE, UNK)})) if (tagging and ready is not None) else {}
        for nb, tag in exits:
            blk = B.blocks[nb]
            blk["stmts"].append(_assign(copy.deepcopy(tp["dest"]),
                                        {"rk": "agg", "ak": "adt", "adt": "std::task::Poll", "variant": "Ready", "vidx": 0,
                                         "fields": ["0"], "ops": [_mv(offL)]}, tp.get("line")))
            blk["term"] = _goto(conts.get(tag, cont), blk["term"])
    B.n = len(B.blocks)


def _reset(B):
    B.n = len(B.blocks)
    B._succ = B._pred = B._reach = B._defs = B._events = None


def _process(crate, B, H, stats):
    """Inline every helper site of body B. Returns the set of helper names inlined."""
    done = set()
    for _ in range(400):
        _reset(B)
        if not _process_one(crate, B, H, stats, done):
            break
    _reset(B)
    return done


def _process_one(crate, B, H, stats, done):
    for i, blk in enumerate(B.blocks):
        if blk["cleanup"]:
            continue
        t = blk["term"]
        n = _callee_of(t)
        if n is None or t.get("callee") == POLL or n not in H or n == B.root:
            continue
        kind, hb, cor = H[n]
        if kind == "sync":
            _inline_sync_site(B, i, hb)
            done.add(n)
            stats["sites"] = stats.get("sites", 0) + 1
            return True
        ev = None
        for e in B.events:
            if e.bb == i:
                ev = e
        if ev is None or ev.dest is None or ev.dest["p"]:
            continue
        polls = [p.bb for p in flow.await_poll(B, ev) if p.resolved == cor.name and not B.blocks[p.bb]["cleanup"]]
        if not polls:
            continue
        _inline_async_site(B, i, polls, cor)
        done.add(n)
        stats["sites"] = stats.get("sites", 0) + 1
        return True
    return False


def inline_crate(crate, vocab=None):
    """Dissolve unknown private helpers of `crate` in place. Returns a report dict."""
    vocab = vocab if vocab is not None else load_vocab()
    H = _candidates(crate, vocab)
    # drop recursive helpers (any cycle through helpers)
    deps = {}
    for n, (kind, hb, cor) in H.items():
        d = set()
        for b in crate.family(n):
            d |= _helper_refs(b, H)
        deps[n] = d
    state = {}
    order = []
    cyclic = set()

    def visit(n, stack):
        if state.get(n) == 2:
            return
        if state.get(n) == 1:
            cyclic.update(stack[stack.index(n):])
            return
        state[n] = 1
        for m in sorted(deps.get(n, ())):
            visit(m, stack + [n])
        state[n] = 2
        order.append(n)
    for n in sorted(H):
        visit(n, [])
    for n in cyclic:
        H.pop(n, None)
    order = [n for n in order if n in H]
    stats = {}
    inlined_into = {}      # helper -> set of caller roots
    # helpers first (bottom-up), then everything else
    seen = set()
    for n in order:
        for b in crate.family(n):
            for h in _process(crate, b, H, stats):
                inlined_into.setdefault(h, set()).add(b.root)
            seen.add(b.name)
    for name in sorted(crate.bodies):
        if name in seen:
            continue
        b = crate.bodies[name]
        if b.kind in ("const", "static", "anon_const", "other"):
            continue
        for h in _process(crate, b, H, stats):
            inlined_into.setdefault(h, set()).add(b.root)
    # a local that was just given a known variant and is matched right afterwards (`let step = match state { Done => Step::Finished,
    # .. }; match step { .. }`): the arm that built it jumps straight to the arm that consumes it
    n_thr = 0
    for name in sorted(crate.bodies):
        b = crate.bodies[name]
        if b.kind in ("const", "static", "anon_const", "other") or not (b.file or "").startswith("src/"):
            continue
        n_thr += _thread_local_variants(b)
    stats["variant_jumps"] = n_thr
    # which helpers are gone everywhere?
    remaining = set()
    for b in crate.bodies.values():
        for blk in b.blocks:
            if blk["cleanup"]:
                continue
            t = blk["term"]
            n = _callee_of(t)
            if n is None:
                continue
            if n in H:
                remaining.add(n)
            elif t.get("callee") == POLL and n.endswith("::{closure#0}") and n[: -len("::{closure#0}")] in H:
                remaining.add(n[: -len("::{closure#0}")])
    # references from another helper's own (to be dissolved) body do not count, unless that
    # helper itself remains
    dissolved = {}
    for n in order:
        if n in remaining or n not in inlined_into:
            continue
        kind, hb, cor = H[n]
        dissolved[n] = sorted(inlined_into[n])
    if not hasattr(crate, "dissolved"):
        crate.dissolved = {}
    for n, roots in dissolved.items():
        kind, hb, cor = H[n]
        for b in (hb, cor):
            if b is not None and b.name in crate.bodies:
                crate.dissolved[b.name] = crate.bodies.pop(b.name)
        if len(roots) == 1:
            # closures written inside the helper now belong to its only caller
            for b in crate.bodies.values():
                if b.root == n:
                    b.root = roots[0]
    adopted = _adopt_detached(crate, H, dissolved)
    crate.inline_report = {"helpers": {n: roots for n, roots in sorted(dissolved.items())},
                           "adopted": adopted,
                           "kept": sorted(set(H) - set(dissolved) - set(adopted)), "sites": stats.get("sites", 0)}
    return crate.inline_report


def _adopt_detached(crate, H, dissolved):
    """An unknown private `async fn` whose future is never awaited where it is made (it is handed to
    `spawn`, pushed into a set of futures, ...) is the same thing as an `async move { .. }` block written
    at that place: the call that makes the future becomes the aggregate that makes the coroutine, and the
    coroutine becomes a child of the body that makes it. Only when every site is in one function."""
    adopted = {}
    for n in sorted(H):
        if n in dissolved:
            continue
        kind, hb, cor = H[n]
        if kind != "async" or hb.name not in crate.bodies or cor.name not in crate.bodies:
            continue
        sites = []
        polled = False
        for b in crate.bodies.values():
            if b is hb:
                continue
            for i, blk in enumerate(b.blocks):
                if blk["cleanup"]:
                    continue
                t = blk["term"]
                c = _callee_of(t)
                if c == n:
                    sites.append((b, i))
                elif t.get("callee") == POLL and c == cor.name:
                    polled = True
        roots = {b.root for b, i in sites}
        if polled or not sites or len(roots) != 1 or len({b.name for b, i in sites}) != 1:
            continue
        agg = [st for blk in hb.blocks if not blk["cleanup"] for st in blk["stmts"]
               if st["sk"] == "assign" and st["rv"]["rk"] == "agg" and st["rv"].get("ak") == "closure"][0]["rv"]
        ok = True
        for op in agg["ops"]:
            l = flow.operand_local(op)
            if l is None or op["pl"]["p"] or not (1 <= l <= len(hb.d.get("args", [])) or l >= 1):
                ok = False
        if not ok:
            continue
        B = sites[0][0]
        for b, i in sites:
            t = b.blocks[i]["term"]
            if t["dest"]["p"] or any(flow.operand_local(op) - 1 >= len(t["args"]) for op in agg["ops"]):
                ok = False
        if not ok:
            continue
        for b, i in sites:
            t = b.blocks[i]["term"]
            rv = copy.deepcopy(agg)
            rv["ops"] = [copy.deepcopy(t["args"][flow.operand_local(op) - 1]) for op in agg["ops"]]
            rv["adopted"] = n
            b.blocks[i]["stmts"].append(_assign(copy.deepcopy(t["dest"]), rv, t.get("line")))
            b.blocks[i]["term"] = _goto(t["t"], t)
            _reset(b)
        crate.dissolved[hb.name] = crate.bodies.pop(hb.name)
        if cor.name in crate.children.get(hb.name, []):
            crate.children[hb.name].remove(cor.name)
        crate.children[B.name].append(cor.name)
        cor.parent = B.name
        for b in crate.bodies.values():
            if b.root == n:
                b.root = B.root
        adopted[n] = B.name
    return adopted


def expand_predicates(crate, body, limit=12):
    """A private copy of `body` in which calls to module-private, non-trait, bool-returning sync helpers of the
    crate are replaced by the helper's statements. For the path-sensitive PRED enumerator (cv.pred), which
    propagates the helper's `true` / `false` to the caller's branch; the flow-insensitive rules keep such helpers
    as named tests instead (see _candidates). Returns (copy, number of sites expanded)."""
    B = mir.Body(copy.deepcopy(body.d), crate)
    n = 0
    while n < limit:
        _reset(B)
        hit = False
        for i, blk in enumerate(B.blocks):
            if blk["cleanup"]:
                continue
            name = _callee_of(blk["term"])
            hb = crate.bodies.get(name) if name else None
            if hb is None or hb.name in (body.name, body.root) or hb.kind not in ("fn", "assoc_fn") or hb.trait or hb.def_mac:
                continue
            if (hb.ret or "") != "bool" or not hb.file.startswith("src/") or not _module_private(hb):
                continue
            if (name + "::{closure#0}") in crate.bodies and crate.bodies[name + "::{closure#0}"].kind == "coroutine":
                continue
            if blk["term"]["dest"]["p"]:
                continue
            _inline_sync_site(B, i, hb)
            n += 1
            hit = True
            break
        if not hit:
            break
    _reset(B)
    return B, n
