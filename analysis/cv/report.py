"""Obligations, violations, known findings and the evidence file."""
import json
import os
import sys
import time

VERIF = os.path.dirname(os.path.dirname(os.path.dirname(os.path.abspath(__file__))))
KNOWN = os.path.join(VERIF, "known_findings.json")
EVIDENCE_DIR = os.environ.get("CV_EVIDENCE_DIR") or os.path.join(VERIF, "evidence")

TRUSTED_BASE = [
    "rustc nightly 1.97: MIR construction (mir_built), type checking, Instance resolution",
    "cvfacts driver: faithful serialisation of MIR bodies to JSON",
    "analysis library: CFG over real (non-unwind) edges, edge/node-deletion dominance, call graph with class-hierarchy closure for dyn/generic trait calls",
    "effect table: semantics of the external APIs named in it (std::fs, tokio::fs, filetime, std::os::unix::fs, ssh2, aws-sdk-s3)",
]


class Obligation:
    def __init__(self, rule, text):
        self.rule = rule
        self.text = text
        self.sites = []
        self.status = "open"
        self.detail = None
        self.instances = 0

    def to_json(self):
        return {
            "rule": self.rule,
            "obligation": self.text,
            "status": self.status,
            "instances": self.instances,
            "sites": self.sites[:12],
            "detail": self.detail,
        }


class Check:
    def __init__(self, pid, tier, title=""):
        self.pid = pid
        self.tier = tier
        self.title = title
        self.t0 = time.time()
        self.obligations = []
        self.violations = []   # (key, message, site)
        self.notes = []
        self.stats = {}
        self.assumptions = []
        self.explanation = ""
        self.config = None
        self.undecided = []
        try:
            self.seed = int(os.environ.get("VERIF_SEED", "0"))
        except ValueError:
            self.seed = 0

    # ---- obligations -----------------------------------------------------------------
    def ob(self, rule, text):
        if self.config:
            text = "[%s] %s" % (self.config, text)
        o = Obligation(rule, text)
        self.obligations.append(o)
        return o

    def ok(self, o, detail=None, sites=None, instances=1):
        if o.status == "open":
            o.status = "discharged"
        o.detail = detail if detail is not None else o.detail
        o.instances += instances
        if sites:
            o.sites.extend(sites)
        print("  ok   %-10s %s%s" % (o.rule, o.text, (" [" + str(detail) + "]") if detail else ""))

    def fail(self, o, key_fn, key_detail, message, site=None):
        """Record a violation of obligation o. key = 'rule | function | detail'."""
        o.status = "violated"
        key = "%s | %s | %s" % (o.rule, key_fn, key_detail)
        if self.config:
            message = "[configuration %s] %s" % (self.config, message)
        o.detail = message
        if site:
            o.sites.append(site)
        self.violations.append({"key": key, "message": message, "site": site, "rule": o.rule,
                                "obligation": o.text})
        print("  FAIL %-10s %s\n         -> %s%s" % (o.rule, o.text, message, (" at " + site) if site else ""))

    def anchor_missing(self, rule, what):
        o = self.ob(rule, "anchor present: " + what)
        self.fail(o, what, "anchor-missing", "anchor not found in the fact base: " + what)
        return None

    def floor(self, rule, what, found, floor):
        o = self.ob(rule, "%s: at least %d instance(s)" % (what, floor))
        if found < floor:
            self.fail(o, what, "count-below-floor",
                      "found %d instance(s), expected at least %d (rule would pass vacuously)" % (found, floor))
        else:
            self.ok(o, "found %d" % found, instances=found)

    def note(self, text):
        self.notes.append(text)
        print("  note %s" % text)

    # ---- finish ----------------------------------------------------------------------
    def finish(self):
        known = load_known()
        kn = {k["key"]: k for k in known.get("known", []) if k.get("property") == self.pid}
        unknown = []
        shown = []
        for v in self.violations:
            if v["key"] in kn:
                shown.append(v)
            else:
                unknown.append(v)
        seen_keys = set()
        for v in shown:
            if v["key"] in seen_keys:
                continue
            seen_keys.add(v["key"])
            print("KNOWN-FINDING: property=%s %s :: %s" % (self.pid, v["key"], kn[v["key"]].get("what", "")))
        wall = time.time() - self.t0
        n_ob = len(self.obligations)
        n_dis = sum(1 for o in self.obligations if o.status == "discharged")
        nontrivial = sum(1 for o in self.obligations if o.instances > 0 or o.sites)
        evaluations = sum(max(1, o.instances) for o in self.obligations)
        ev = {
            "property_id": self.pid,
            "tier": self.tier,
            "seed": self.seed,
            "level": "other",
            "coverage": {
                "explanation": self.explanation,
                "obligations": n_ob,
                "discharged": n_dis,
                "evaluations": evaluations,
                "distinct_nontrivial": nontrivial,
                "rule": "one evaluation per rule instance (a call site, body or path obligation matched on this run); "
                        "an obligation is non-trivial when it matched at least one concrete site in the fact base",
                "samples": [o.to_json() for o in self.obligations],
                "checker_cmd": "./check %s --tier %s" % (self.pid, self.tier),
                "trusted_base": TRUSTED_BASE,
                "analysed": self.stats,
                "undecided_clauses": self.undecided,
                "known_findings_reported": sorted(seen_keys),
                "notes": self.notes,
                "exhaustive": False,
            },
            "assumptions": self.assumptions,
            "wall_s": round(wall, 3),
            "violations": len(unknown),
        }
        os.makedirs(EVIDENCE_DIR, exist_ok=True)
        path = os.path.join(EVIDENCE_DIR, "%s.json" % self.pid)
        tmp = path + ".tmp.%d" % os.getpid()
        with open(tmp, "w") as f:
            json.dump(ev, f, indent=1)
        os.replace(tmp, path)
        print("%s: %d obligations, %d discharged, %d known finding(s), %d new violation(s), %.1fs" % (
            self.pid, n_ob, n_dis, len(seen_keys), len(unknown), wall))
        if unknown:
            rp = os.path.join(EVIDENCE_DIR, "%s.violations.json" % self.pid)
            with open(rp, "w") as f:
                json.dump({"property_id": self.pid, "violations": unknown}, f, indent=1)
            for v in unknown:
                print("  violation: %s" % v["key"])
            print("VIOLATION property=%s replay=%s" % (self.pid, rp))
            return 1
        return 0


def load_known():
    if not os.path.exists(KNOWN):
        return {"known": [], "fixed": []}
    with open(KNOWN) as f:
        return json.load(f)
