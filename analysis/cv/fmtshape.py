"""Decode format_args! templates (core::fmt::Arguments placeholders representation) and
compute the 'shape' of the string a small formatting function returns."""
import re

from . import flow

ZERO_PAD = 1 << 24
WIDTH_SET = 1 << 27


def parse_template(hexbytes):
    b = bytes.fromhex(hexbytes)
    i = 0
    out = []
    next_arg = 0
    while i < len(b):
        n = b[i]
        i += 1
        if n == 0:
            break
        if n < 0x80:
            out.append(("lit", b[i:i + n].decode("utf-8", "replace")))
            i += n
        elif n == 0x80:
            ln = b[i] | (b[i + 1] << 8)
            i += 2
            out.append(("lit", b[i:i + ln].decode("utf-8", "replace")))
            i += ln
        elif n & 0xC0 == 0xC0:
            spec = {"flags": 0, "width": None, "precision": None, "arg": None}
            if n & 1:
                spec["flags"] = int.from_bytes(b[i:i + 4], "little")
                i += 4
            if n & 2:
                spec["width"] = int.from_bytes(b[i:i + 2], "little")
                i += 2
            if n & 4:
                spec["precision"] = int.from_bytes(b[i:i + 2], "little")
                i += 2
            if n & 8:
                spec["arg"] = int.from_bytes(b[i:i + 2], "little")
                i += 2
            if spec["arg"] is None:
                spec["arg"] = next_arg
            next_arg = spec["arg"] + 1
            fill = chr(spec["flags"] & 0x1FFFFF) if spec["flags"] & 0x1FFFFF else " "
            zero = bool(spec["flags"] & ZERO_PAD) or (fill == "0" and spec["width"] is not None)
            out.append(("arg", spec["arg"], spec["width"], zero))
        else:
            out.append(("?", n))
    return out


def format_sites(body):
    """[(event Arguments::new, pieces, [operand of each argument])]"""
    out = []
    for e in body.events:
        if e.bb not in body.live or not e.name.startswith("std::fmt::Arguments::<'a>::new"):
            continue
        if len(e.args) < 2:
            continue
        tmpl = None
        for o in flow.origins(body, e.args[0]):
            pass
        # template: follow refs back to the const operand
        tmpl = _find_bytes(body, e.args[0])
        if tmpl is None:
            continue
        pieces = parse_template(tmpl)
        # args array
        arr = _find_array(body, e.args[1])
        vals = []
        for op in arr or []:
            vals.append(_argument_value(body, op))
        out.append((e, pieces, vals))
    return out


def _defs_of(body, local):
    return body.defs.get(local, [])


def _find_bytes(body, op, depth=0):
    if op.get("k") == "const":
        return op.get("bytes")
    if depth > 6:
        return None
    for (bb, idx, kind, payload) in _defs_of(body, op["pl"]["l"]):
        if kind == "assign":
            rv = payload["rv"]
            if rv["rk"] == "use":
                r = _find_bytes(body, rv["ops"][0], depth + 1)
                if r:
                    return r
            elif rv["rk"] == "ref":
                r = _find_bytes(body, {"k": "copy", "pl": {"l": rv["pl"]["l"], "p": []}}, depth + 1)
                if r:
                    return r
    return None


def _find_array(body, op, depth=0):
    if op.get("k") == "const" or depth > 6:
        return None
    for (bb, idx, kind, payload) in _defs_of(body, op["pl"]["l"]):
        if kind == "assign":
            rv = payload["rv"]
            if rv["rk"] == "agg" and rv.get("ak") == "array":
                return rv["ops"]
            if rv["rk"] == "use":
                r = _find_array(body, rv["ops"][0], depth + 1)
                if r is not None:
                    return r
            elif rv["rk"] == "ref":
                r = _find_array(body, {"k": "copy", "pl": {"l": rv["pl"]["l"], "p": []}}, depth + 1)
                if r is not None:
                    return r
    return None


def _argument_value(body, op):
    """Operand formatted by an rt::Argument built with Argument::new_*(&value)."""
    if op.get("k") == "const":
        return None
    for (bb, idx, kind, payload) in _defs_of(body, op["pl"]["l"]):
        if kind == "call" and "Argument" in (payload.get("callee") or ""):
            return payload["args"][0]
        if kind == "assign" and payload["rv"]["rk"] == "use":
            return _argument_value(body, payload["rv"]["ops"][0])
    return None


def shape(crate, fn_name, depth=0):
    """Canonical shape of the string returned by `fn_name`:
    list of ('lit', text) / ('arg', width, zero_pad, description)."""
    from . import pred
    body = crate.bodies.get(fn_name)
    if body is None or depth > 3:
        return None
    sites = format_sites(body)
    if len(sites) != 1:
        return None
    e, pieces, vals = sites[0]
    out = []
    for p in pieces:
        if p[0] == "lit":
            if out and out[-1][0] == "lit":
                out[-1] = ("lit", out[-1][1] + p[1])
            else:
                out.append(p)
        elif p[0] == "arg":
            op = vals[p[1]] if p[1] < len(vals) else None
            sub = None
            if op is not None and p[2] is None:
                calls = {o[1] for o in flow.origins(body, op) if o[0] == "call"}
                local_calls = [c for c in calls if c in crate.bodies]
                if len(local_calls) == 1 and len(calls) == 1:
                    sub = shape(crate, local_calls[0], depth + 1)
            if sub:
                for q in sub:
                    if q[0] == "lit" and out and out[-1][0] == "lit":
                        out[-1] = ("lit", out[-1][1] + q[1])
                    else:
                        out.append(q)
            else:
                desc = pred.describe(crate, body, op) if op is not None else "?"
                out.append(("arg", p[2], p[3], desc))
        else:
            out.append(p)
    return out
