"""Run the cvfacts driver over a checkout of conserve and cache the fact files.

The facts are always rebuilt from the *current working tree* of the repository: the
cache key is the SHA-256 of every source file, the manifest/lock and the driver binary,
so any edit to the tree invalidates it.  A nonce passed through the environment is
echoed by the driver into the fact file; a missing file, a stale nonce or a body count
under the floor fails closed.
"""
import fcntl
import hashlib
import json
import os
import shutil
import subprocess
import sys
import time

VERIF = os.path.dirname(os.path.dirname(os.path.dirname(os.path.abspath(__file__))))
CACHE = os.environ.get("CV_CACHE", os.path.join(VERIF, "cache"))
DRIVER_DIR = os.path.join(VERIF, "driver")
DRIVER = os.path.join(DRIVER_DIR, "target", "release", "cvfacts")

# Floors counted by hand on the pinned tree (1558 lib bodies, 299 bin bodies).
BODY_FLOOR = {"lib": 1200, "bin": 150}

CONFIGS = {
    # name: (cargo feature args, extra rustflags)
    "default": ([], ""),
    "nodefault": (["--no-default-features"], ""),
    "s3": (["--no-default-features", "--features", "s3"], ""),
    "sftp": (["--no-default-features", "--features", "sftp"], ""),
    "release": ([], "-Cdebug-assertions=off"),
}


class ExtractError(Exception):
    pass


def repo_dir():
    return os.environ.get("CV_REPO", "/repo")


def _sha_file(h, path):
    with open(path, "rb") as f:
        while True:
            b = f.read(1 << 16)
            if not b:
                break
            h.update(b)


def tree_key(repo, config):
    h = hashlib.sha256()
    h.update(config.encode())
    files = []
    for root, dirs, fs in os.walk(os.path.join(repo, "src")):
        dirs.sort()
        for f in sorted(fs):
            files.append(os.path.join(root, f))
    for extra in ("Cargo.toml", "Cargo.lock", "build.rs"):
        p = os.path.join(repo, extra)
        if os.path.exists(p):
            files.append(p)
    for p in files:
        h.update(os.path.relpath(p, repo).encode())
        h.update(b"\0")
        _sha_file(h, p)
    if os.path.exists(DRIVER):
        _sha_file(h, DRIVER)
    return h.hexdigest()[:24]


def sysroot():
    return subprocess.check_output(
        ["rustc", "+nightly", "--print", "sysroot"], text=True
    ).strip()


def build_driver():
    env = dict(os.environ, CARGO_NET_OFFLINE="true")
    r = subprocess.run(
        ["cargo", "build", "--release", "--offline"],
        cwd=DRIVER_DIR,
        env=env,
        stdout=subprocess.PIPE,
        stderr=subprocess.STDOUT,
        text=True,
    )
    if r.returncode != 0 or not os.path.exists(DRIVER):
        raise ExtractError("driver build failed:\n" + r.stdout[-4000:])


def _prune(facts_root, keep=8):
    try:
        ds = [os.path.join(facts_root, d) for d in os.listdir(facts_root)]
        ds = [d for d in ds if os.path.isdir(d)]
        ds.sort(key=lambda d: os.path.getmtime(d), reverse=True)
        for d in ds[keep:]:
            shutil.rmtree(d, ignore_errors=True)
    except OSError:
        pass


def ensure_facts(config="default", repo=None, verbose=False):
    """Return the directory holding conserve-lib.json / conserve-bin.json for `repo`."""
    repo = repo or repo_dir()
    if config not in CONFIGS:
        raise ExtractError("unknown config " + config)
    os.makedirs(CACHE, exist_ok=True)
    lock = open(os.path.join(CACHE, "lock"), "w")
    fcntl.flock(lock, fcntl.LOCK_EX)
    try:
        if not os.path.exists(DRIVER):
            build_driver()
        key = tree_key(repo, config)
        facts_root = os.path.join(CACHE, "facts")
        out = os.path.join(facts_root, key)
        ok_marker = os.path.join(out, "OK")
        if os.path.exists(ok_marker):
            os.utime(out, None)
            return out
        shutil.rmtree(out, ignore_errors=True)
        os.makedirs(out)
        target = os.path.join(CACHE, "target")
        # cargo's freshness cache would skip the wrapper: drop conserve's own fingerprints
        fp = os.path.join(target, "debug", ".fingerprint")
        if os.path.isdir(fp):
            for d in os.listdir(fp):
                if d.startswith("conserve-"):
                    shutil.rmtree(os.path.join(fp, d), ignore_errors=True)
        nonce = "%s-%d-%d" % (key, os.getpid(), int(time.time() * 1000))
        feats, extra = CONFIGS[config]
        env = dict(os.environ)
        env.update(
            LD_LIBRARY_PATH=os.path.join(sysroot(), "lib"),
            CARGO_INCREMENTAL="0",
            CARGO_NET_OFFLINE="true",
            RUSTFLAGS=("-Zmir-opt-level=0 -Awarnings -Zallow-features= " + extra).strip(),
            RUSTC_WORKSPACE_WRAPPER=DRIVER,
            CVFACTS_OUT=out,
            CVFACTS_NONCE=nonce,
            CVFACTS_CRATE="conserve",
            CARGO_TARGET_DIR=target,
        )
        env.pop("RUSTC_WRAPPER", None)
        cmd = ["cargo", "+nightly", "check", "--offline", "--locked", "--lib", "--bins"] + feats
        t0 = time.time()
        r = subprocess.run(
            cmd, cwd=repo, env=env, stdout=subprocess.PIPE, stderr=subprocess.STDOUT, text=True
        )
        if verbose:
            sys.stderr.write(r.stdout[-2000:])
        if r.returncode != 0:
            shutil.rmtree(out, ignore_errors=True)
            raise ExtractError(
                "cargo check of %s failed (the tree must compile):\n%s" % (repo, r.stdout[-6000:])
            )
        for kind in ("lib", "bin"):
            p = os.path.join(out, "conserve-%s.json" % kind)
            if not os.path.exists(p):
                shutil.rmtree(out, ignore_errors=True)
                raise ExtractError("fact file missing for %s (driver skipped?)" % kind)
            with open(p) as f:
                head = f.read(400)
            if ('"nonce":"%s"' % nonce) not in head:
                shutil.rmtree(out, ignore_errors=True)
                raise ExtractError("stale nonce in %s" % p)
        with open(ok_marker, "w") as f:
            json.dump({"config": config, "repo": repo, "wall_s": time.time() - t0, "nonce": nonce}, f)
        _prune(facts_root)
        return out
    finally:
        fcntl.flock(lock, fcntl.LOCK_UN)
        lock.close()


if __name__ == "__main__":
    cfg = sys.argv[1] if len(sys.argv) > 1 else "default"
    t = time.time()
    d = ensure_facts(cfg, verbose=True)
    print(d, "%.1fs" % (time.time() - t))
