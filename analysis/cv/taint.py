"""TAINT: summary-based forward propagation of 'decoded from storage' data.

Every local carries two label sets:
  V - labels under which the value (or something inside it) is damage-controlled
  D - labels under which its Option/Result *discriminant* is damage-controlled
Labels: "SRC" (really decoded), ("P", i, k) (depends on kind k of parameter i), ("U", i, k)
(depends on captured variable i).  Function summaries (labels of the return value and
conditional sinks) are instantiated at call sites, which makes the analysis
context-sensitive for accessors and helpers.  Struct fields are handled field-based:
the fields of the document types that are deserialized from storage are sources."""
import re
from collections import defaultdict

from . import flow
from .err import split_generic

SRC = "SRC"

FALLIBLE = re.compile(
    r"TryInto<.*>>?::try_into$|^std::convert::TryInto::try_into$|TryFrom<.*>>?::try_from$|^std::convert::TryFrom::try_from$"
    r"|<impl str>::parse$|FromStr>?::from_str$|^jiff::Timestamp::(new|from_second|from_millisecond|from_nanosecond)$"
    r"|^semver::Version(Req)?::parse$|::checked_(add|sub|mul|div)$|from_utf8$|^hex::decode|FromHex|^serde_json::from_(slice|str)$"
    r"|^std::str::<impl str>::(strip_prefix|strip_suffix|split_once|find)$"
)
D_PRESERVING = re.compile(
    r"^std::(option::Option|result::Result)::<.*>::(map|map_err|as_ref|as_mut|as_deref|cloned|copied|inspect|inspect_err|ok|err|ok_or|ok_or_else)$"
    r"|Clone>?::clone$|::clone$|^std::convert::Into::into$|Into<.*>>?::into$|From<.*>>?::from$|IntoFuture>?::into_future$"
    r"|^std::ops::Try::branch$|Try>?::branch$|^std::borrow::ToOwned::to_owned$|ToOwned>?::to_owned$"
)
UNWRAP = re.compile(r"^std::(option::Option|result::Result)::<.*>::(unwrap|expect|unwrap_err|expect_err)$")
PANIC_FN = re.compile(r"^core::panicking::|^std::rt::begin_panic|^std::rt::panic_fmt|^core::option::expect_failed|^core::result::unwrap_failed")
PANIC_MACROS = ("panic!", "assert!", "unreachable!", "assert_eq!", "assert_ne!", "unimplemented!", "todo!")
NO_PROP = re.compile(r"tracing|^core::fmt|^std::fmt|^alloc::fmt|monitor::Monitor::(count|error|start_task)|Task::(set_name|increment|set_total)$")
# accessors whose result is range-limited by the invariant of a validated type: arithmetic on
# it cannot overflow whatever the input was (jiff: |subsec| < 1e9, seconds within +-3.8e11)
BOUNDED_RESULT = re.compile(r"^jiff::Timestamp::(as_second|subsec_nanosecond|as_millisecond|subsec_millisecond|subsec_microsecond)$")
IO_CALLS = re.compile(r"^(tokio|std)::fs::|^aws_sdk_s3::|^aws_config::|^ssh2::|^std::io::|^tokio::io::|^filetime::|^std::os::|^uzers::|^nix::|^tempfile::|^std::env::|^std::time::|^jiff::Timestamp::now$|^cachedir::")
SOURCE_CALLS = re.compile(r"^serde_json::from_(slice|str|reader)$|^transport::Transport::(read|list_dir)(::\{closure#0\})?$"
                          r"|^compress::snappy::Decompressor::decompress$")
# calls that allocate / reserve as many elements as their argument says
ALLOC = re.compile(r"::with_capacity(_in)?$|::reserve(_exact)?$|::try_reserve|^bytes::BytesMut::(zeroed|with_capacity|resize)$|^std::vec::from_elem$|^alloc::vec::from_elem$|^std::vec::Vec::<T, A>::resize$|^std::iter::repeat_n$|::repeat$")
BOUNDING = re.compile(r"^bytes::Bytes::slice$|ops::Index<.*::index$|ops::IndexMut<.*::index_mut$|<impl \[T\]>::split_at|^std::cmp::(max|min)$|Ord>?::(max|min)$|::truncate$|::resize$|::with_capacity$|::reserve$")


def strip_ref(ty):
    ty = ty.strip()
    changed = True
    while changed:
        changed = False
        m = re.match(r"^&('[\w]+ )?(mut )?", ty)
        if m and m.end() > 0:
            ty = ty[m.end():].strip()
            changed = True
        head, args = split_generic(ty)
        if head in ("std::boxed::Box", "std::sync::Arc", "std::rc::Rc") and args:
            ty = args[0]
            changed = True
    return ty


class Sink:
    def __init__(self, kind, body, bb, line, labels, msg, name):
        self.kind = kind
        self.body = body
        self.bb = bb
        self.line = line
        self.labels = set(labels)
        self.msg = msg
        self.name = name      # stable detail for the key
        self.via = None

    def site(self):
        return "%s:%s" % (self.body.file, self.line)


class Taint:
    def __init__(self, world, doc_types, decoded_enums=(), source_calls=None, bounded_sanitize=True, no_prop=None, io_calls=None, skip_bodies=None, heap_read_ignore=(), carry_field_types=False):
        self.w = world
        self.lib = world.lib
        self.g = world.graph
        self.doc_types = set(doc_types)
        self.source_calls = source_calls or SOURCE_CALLS
        self.bounded_sanitize = bounded_sanitize
        self.no_prop = no_prop or NO_PROP
        self.io_calls = io_calls or IO_CALLS
        self.skip_bodies = skip_bodies
        self.heap_read_ignore = set(heap_read_ignore)
        self.carry_field_types = carry_field_types
        self.real_sites = defaultdict(set)      # sink id -> bodies in which it became real
        self.decoded_enums = set(decoded_enums)
        self.V = defaultdict(set)     # (body, local) -> labels
        self.D = defaultdict(set)
        self.retV = defaultdict(set)
        self.retD = defaultdict(set)
        self.cond_sinks = defaultdict(dict)   # body -> {sink_id: Sink} (own + inherited)
        self.real = {}                          # sink_id -> Sink with SRC
        self.heap = set()                       # (adt, field) SRC-tainted by assignment
        self.forced = defaultdict(set)          # (body, param) forced SRC (closure elements)
        self.pending = set()
        names = sorted(self.lib.adts, key=len, reverse=True)
        self._adt_rx = re.compile("|".join(re.escape(n) + r"(?![\w:])" for n in names))
        self._carry = {}
        self._recompute_carry()

    # ---- places ----------------------------------------------------------------------
    def _walk_fields(self, body, pl):
        """Yield (adt, field_name, field_ty) for every struct field the place goes through."""
        cur = strip_ref(body.locals[pl["l"]])
        variant = None
        for p in pl["p"]:
            if p == "*":
                cur = strip_ref(cur)
                continue
            if p.startswith("dc:"):
                variant = p[3:]
                continue
            if p.startswith("f:"):
                _, idx, name = p.split(":", 2)
                head, args = split_generic(cur)
                adt = self.lib.adts.get(head)
                if adt is None:
                    if head in ("std::option::Option", "std::result::Result", "std::task::Poll") and args:
                        cur = strip_ref(args[0] if variant != "Err" or len(args) < 2 else args[1])
                        variant = None
                        continue
                    if head.startswith("(") or not head:
                        return
                    return
                v = None
                if adt["enum"]:
                    for x in adt["variants"]:
                        if x["name"] == variant:
                            v = x
                else:
                    v = adt["variants"][0] if adt["variants"] else None
                if v is None or int(idx) >= len(v["fields"]):
                    return
                f = v["fields"][int(idx)]
                yield (head, f["name"], f["ty"])
                cur = strip_ref(f["ty"])
                variant = None
                continue
            head, args = split_generic(cur)
            cur = strip_ref(args[0]) if args else cur

    def place_labels(self, body, pl):
        """(V, D) label sets of reading place pl."""
        l = pl["l"]
        V = set(self.V.get((body.name, l), ()))
        D = set(self.D.get((body.name, l), ()))
        proj = [p for p in pl["p"] if p != "*"]
        if proj:
            D = set()
        last_field = None
        walked = list(self._walk_fields(body, pl))
        n_field_steps = len([p for p in proj if p.startswith("f:")])
        if walked and len(walked) == n_field_steps:
            # every field step is a field of a crate struct: field-based, not local-based
            first_adt = walked[0][0]
            head0, _ = split_generic(strip_ref(body.locals[l]))
            if head0 == first_adt:
                V = set()
        for (adt, fname, fty) in walked:
            last_field = (adt, fname, fty)
            if adt in self.doc_types or ((adt, fname) in self.heap and (adt, fname) not in self.heap_read_ignore):
                V.add(SRC)
        if last_field is not None and proj and proj[-1].startswith("f:"):
            adt, fname, fty = last_field
            head, _ = split_generic(fty)
            if head in ("std::option::Option", "std::result::Result") and (adt in self.doc_types):
                D.add(SRC)
        return V, D

    def op_labels(self, body, op):
        if op.get("k") not in ("copy", "move"):
            return set(), set()
        return self.place_labels(body, op["pl"])

    def can_carry(self, ty):
        """False only if `ty` is built from crate structs none of which can hold decoded data."""
        names = self._adt_rx.findall(ty)
        if not names:
            return True
        return any(self._carry.get(n, True) for n in names)

    def _recompute_carry(self):
        adts = self.lib.adts
        carry = {}
        for n in adts:
            carry[n] = n in self.doc_types or n in self.decoded_enums or any((n, f["name"]) in self.heap for v in adts[n]["variants"] for f in v["fields"])
        # downwards: a newtype / struct that is (part of) a field of a decoded document is decoded data
        # itself (Apath, BlockHash, UnixMode, Owner, ...)
        todo = [n for n in adts if n in self.doc_types] if self.carry_field_types else []
        seen = set(todo)
        while todo:
            n = todo.pop()
            for v in adts[n]["variants"]:
                for f in v["fields"]:
                    for m in self._adt_rx.findall(f["ty"]):
                        if m in adts:
                            carry[m] = True
                            if m not in seen:
                                seen.add(m)
                                todo.append(m)
        changed = True
        while changed:
            changed = False
            for n, a in adts.items():
                if carry[n]:
                    continue
                for v in a["variants"]:
                    for f in v["fields"]:
                        for m in self._adt_rx.findall(f["ty"]):
                            if carry.get(m):
                                carry[n] = True
                                changed = True
                        if re.search(r"\bT\b|dyn |impl ", f["ty"]):
                            pass
        self._carry = carry

    def _add(self, table, body, local, labels):
        if table is self.V and not self.can_carry(body.locals[local]):
            return False
        key = (body.name, local)
        new = set(labels) - table[key]
        if new:
            table[key] |= new
            return True
        return False

    def _is_decoded_enum_ty(self, ty):
        head, _ = split_generic(strip_ref(ty))
        return head in self.decoded_enums

    # ---- seeds for params / upvars --------------------------------------------------------
    def _seed(self, body):
        ch = False
        for i in range(1, body.arg_count + 1):
            if body.kind in ("closure", "coroutine") and i == 1:
                continue
            ch |= self._add(self.V, body, i, {("P", i, "V")})
            ch |= self._add(self.D, body, i, {("P", i, "D")})
            if self.forced.get((body.name, i)):
                ch |= self._add(self.V, body, i, {SRC})
        return ch

    def _upvar_labels(self, body, pl):
        """Labels for a read of a captured variable `_1.f:i...`."""
        for p in pl["p"]:
            if p.startswith("f:"):
                i = int(p.split(":")[1])
                return {("U", i, "V")}, {("U", i, "D")}
            if p != "*":
                break
        return set(), set()

    # ---- transfer ---------------------------------------------------------------------------
    def run_body(self, body):
        self._seed(body)
        is_cl = body.kind in ("closure", "coroutine")
        changed = True
        rounds = 0
        while changed and rounds < 60:
            rounds += 1
            changed = False
            for bb, j, s in body.all_assigns():
                d = s["pl"]["l"]
                rv = s["rv"]
                rk = rv["rk"]
                V, D = set(), set()
                if rk in ("use", "cast", "repeat"):
                    V, D = self._read(body, rv["ops"][0], is_cl)
                    if rk == "cast":
                        D = set()
                elif rk in ("ref", "rawptr"):
                    V, D = self._read(body, {"k": "copy", "pl": rv["pl"]}, is_cl)
                elif rk == "discr":
                    v0, d0 = self._read(body, {"k": "copy", "pl": rv["pl"]}, is_cl)
                    V = set(d0)
                    pty = self._place_ty(body, rv["pl"])
                    if pty and self._is_decoded_enum_ty(pty):
                        V |= v0
                elif rk in ("binop", "unop"):
                    for op in rv["ops"]:
                        V |= self._read(body, op, is_cl)[0]
                elif rk == "agg":
                    for op in rv["ops"]:
                        V |= self._read(body, op, is_cl)[0]
                    if rv.get("ak") == "adt" and rv["adt"] in self.lib.adts:
                        for i, op in enumerate(rv["ops"]):
                            if SRC in self._read(body, op, is_cl)[0] and i < len(rv["fields"]):
                                if (rv["adt"], rv["fields"][i]) not in self.heap:
                                    self.heap.add((rv["adt"], rv["fields"][i]))
                                    self.heap_changed = True
                # assignment into a field of a struct: field-based heap
                if s["pl"]["p"] and SRC in V:
                    for (adt, fname, fty) in self._walk_fields(body, s["pl"]):
                        pass
                    fields = list(self._walk_fields(body, s["pl"]))
                    if fields:
                        adt, fname, _ = fields[-1]
                        if (adt, fname) not in self.heap:
                            self.heap.add((adt, fname))
                            self.heap_changed = True
                if s["pl"]["p"]:
                    D = set()
                if V and self._add(self.V, body, d, V):
                    changed = True
                if D and self._add(self.D, body, d, D):
                    changed = True
            for e in body.events:
                if e.bb in body.live and self._call(body, e, is_cl):
                    changed = True
        # summary
        out_changed = False
        rV = self.V.get((body.name, 0), set())
        rD = self.D.get((body.name, 0), set())
        if rV - self.retV[body.name] or rD - self.retD[body.name]:
            self.retV[body.name] |= rV
            self.retD[body.name] |= rD
            out_changed = True
        if self._collect_sinks(body, is_cl):
            out_changed = True
        if out_changed:
            for caller in self.g.callers_of(body.name):
                if caller in self.lib.bodies:
                    self.pending.add(caller)

    def _place_ty(self, body, pl):
        ty = body.locals[pl["l"]]
        fields = list(self._walk_fields(body, pl))
        if fields:
            return fields[-1][2]
        if not [p for p in pl["p"] if p != "*"]:
            return ty
        return None

    def _read(self, body, op, is_cl):
        if op.get("k") not in ("copy", "move"):
            return set(), set()
        V, D = self.place_labels(body, op["pl"])
        if is_cl and op["pl"]["l"] == 1 and op["pl"]["p"]:
            uV, uD = self._upvar_labels(body, op["pl"])
            V |= uV
            proj = [p for p in op["pl"]["p"] if p != "*"]
            if len(proj) == 1:
                D |= uD
        return V, D

    def _subst(self, labels, argV, argD, upV=None, upD=None):
        out = set()
        for lb in labels:
            if lb == SRC:
                out.add(SRC)
            elif lb[0] == "P":
                i = lb[1] - 1
                if i < len(argV):
                    out |= argV[i] if lb[2] == "V" else argD[i]
            elif lb[0] == "U" and upV is not None:
                i = lb[1]
                if i < len(upV):
                    out |= upV[i] if lb[2] == "V" else upD[i]
        return out

    def _call(self, body, e, is_cl):
        name = e.name
        decl = e.callee or ""
        if self.no_prop.search(name) or self.no_prop.search(decl):
            return False
        args = [self._read(body, a, is_cl) for a in e.args]
        argV = [a[0] for a in args]
        argD = [a[1] for a in args]
        anyV = set()
        for v in argV:
            anyV |= v
        dest = e.dest
        if dest is None:
            return False
        V, D = set(), set()
        targets = []
        is_poll = decl == "std::future::Future::poll"
        if is_poll:
            if e.resolved and "{closure" in e.resolved and e.resolved in self.lib.bodies:
                targets = [e.resolved]
        else:
            for tg in self.g.call_targets(self.lib, e.term):
                if tg in self.lib.bodies:
                    targets.append(tg)
        if self.source_calls.search(name):
            V.add(SRC)
            if "from_" in name:
                D.add(SRC)
        if targets:
            for tg in targets:
                tb = self.lib.bodies[tg]
                if is_poll:
                    # the coroutine's upvars were bound where it was created; its summary
                    # is already expressed in terms of the creator's parameters
                    V |= self._poll_ret(tb, "V")
                    D |= self._poll_ret(tb, "D")
                else:
                    V |= self._subst(self.retV.get(tg, ()), argV, argD)
                    D |= self._subst(self.retD.get(tg, ()), argV, argD)
                    self._inherit_sinks(body, e, tg, argV, argD)
        elif not self.source_calls.search(name):
            if UNWRAP.search(decl):
                V = set(argV[0]) if argV else set()
            elif FALLIBLE.search(name) or FALLIBLE.search(decl):
                V = set(anyV)
                D = set(anyV)
            elif D_PRESERVING.search(name) or D_PRESERVING.search(decl):
                V = set(argV[0]) if argV else set()
                D = set(argD[0]) if argD else set()
                for v in argV[1:]:
                    V |= v
            elif self.io_calls.search(name) or (self.bounded_sanitize and BOUNDED_RESULT.search(name)):
                V = set()
            else:
                V = set(anyV)
            # closures handed to adapters
            for i, a in enumerate(e.args):
                if a.get("k") in ("copy", "move") and "{closure" in body.locals[a["pl"]["l"]]:
                    for oo in flow.origins(body, a):
                        if oo[0] == "agg" and oo[1] in self.lib.bodies:
                            cb = self.lib.bodies[oo[1]]
                            if SRC in anyV:
                                for pi in range(2, cb.arg_count + 1):
                                    if not self.forced[(cb.name, pi)]:
                                        self.forced[(cb.name, pi)].add(SRC)
                                        self.pending.add(cb.name)
                            cl_ops = self._closure_operands(body, cb.name, is_cl)
                            if cl_ops is not None:
                                upV, upD = cl_ops
                                rv = self._subst(self.retV.get(cb.name, ()), [], [], upV, upD)
                                V |= rv
                                if re.search(r"::(and_then|filter_map|find_map|map_or|map_or_else)$", name):
                                    D |= self._subst(self.retD.get(cb.name, ()), [], [], upV, upD)
        ch = False
        if dest["p"]:
            D = set()
        if V and self._add(self.V, body, dest["l"], V):
            ch = True
        if D and self._add(self.D, body, dest["l"], D):
            ch = True
        return ch

    def _poll_ret(self, cor, kind):
        """Return labels of coroutine `cor` with its captures substituted by what the
        creating trampoline passes (the async fn's own parameters)."""
        table = self.retV if kind == "V" else self.retD
        labels = table.get(cor.name, set())
        cc = flow.closure_creation(self.lib, cor.name)
        out = set()
        if cc is None:
            return {SRC} if SRC in labels else set()
        pb, bb, s = cc
        upV, upD = [], []
        is_cl = pb.kind in ("closure", "coroutine")
        for op in s["rv"]["ops"]:
            v, d = self._read(pb, op, is_cl)
            upV.append(v)
            upD.append(d)
        res = self._subst(labels, [], [], upV, upD)
        # labels now refer to the trampoline's parameters (or, for a nested coroutine, its
        # own captures): callers of an `async fn` cannot be matched here, keep only SRC
        return {x for x in res if x == SRC}

    def _closure_operands(self, body, cname, is_cl):
        for bb, j, s in body.all_assigns():
            rv = s["rv"]
            if rv["rk"] == "agg" and rv.get("ak") == "closure" and rv["closure"] == cname:
                upV, upD = [], []
                for op in rv["ops"]:
                    v, d = self._read(body, op, is_cl)
                    upV.append(v)
                    upD.append(d)
                return upV, upD
        return None

    # ---- sinks ------------------------------------------------------------------------------------
    def _own_sinks(self, body, is_cl):
        out = []
        for e in body.events:
            if e.bb not in body.live:
                continue
            decl = e.callee or ""
            if UNWRAP.search(decl) and e.args:
                V, D = self._read(body, e.args[0], is_cl)
                if D:
                    what = decl.split("::")[-1]
                    src = self._describe_source(body, e.args[0])
                    out.append(Sink("unwrap", body, e.bb, e.line, D,
                                    "%s() on a value whose presence depends on decoded data (%s)" % (what, src),
                                    "%s of %s" % (what, src)))
            elif ALLOC.search(e.name) and e.args and not e.macro:
                labs = set()
                for a in e.args[-2:]:
                    if a.get("k") != "const":
                        ty = body.locals[a["pl"]["l"]]
                        if ty in ("usize", "u64", "u32"):
                            labs |= self._read(body, a, is_cl)[0]
                if labs:
                    out.append(Sink("alloc", body, e.bb, e.line, labs,
                                    "%s sized by decoded data (capacity overflow / out-of-memory abort)" % e.name.split("::")[-1],
                                    "%s sized by decoded value" % e.name.split("::")[-1]))
            elif PANIC_FN.search(e.name) and (e.macro in PANIC_MACROS):
                ctrl = self._controlling(body, e.bb, is_cl)
                if ctrl:
                    out.append(Sink("panic", body, e.bb, e.line, ctrl[1],
                                    "%s reachable under a branch on decoded data" % e.macro, "%s under decoded branch" % e.macro))
        for bb in body.live:
            t = body.blocks[bb]["term"]
            if t["tk"] == "assert":
                labs = set()
                n_t = 0
                for op in t.get("mops", []):
                    v = self._read(body, op, is_cl)[0]
                    if v:
                        n_t += 1
                    labs |= v
                if labs and (t["msg"].startswith("Overflow") or t["msg"] in ("BoundsCheck",)):
                    bounds = t["msg"] == "BoundsCheck" or self._result_bounds_something(body, bb, t)
                    out.append(Sink("assert" if bounds else "overflow-info", body, bb, t["line"], labs,
                                    "%s with decoded operand(s)%s" % (t["msg"], "" if bounds else " (debug-build only; result does not bound anything)"),
                                    t["msg"]))
        return out

    def _result_bounds_something(self, body, bb, t):
        """Does the value computed by the checked arithmetic go on to a comparison, a
        slice/index or max/min within this body?"""
        cond = t["cond"]
        l = flow.operand_local(cond)
        if l is None:
            return False
        tracked = {l}
        changed = True
        while changed:
            changed = False
            for b2, j, s in body.all_assigns():
                rv = s["rv"]
                for op in rv.get("ops", []):
                    if flow.operand_local(op) in tracked:
                        if rv["rk"] == "binop" and rv["op"] in ("Lt", "Le", "Gt", "Ge"):
                            return True
                        if s["pl"]["l"] not in tracked:
                            tracked.add(s["pl"]["l"])
                            changed = True
                if rv["rk"] == "ref" and rv["pl"]["l"] in tracked and s["pl"]["l"] not in tracked:
                    tracked.add(s["pl"]["l"])
                    changed = True
            for e in body.events:
                if e.bb in body.live and any(flow.operand_local(a) in tracked for a in e.args):
                    if BOUNDING.search(e.name) or (e.callee or "") in ("std::cmp::PartialOrd::lt", "std::cmp::PartialOrd::gt", "std::cmp::PartialOrd::le", "std::cmp::PartialOrd::ge"):
                        return True
                    if re.search(r"and_modify|or_insert|Range", e.name):
                        return True
                    if e.dest and e.dest["l"] not in tracked and re.search(r"clone|into|from|as_", e.name):
                        tracked.add(e.dest["l"])
                        changed = True
            # captured by a closure that compares it
            for b2, j, s in body.all_assigns():
                rv = s["rv"]
                if rv["rk"] == "agg" and rv.get("ak") == "closure" and any(flow.operand_local(op) in tracked for op in rv["ops"]):
                    return True
        return False

    def _controlling(self, body, target, is_cl):
        for bb in sorted(body.live):
            t = body.blocks[bb]["term"]
            if t["tk"] != "switch":
                continue
            V = self._read(body, t["discr"], is_cl)[0]
            if not V:
                continue
            succs = body.succ[bb]
            if len(succs) < 2:
                continue
            reach = [(s == target) or (target in body.reachable(s, removed_nodes={bb})) for s in succs]
            if any(reach) and not all(reach):
                return bb, V
        return None

    def _describe_source(self, body, op):
        orig = flow.origins(body, op)
        calls = sorted({o[1].split("::")[-1] for o in orig if o[0] == "call"})
        return "from " + ",".join(calls[:3]) if calls else "decoded value"

    def _collect_sinks(self, body, is_cl):
        changed = False
        table = self.cond_sinks[body.name]
        for s in self._own_sinks(body, is_cl):
            sid = (body.name, s.kind, s.name, s.bb)
            old = table.get(sid)
            if old is None or s.labels - old.labels:
                if old is not None:
                    s.labels |= old.labels
                table[sid] = s
                changed = True
        # closures: substitute captured-variable labels with what the parent passes
        for sid, s in list(table.items()):
            if SRC in s.labels:
                self.real_sites[sid].add(body.name)
                if sid not in self.real:
                    self.real[sid] = s
                    changed = True
        return changed

    def _inherit_sinks(self, body, e, tg, argV, argD):
        """Conditional sinks of callee `tg` become sinks of `body` under the labels of
        the arguments passed at this call site."""
        table = self.cond_sinks[body.name]
        for sid, s in list(self.cond_sinks.get(tg, {}).items()):
            if SRC in s.labels and sid in self.real:
                continue
            labs = self._subst(s.labels, argV, argD)
            if not labs:
                continue
            old = table.get(sid)
            if old is None or labs - old.labels:
                ns = Sink(s.kind, s.body, s.bb, s.line, labs | (old.labels if old else set()), s.msg, s.name)
                ns.via = "%s -> %s" % (body.name, s.via or tg)
                table[sid] = ns
                if SRC in ns.labels:
                    self.real_sites[sid].add(body.name)
                if SRC in ns.labels and sid not in self.real:
                    self.real[sid] = ns
                self.pending.add(body.name)

    def _closure_sinks(self):
        """Sinks inside closures/coroutines conditional on captures: instantiate at the
        creation site."""
        changed = False
        for cname, table in list(self.cond_sinks.items()):
            cb = self.lib.bodies.get(cname)
            if cb is None or cb.kind not in ("closure", "coroutine"):
                continue
            cc = flow.closure_creation(self.lib, cname)
            if cc is None:
                continue
            pb, bb, st = cc
            is_cl = pb.kind in ("closure", "coroutine")
            upV, upD = [], []
            for op in st["rv"]["ops"]:
                v, d = self._read(pb, op, is_cl)
                upV.append(v)
                upD.append(d)
            ptable = self.cond_sinks[pb.name]
            for sid, s in list(table.items()):
                labs = self._subst({l for l in s.labels if l != SRC and l[0] == "U"}, [], [], upV, upD)
                if not labs:
                    continue
                old = ptable.get(sid)
                if old is None or labs - old.labels:
                    ns = Sink(s.kind, s.body, s.bb, s.line, labs | (old.labels if old else set()), s.msg, s.name)
                    ns.via = "%s -> %s" % (pb.name, s.via or cname)
                    ptable[sid] = ns
                    if SRC in ns.labels:
                        self.real_sites[sid].add(pb.name)
                    if SRC in ns.labels and sid not in self.real:
                        self.real[sid] = ns
                    changed = True
                    for caller in self.g.callers_of(pb.name):
                        if caller in self.lib.bodies:
                            self.pending.add(caller)
                    self.pending.add(pb.name)
        return changed

    def solve(self, max_iter=40000):
        names = [n for n, b in self.lib.bodies.items() if b.file.startswith("src/") and b.kind not in ("const", "static", "anon_const")
                 and not (self.skip_bodies and self.skip_bodies.search(b.root))]
        self.pending = set(names)
        it = 0
        while it < max_iter:
            self.heap_changed = False
            while self.pending and it < max_iter:
                it += 1
                n = self.pending.pop()
                b = self.lib.bodies.get(n)
                if b is not None:
                    self.run_body(b)
            more = self._closure_sinks()
            if self.heap_changed:
                self._recompute_carry()
                self.pending |= set(names)
            if not self.pending and not more:
                break
        return it
