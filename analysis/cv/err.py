"""ERR rule family: what happens to the Result of a fallible storage / decoding call."""
import re

from . import flow
from .mir import pl_key

IN_SCOPE_ERR = re.compile(
    r"^(errors::Error|transport::error::Error|transport::Error|jsonio::Error|std::io::Error|snap::Error"
    r"|serde_json::Error|conserve::errors::Error|conserve::Error|conserve::transport::Error|conserve::transport::error::Error"
    r"|semver::Error|jiff::Error|apath::ApathParseError|std::num::TryFromIntError|blockhash::BlockHashParseError"
    r"|std::num::ParseIntError|tokio::task::JoinError)$"
)

TRANSFORMERS = re.compile(
    r"^std::result::Result::<T, E>::(map_err|map|and_then|or_else|inspect_err|inspect|as_ref|as_mut|copied|cloned)$"
    r"|^std::result::Result::<std::option::Option<T>, E>::transpose$"
    r"|^std::option::Option::<std::result::Result<T, E>>::transpose$"
    r"|IntoFuture>?::into_future$|^std::pin::Pin::<Ptr>::new_unchecked$"
)

SWALLOW_METHODS = re.compile(
    r"^std::result::Result::<T, E>::(ok|err|unwrap_or|unwrap_or_else|unwrap_or_default|is_ok|is_err|is_ok_and|is_err_and"
    r"|map_or|map_or_else|iter|into_iter|unwrap_or_else)$|^std::result::Result::<T, E>::into_iter$"
)
PANIC_METHODS = re.compile(r"^std::result::Result::<T, E>::(unwrap|expect|unwrap_err|expect_err)$")

SEVERITY = {"panicked": 5, "swallowed": 4, "logged": 3, "reported": 2, "escaped": 1, "propagated": 0}


def split_generic(ty):
    """Top-level generic arguments of `Head<a, b<c, d>, e>`."""
    i = ty.find("<")
    if i < 0 or not ty.endswith(">"):
        return ty, []
    head = ty[:i]
    inner = ty[i + 1:-1]
    args, depth, cur = [], 0, ""
    for ch in inner:
        if ch in "<([":
            depth += 1
        elif ch in ">)]":
            depth -= 1
        if ch == "," and depth == 0:
            args.append(cur.strip())
            cur = ""
        else:
            cur += ch
    if cur.strip():
        args.append(cur.strip())
    return head, args


def result_err_type(ty):
    """Error type if `ty` is Result<_, E> or Poll<Result<_, E>>, else None."""
    head, args = split_generic(ty)
    if head == "std::task::Poll" and args:
        head, args = split_generic(args[0])
    if head == "std::option::Option" and args:
        # Option<Result<T, E>>: an iterator-style `next` that can fail
        head, args = split_generic(args[0])
        if head != "std::result::Result":
            return None
    if head == "std::result::Result" and len(args) == 2:
        return args[1]
    return None


class Site:
    def __init__(self, body, event, err_ty):
        self.body = body
        self.event = event
        self.err_ty = err_ty
        self.fates = []   # (fate, detail, bb)

    @property
    def fate(self):
        if not self.fates:
            return "swallowed"
        return max(self.fates, key=lambda f: SEVERITY[f[0]])[0]

    @property
    def detail(self):
        if not self.fates:
            return "unused"
        return max(self.fates, key=lambda f: SEVERITY[f[0]])[1]

    def callee_short(self):
        n = self.event.name.replace("::{closure#0}", "")
        return n

    def __repr__(self):
        return "<%s %s:%s %s in %s>" % (self.fate, self.detail, self.callee_short(), self.event.site(), self.body.name)


def _option_payloads(body, carriers):
    """Locals holding the payload of an Option carrier: `(c as Some).0`, or the Continue
    payload of `c?`."""
    out = set()
    branch_dests = set()
    for e in body.events:
        if e.callee == "std::ops::Try::branch" and e.args:
            l = flow.operand_local(e.args[0])
            if l in carriers and body.locals[l].startswith("std::option::Option<"):
                branch_dests.add(e.dest["l"])
    for bb, j, s in body.all_assigns():
        rv = s["rv"]
        if rv["rk"] == "use" and rv["ops"][0].get("k") in ("copy", "move") and not s["pl"]["p"]:
            src = rv["ops"][0]["pl"]
            if src["p"] and ((src["l"] in carriers and src["p"][0] == "dc:Some" and body.locals[src["l"]].startswith("std::option::Option<")) or
                             (src["l"] in branch_dests and src["p"][0] == "dc:Continue")):
                out.add(s["pl"]["l"])
    return out


def _carriers_with_transformers(body, start):
    """Carriers of the Result value, also through map_err / map / and_then ..."""
    carriers = set(flow.result_carriers(body, start))
    changed = True
    while changed:
        changed = False
        for l in _option_payloads(body, carriers):
            if l not in carriers:
                carriers |= flow.result_carriers(body, l)
                changed = True
        for e in body.events:
            if e.bb not in body.live or not e.args:
                continue
            if TRANSFORMERS.search(e.callee or "") or TRANSFORMERS.search(e.name):
                l = flow.operand_local(e.args[0])
                if l in carriers and e.dest["l"] not in carriers and not e.dest["p"]:
                    carriers.add(e.dest["l"])
                    more = flow.result_carriers(body, e.dest["l"])
                    carriers |= more
                    changed = True
    return carriers


def _payload_fate(body, payload_locals, err_edge_target):
    """What happens to the error value once it is bound in the Err arm."""
    tracked = set(payload_locals)
    fates = []
    changed = True
    guard = 0
    while changed and guard < 50:
        guard += 1
        changed = False
        for bb, j, s in body.all_assigns():
            rv = s["rv"]
            srcs = []
            if rv["rk"] in ("use", "cast"):
                srcs = [rv["ops"][0]]
            elif rv["rk"] == "agg":
                srcs = rv["ops"]
            elif rv["rk"] in ("ref",):
                if rv["pl"]["l"] in tracked and s["pl"]["l"] not in tracked:
                    tracked.add(s["pl"]["l"])
                    changed = True
                continue
            for op in srcs:
                l = flow.operand_local(op)
                if l in tracked:
                    d = s["pl"]["l"]
                    if d == 0:
                        fates.append(("propagated", "returned Err", bb))
                    if d not in tracked:
                        tracked.add(d)
                        changed = True
        for e in body.events:
            if e.bb not in body.live:
                continue
            for a in e.args:
                l = flow.operand_local(a)
                if l in tracked:
                    name = e.name
                    decl = e.callee or ""
                    if decl == "monitor::Monitor::error" or name.endswith("Monitor::error") or decl.endswith("::Monitor::error"):
                        fates.append(("reported", "monitor.error", e.bb))
                    elif "tracing" in name or name.startswith("core::fmt") or name.startswith("std::fmt") or "fmt::" in name:
                        fates.append(("logged", "log only", e.bb))
                    elif e.dest["l"] == 0:
                        fates.append(("propagated", "returned via %s" % name.split("::")[-1], e.bb))
                    else:
                        d = e.dest["l"]
                        if d not in tracked and not e.dest["p"]:
                            tracked.add(d)
                            changed = True
    # a tracked value assigned to _0 through a call dest handled above; check `_0 = Err(..)` etc.
    return fates


def _arm_returns_err(body, switch_bb, err_target):
    """True if every path from the Err arm to a return builds an `Err(..)` value first."""
    err_blocks = set()
    for bb, j, st in body.all_assigns():
        rv = st["rv"]
        if rv["rk"] == "agg" and rv.get("ak") == "adt" and rv.get("variant") == "Err" and rv.get("adt") == "std::result::Result":
            err_blocks.add(bb)
    if not err_blocks:
        return False
    if err_target in err_blocks:
        return True
    reach = body.reachable(err_target, removed_nodes=err_blocks)
    for r in body.return_blocks():
        if r in reach:
            return False
    return True


def classify(body, event):
    """Fate(s) of the Result produced by `event` in `body`."""
    ty = body.locals[event.dest["l"]]
    err_ty = result_err_type(ty)
    site = Site(body, event, err_ty)
    dest = event.dest["l"]
    if dest == 0:
        site.fates.append(("propagated", "tail call", event.bb))
        return site
    carriers = _carriers_with_transformers(body, dest)
    if 0 in carriers:
        site.fates.append(("propagated", "returned", event.bb))
    used = False
    weak = []
    # statement uses
    for bb, j, s in body.all_assigns():
        rv = s["rv"]
        ops = rv.get("ops", [])
        if rv["rk"] == "agg":
            for op in ops:
                l = flow.operand_local(op)
                if l in carriers and not op["pl"]["p"]:
                    used = True
                    if s["pl"]["l"] == 0:
                        site.fates.append(("propagated", "returned in aggregate", bb))
                    else:
                        # Poll::Ready(result) / tuple / Some(result)
                        d = s["pl"]["l"]
                        if d in carriers:
                            continue
                        sub = classify_local(body, d)
                        site.fates.extend(sub or [("escaped", "stored in aggregate", bb)])
    # terminator uses
    for e in body.events:
        if e.bb not in body.live or not e.args:
            continue
        for ai, a in enumerate(e.args):
            l = flow.operand_local(a)
            if l is None or l not in carriers or a["pl"]["p"]:
                continue
            decl = e.callee or ""
            name = e.name
            if decl == "std::ops::Try::branch":
                used = True
                if not body.locals[l].startswith("std::option::Option<"):
                    site.fates.append(("propagated", "?", e.bb))
            elif TRANSFORMERS.search(decl) or TRANSFORMERS.search(name) or decl == "std::future::Future::poll":
                used = True
            elif PANIC_METHODS.search(decl):
                used = True
                site.fates.append(("panicked", decl.split("::")[-1], e.bb))
            elif decl in ("std::result::Result::<T, E>::is_ok", "std::result::Result::<T, E>::is_err"):
                # a test by reference: the value lives on, and what happens to it afterwards decides; only if
                # nothing else does is the error swallowed by the test
                used = True
                weak.append(("swallowed", decl.split("::")[-1], e.bb))
            elif SWALLOW_METHODS.search(decl):
                used = True
                site.fates.append(("swallowed", decl.split("::")[-1], e.bb))
            elif decl in ("std::mem::drop",):
                used = True
                site.fates.append(("swallowed", "drop", e.bb))
            else:
                used = True
                site.fates.append(("escaped", "arg of %s" % name.split("::")[-1], e.bb))
    # match / if let
    for (sb, tested, arms, other) in flow.discriminant_switches(body, carriers):
        tty = body.locals[tested]
        if not tty.startswith("std::result::Result<"):
            continue
        used = True
        if 1 in arms:
            err_t = arms[1]
        elif 0 in arms:
            err_t = other
        else:
            continue
        # payload extraction: statements reading (tested as Err).0
        payload = set()
        for bb, j, s in body.all_assigns():
            rv = s["rv"]
            if rv["rk"] in ("use", "ref"):
                src = rv["ops"][0]["pl"] if rv["rk"] == "use" and rv["ops"][0].get("k") != "const" else (rv["pl"] if rv["rk"] == "ref" else None)
                if src and src["l"] == tested and src["p"] and src["p"][0] == "dc:Err":
                    payload.add(s["pl"]["l"])
        if not payload:
            if _arm_returns_err(body, sb, err_t):
                site.fates.append(("propagated", "Err(_) arm returns another Err", sb))
            else:
                site.fates.append(("swallowed", "Err(_) arm ignores the error", sb))
            continue
        pf = _payload_fate(body, payload, err_t)
        if not pf:
            if _arm_returns_err(body, sb, err_t):
                site.fates.append(("propagated", "Err(e) arm returns another Err", sb))
            else:
                site.fates.append(("swallowed", "Err(e) arm never uses the error", sb))
        else:
            # the best thing that happens to the payload decides this arm ...
            best = min(pf, key=lambda f: SEVERITY[f[0]])
            site.fates.append(best)
            # ... unless some path through the Err arm avoids every reporting / propagating use
            # (e.g. a guarded arm `Err(e) if lenient(e) => continue` next to the reporting one)
            if best[0] in ("reported", "propagated"):
                good_nodes = {f[2] for f in pf if f[0] in ("reported", "propagated")}
                err_nodes = set()
                for bb2, j2, st2 in body.all_assigns():
                    rv2 = st2["rv"]
                    if rv2["rk"] == "agg" and rv2.get("variant") == "Err" and rv2.get("adt") == "std::result::Result":
                        err_nodes.add(bb2)
                stop = good_nodes | err_nodes
                reach = body.reachable(err_t, removed_nodes=stop)
                exits = [r for r in body.return_blocks() if r in reach]
                loops = event.bb in reach and event.bb not in stop
                if (exits or loops) and err_t not in stop:
                    site.fates.append(("swallowed", "an Err path neither reports nor propagates the error", sb))
    if not site.fates and weak:
        site.fates.extend(weak)
    if not used and not site.fates:
        site.fates.append(("swallowed", "unused", event.bb))
    return site


def classify_local(body, local):
    """Fates for a value that wraps a Result (e.g. Poll::Ready(res) assigned to _0)."""
    if local == 0:
        return [("propagated", "returned", 0)]
    carr = flow.result_carriers(body, local)
    if 0 in carr:
        return [("propagated", "returned", 0)]
    return []


def result_sites(body, scope_rx=IN_SCOPE_ERR, skip_macros=True):
    """All call events in `body` that yield a Result with an in-scope error type."""
    out = []
    for e in body.events:
        if e.bb not in body.live:
            continue
        if e.dest is None:
            continue
        decl = e.callee or ""
        if TRANSFORMERS.search(decl) or decl in ("std::ops::Try::branch", "std::ops::FromResidual::from_residual"):
            continue
        if skip_macros and e.macro and ("trace" in e.macro or e.macro in ("debug!", "warn!", "error!", "info!", "event!", "write!", "writeln!", "format!", "assert!", "debug_assert!", "assert_eq!", "debug_assert_eq!", "panic!")):
            continue
        if e.dest["p"]:
            continue
        ty = body.locals[e.dest["l"]]
        et = result_err_type(ty)
        if et is None or not scope_rx.search(et):
            continue
        out.append(classify(body, e))
    return out
