"""Whole-program call graph over the fact files, and transitive effect summaries."""
import re
from collections import defaultdict, deque

# Primitive effects, anchored on external APIs (regex on the resolved/declared callee).
PRIMITIVE_EFFECTS = [
    ("CHMOD", r"^(std|tokio)::fs::set_permissions$|^std::fs::File::set_permissions$"),
    ("CHOWN_NOFOLLOW", r"^std::os::unix::fs::lchown$|^nix::unistd::fchownat$"),
    ("CHOWN_FOLLOW", r"^std::os::unix::fs::chown$|^nix::unistd::chown$|^std::os::unix::fs::fchown$"),
    ("UTIME_NOFOLLOW", r"^filetime::set_symlink_file_times$"),
    ("UTIME_FOLLOW", r"^filetime::set_file_mtime$|^filetime::set_file_times$|^filetime::set_file_atime$"),
    ("UTIME_HANDLE", r"^filetime::set_file_handle_times$"),
    ("FS_CREATE", r"^std::fs::File::create(_new)?$|^std::fs::OpenOptions::open$|^tokio::fs::OpenOptions::open$"
                  r"|^(std|tokio)::fs::write$|^(std|tokio)::fs::create_dir(_all)?$|^std::os::unix::fs::symlink$"
                  r"|^tokio::fs::File::create$|^(std|tokio)::fs::(rename|copy|hard_link)$|^tokio::fs::symlink$"),
    ("FS_REMOVE", r"^(std|tokio)::fs::remove_(file|dir|dir_all)$"),
    ("SFTP_REMOVE", r"^ssh2::Sftp::(unlink|rmdir)$"),
    ("S3_REMOVE", r"aws_sdk_s3::.*delete_object"),
    ("T_READ", r"^transport::Transport::read$"),
    ("T_LIST", r"^transport::Transport::list_dir$"),
    ("T_META", r"^transport::Transport::metadata$"),
    ("T_MKDIR", r"^transport::Transport::create_dir$"),
    ("T_WRITE", r"^transport::Transport::write$"),
    ("T_REMOVE", r"^transport::Transport::(remove_file|remove_dir_all)$"),
    ("NOW", r"^jiff::Timestamp::now$|^std::time::SystemTime::now$|^jiff::Zoned::now$"),
    ("SPAWN", r"^tokio::spawn$|^tokio::task::spawn$|^tokio::task::JoinSet::<T>::spawn$|^tokio::task::spawn_blocking$"
              r"|^std::thread::spawn$|^tokio::task::spawn::spawn$"),
    ("SYMLINK", r"^std::os::unix::fs::symlink$"),
]
_PRIM = [(e, re.compile(rx)) for e, rx in PRIMITIVE_EFFECTS]


def primitive_effects(name):
    return {e for e, rx in _PRIM if rx.search(name)}


class Graph:
    def __init__(self, crates):
        """crates: list of mir.Crate (lib first)."""
        self.crates = crates
        self.bodies = {}
        for c in crates:
            for n, b in c.bodies.items():
                key = n if c.kind == "lib" else "bin::" + n
                self.bodies[key] = b
        self.lib = crates[0]
        self.edges = defaultdict(set)      # node -> callees
        self.redges = defaultdict(set)
        self.sites = defaultdict(list)     # (caller, callee) -> [Event]
        self.trait_impls = defaultdict(list)  # (trait, method) -> [impl fn names]
        self._build()
        self._effects = None

    def key(self, crate, name):
        return name if crate.kind == "lib" else "bin::" + name

    def _build(self):
        # trait impl index from the lib crate (bin calls into lib by `conserve::...` paths)
        for c in self.crates:
            for n, b in c.bodies.items():
                if b.trait and b.kind in ("assoc_fn",):
                    m = n.rsplit("::", 1)[-1]
                    self.trait_impls[(b.trait, m)].append(self.key(c, n))
        for c in self.crates:
            pref = "" if c.kind == "lib" else "bin::"
            for n, b in c.bodies.items():
                me = pref + n
                for i in range(b.n):
                    blk = b.blocks[i]
                    if blk["cleanup"]:
                        continue
                    for s in blk["stmts"]:
                        if s["sk"] != "assign":
                            continue
                        rv = s["rv"]
                        if rv["rk"] == "agg" and rv.get("ak") == "closure":
                            self._edge(me, self._norm(c, rv["closure"]), None)
                        for op in rv.get("ops", []):
                            if op.get("k") == "const" and "fn" in op:
                                self._edge(me, self._norm(c, op["fn"]), None)
                    t = blk["term"]
                    if t["tk"] in ("call", "tailcall"):
                        ev = None
                        for e in b.events:
                            if e.bb == i:
                                ev = e
                        for tgt in self.call_targets(c, t):
                            self._edge(me, tgt, ev)
                        for op in t.get("args", []):
                            if op.get("k") == "const" and "fn" in op:
                                self._edge(me, self._norm(c, op["fn"]), ev)
                    elif t["tk"] == "drop":
                        ty = t.get("ty")
                        for tgt in self.trait_impls.get(("std::ops::Drop", "drop"), []):
                            tb = self.bodies.get(tgt)
                            if tb is not None and tb.self_ty == ty:
                                self._edge(me, tgt, None)

    def _norm(self, crate, name):
        """Name of a callee as a graph node. In the bin crate, lib items appear as
        `conserve::x::y`; local bin items have no prefix."""
        if crate.kind == "lib":
            return name
        if name.startswith("conserve::"):
            return name[len("conserve::"):]
        if name.startswith("<conserve::") or " as conserve::" in name or "<conserve::" in name:
            return name.replace("conserve::", "")
        if name in crate.bodies:
            return "bin::" + name
        return name

    def call_targets(self, crate, t):
        res = t.get("resolved")
        decl = t.get("callee")
        out = []
        if res and t.get("rkind") != "virtual":
            out.append(self._norm(crate, res))
        elif decl:
            out.append(self._norm(crate, decl))
        # class-hierarchy closure for trait methods that did not resolve to an impl
        if decl and t.get("trait") and (not res or t.get("rkind") == "virtual" or res == decl):
            tr = t["trait"]
            if crate.kind != "lib":
                tr = tr.replace("conserve::", "")
            m = decl.rsplit("::", 1)[-1]
            for impl in self.trait_impls.get((tr, m), []):
                out.append(impl)
        return out

    def _edge(self, a, b, ev):
        self.edges[a].add(b)
        self.redges[b].add(a)
        if ev is not None:
            self.sites[(a, b)].append(ev)

    # ---- reachability ---------------------------------------------------------------
    def reachable_from(self, roots, stop=()):
        seen = set()
        dq = deque(r for r in roots)
        stop = set(stop)
        while dq:
            u = dq.popleft()
            if u in seen or u in stop:
                continue
            seen.add(u)
            for v in self.edges.get(u, ()):
                if v not in seen:
                    dq.append(v)
        return seen

    def callers_of(self, node):
        return set(self.redges.get(node, ()))

    def find_call_path(self, roots, pred, stop=()):
        """Shortest call path from one of `roots` to a node satisfying pred."""
        prev = {}
        dq = deque()
        for r in roots:
            prev[r] = None
            dq.append(r)
        stop = set(stop)
        while dq:
            u = dq.popleft()
            if pred(u):
                path = []
                while u is not None:
                    path.append(u)
                    u = prev[u]
                return path[::-1]
            if u in stop:
                continue
            for v in sorted(self.edges.get(u, ())):
                if v not in prev:
                    prev[v] = u
                    dq.append(v)
        return None

    # ---- effects ----------------------------------------------------------------------
    @property
    def effects(self):
        if self._effects is None:
            eff = defaultdict(set)
            nodes = set(self.edges) | set(self.redges)
            for n in nodes:
                pe = primitive_effects(n)
                if pe:
                    eff[n] |= pe
            # propagate callee effects to callers (reverse worklist)
            dq = deque(n for n in nodes if eff[n])
            while dq:
                v = dq.popleft()
                for u in self.redges.get(v, ()):
                    before = len(eff[u])
                    eff[u] |= eff[v]
                    if len(eff[u]) != before:
                        dq.append(u)
            self._effects = eff
        return self._effects

    def event_effects(self, crate, event):
        out = set()
        for tgt in self.call_targets(crate, event.term):
            out |= primitive_effects(tgt)
            out |= self.effects.get(tgt, set())
        return out

    def direct_performers(self, effect):
        """Bodies that directly call a primitive of `effect`."""
        rx = dict(_PRIM)[effect]
        out = defaultdict(list)
        for (a, b), evs in self.sites.items():
            if rx.search(b):
                out[a].extend(evs)
        return out
