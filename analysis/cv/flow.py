"""Value flow helpers over one MIR body: forward result tracking (what tests the result
of an event, where is it known to have succeeded) and backward provenance slices."""
import re
from collections import deque

from .mir import pl_key

# callees through which a value keeps its identity for forward/backward tracking
TRANSPARENT_FWD = re.compile(
    r"(IntoFuture>?::into_future|^std::result::Result::<T, E>::(map_err|inspect_err|inspect)$|^std::pin::Pin::<Ptr>::new_unchecked$"
    r"|^std::pin::Pin::<Ptr>::new$|::from_residual$|^std::convert::Into::into$|<T as std::convert::Into<U>>::into"
    r"|^std::convert::From::from$|<T as std::convert::From<T>>::from)"
)

TRANSPARENT_BWD = re.compile(
    r"(^(std|core)::hint::must_use$|std::clone::Clone>?::clone$|::clone$|std::ops::Deref>?::deref$|std::ops::DerefMut>?::deref_mut$"
    r"|std::convert::Into<.*>>?::into$|^std::convert::Into::into$|std::convert::From<.*>>?::from$|^std::convert::From::from$"
    r"|std::borrow::ToOwned>?::to_owned$|std::convert::AsRef<.*>>?::as_ref$|^std::convert::AsRef::as_ref$"
    r"|std::borrow::Borrow<.*>>?::borrow$|^std::option::Option::<T>::as_ref$|^std::option::Option::<T>::as_deref$"
    r"|^std::option::Option::<T>::unwrap$|^std::option::Option::<T>::expect$|^std::result::Result::<T, E>::unwrap$"
    r"|^std::result::Result::<T, E>::expect$|^std::option::Option::<T>::cloned$|^std::option::Option::<&T>::cloned$"
    r"|^std::string::ToString::to_string$|<T as std::string::ToString>::to_string$|^std::string::String::as_str$"
    r"|^std::str::<impl str>::to_owned$|^std::str::<impl str>::to_string$|^std::path::Path::new$|^std::path::Path::to_path_buf$"
    r"|^std::path::Path::to_owned$|^std::path::PathBuf::as_path$|^std::sync::Arc::<T>::new$|^std::boxed::Box::<T>::new$"
    r"|IntoFuture>?::into_future$|^std::pin::Pin::<Ptr>::new_unchecked$|^std::result::Result::<T, E>::(map_err|inspect_err|inspect)$|^bytes::BytesMut::freeze$|^std::mem::take$"
    r"|^std::option::Option::<T>::take$|^std::option::Option::<T>::as_mut$|^std::iter::IntoIterator>?::into_iter$|::into_iter$"
    r"|std::ops::Try>?::branch$|std::convert::TryInto<.*>>?::try_into$|^std::convert::TryInto::try_into$|std::convert::TryFrom<.*>>?::try_from$"
    r"|^std::iter::Iterator::rev$|^std::slice::<impl \[T\]>::iter$|^std::vec::Vec::<T, A>::as_slice$|<.* as std::ops::Index<.*>>::index$)"
)


def operand_local(op):
    if op.get("k") in ("copy", "move"):
        return op["pl"]["l"]
    return None


def _ty_head(ty):
    m = re.match(r"[&\w:]+", ty or "")
    return m.group(0) if m else ""


def result_carriers(body, start_local):
    """Locals that carry (a wrapper of / the payload of an await of) the value first stored in
    `start_local`: through moves, into_future, the await loop, map_err."""
    carriers = {start_local}
    changed = True
    while changed:
        changed = False
        for bb in range(body.n):
            if body.blocks[bb]["cleanup"]:
                continue
            for s in body.blocks[bb]["stmts"]:
                if s["sk"] != "assign":
                    continue
                dst = s["pl"]
                if dst["p"]:
                    continue
                rv = s["rv"]
                src = None
                if rv["rk"] == "use":
                    op = rv["ops"][0]
                    if op.get("k") in ("copy", "move"):
                        p = op["pl"]["p"]
                        # whole value, or payload of Poll::Ready
                        if p == [] or p == ["dc:Ready", "f:0:0"] or (len(p) == 2 and p[0] == "dc:Ready"):
                            src = op["pl"]["l"]
                elif rv["rk"] == "ref":
                    p = rv["pl"]["p"]
                    if p == [] or p == ["*"]:
                        src = rv["pl"]["l"]
                elif rv["rk"] == "agg" and rv.get("ak") == "adt" and rv.get("adt") == "std::task::Poll" and rv.get("ops"):
                    # Poll::Ready(x): the return of an inlined async helper (cv.inline)
                    op = rv["ops"][0]
                    if op.get("k") in ("copy", "move") and not op["pl"]["p"]:
                        src = op["pl"]["l"]
                if src is not None and src in carriers and dst["l"] not in carriers:
                    carriers.add(dst["l"])
                    changed = True
            t = body.blocks[bb]["term"]
            if t["tk"] == "call":
                name = t.get("resolved") or t.get("callee") or ""
                decl = t.get("callee") or ""
                if TRANSPARENT_FWD.search(name) or TRANSPARENT_FWD.search(decl) or decl == "std::future::Future::poll":
                    for a in t["args"][:1]:
                        l = operand_local(a)
                        if l is not None and l in carriers and not a["pl"]["p"]:
                            d = t["dest"]["l"]
                            if d not in carriers and not t["dest"]["p"]:
                                carriers.add(d)
                                changed = True
    return carriers


def discriminant_switches(body, local_set):
    """Switches that test the discriminant of one of `local_set`.
    Returns list of (switch_bb, tested_local, {value:int -> target}, otherwise)."""
    out = []
    for bb in range(body.n):
        if body.blocks[bb]["cleanup"]:
            continue
        t = body.blocks[bb]["term"]
        if t["tk"] != "switch":
            continue
        dl = operand_local(t["discr"])
        if dl is None:
            continue
        # find the definition of the discriminant temp in this block
        tested = None
        for s in reversed(body.blocks[bb]["stmts"]):
            if s["sk"] == "assign" and s["pl"]["l"] == dl and not s["pl"]["p"]:
                if s["rv"]["rk"] == "discr" and not s["rv"]["pl"]["p"]:
                    tested = s["rv"]["pl"]["l"]
                break
        if tested is not None and tested in local_set:
            out.append((bb, tested, {int(a[0]): a[1] for a in t["arms"]}, t["otherwise"]))
    return out


def success_edges(body, event, kind="ok"):
    """Edges (u,v) on which `event` is known to have completed successfully.

    kind = "ok": the Result it produced (possibly after .await / map_err) was tested and
    found Ok: the Continue edge of `?`, or the Ok arm of a match / if-let on it.
    kind = "some": same for an Option (Some arm).
    kind = "done": the call returned (for an await: the future was Ready).
    Returns (edges, how) where `how` describes the idiom, or (set(), None) if the result is
    never inspected."""
    dest = event.dest["l"]
    carriers = result_carriers(body, dest)
    edges = set()
    how = []
    if kind == "done":
        if event.callee == "std::future::Future::poll":
            for (sb, tested, arms, other) in discriminant_switches(body, {dest}):
                if 0 in arms:
                    edges.add((sb, arms[0]))
                    how.append("ready@bb%d" % sb)
        else:
            if event.target is not None:
                edges.add((event.bb, event.target))
                how.append("return@bb%d" % event.bb)
        return edges, how
    ok_e, fail_e, how = _outcome_edges(body, carriers, kind)
    return ok_e, how


def failure_edges(body, event, kind="ok"):
    """The complement of success_edges: edges on which `event` is known to have FAILED (the Break edge of `?`,
    the Err / None arm of a match, the false edge of is_ok()/is_some(), the true edge of is_err()/is_none())."""
    carriers = result_carriers(body, event.dest["l"])
    ok_e, fail_e, how = _outcome_edges(body, carriers, kind)
    return fail_e, how


def _outcome_edges(body, carriers, kind):
    edges, fails, how = set(), set(), []
    # `?`: Try::branch on a carrier
    for e in body.events:
        if e.callee == "std::ops::Try::branch" and e.args:
            l = operand_local(e.args[0])
            if l in carriers:
                for (sb, tested, arms, other) in discriminant_switches(body, {e.dest["l"]}):
                    if 0 in arms:
                        edges.add((sb, arms[0]))
                        how.append("?@bb%d" % sb)
                        f = arms.get(1, other)
                        if f is not None:
                            fails.add((sb, f))
    # match / if let on the Result/Option itself
    want_head = "std::result::Result" if kind == "ok" else "std::option::Option"
    ok_val = 0 if kind == "ok" else 1
    for (sb, tested, arms, other) in discriminant_switches(body, carriers):
        ty = body.locals[tested]
        if not ty.startswith(want_head):
            continue
        if ok_val in arms:
            edges.add((sb, arms[ok_val]))
            how.append("match@bb%d" % sb)
            f = arms.get(1 - ok_val, other)
            if f is not None:
                fails.add((sb, f))
        else:
            # `if let Err(..)`: only the other value is listed; the fall-through is success
            edges.add((sb, other))
            how.append("iflet-else@bb%d" % sb)
            if (1 - ok_val) in arms:
                fails.add((sb, arms[1 - ok_val]))
    # is_ok() / is_err() / is_some() / is_none() on a carrier (by reference: the value lives on)
    pos, negn = ("is_ok", "is_err") if kind == "ok" else ("is_some", "is_none")
    head = "std::result::Result::<T, E>::" if kind == "ok" else "std::option::Option::<T>::"
    for e in body.events:
        if e.bb not in body.live or not e.args or e.name not in (head + pos, head + negn):
            continue
        if operand_local(e.args[0]) not in carriers:
            continue
        te, fe = bool_switch_edges(body, e.dest["l"])
        if e.name.endswith(pos):
            edges |= te
            fails |= fe
        else:
            edges |= fe
            fails |= te
        how.append("%s@bb%d" % (e.name.rsplit("::", 1)[1], e.bb))
    return edges, fails, how


def bool_switch_edges(body, local):
    """(true_edges, false_edges) of switches on a bool held in `local` (or a plain move/copy/not of it)."""
    carriers = {local}
    neg = set()
    changed = True
    while changed:
        changed = False
        for bb in body.live:
            for s in body.blocks[bb]["stmts"]:
                if s["sk"] != "assign" or s["pl"]["p"]:
                    continue
                rv = s["rv"]
                d = s["pl"]["l"]
                if d in carriers or d in neg:
                    continue
                if rv["rk"] == "use":
                    l = operand_local(rv["ops"][0])
                    if l is not None and not rv["ops"][0]["pl"]["p"]:
                        if l in carriers:
                            carriers.add(d)
                            changed = True
                        elif l in neg:
                            neg.add(d)
                            changed = True
                elif rv["rk"] == "unop" and rv.get("op") == "Not":
                    l = operand_local(rv["ops"][0])
                    if l is not None and not rv["ops"][0]["pl"]["p"]:
                        if l in carriers:
                            neg.add(d)
                            changed = True
                        elif l in neg:
                            carriers.add(d)
                            changed = True
    te, fe = set(), set()
    for bb in body.live:
        t = body.blocks[bb]["term"]
        if t["tk"] != "switch":
            continue
        dl = operand_local(t["discr"])
        if dl is None or t["discr"]["pl"]["p"]:
            continue
        if dl in carriers or dl in neg:
            arms = {int(a[0]): a[1] for a in t["arms"]}
            f_t = arms.get(0)
            t_t = t["otherwise"] if 0 in arms else arms.get(1)
            if 0 not in arms:
                f_t = t["otherwise"]
            if dl in neg:
                t_t, f_t = f_t, t_t
            if t_t is not None:
                te.add((bb, t_t))
            if f_t is not None:
                fe.add((bb, f_t))
    return te, fe


def none_edges(body, event):
    """Edges taken exactly when the Option produced by `event` turned out to be None: the None arm of a
    match / if-let / let-else on it, the Break edge of `?` on it, the true edge of `.is_none()` and the false
    edge of `.is_some()`.  Returns (edges, how)."""
    carriers = result_carriers(body, event.dest["l"])
    edges, how = set(), []
    for e in body.events:
        if e.bb not in body.live or not e.args:
            continue
        l = operand_local(e.args[0])
        if l not in carriers:
            continue
        if e.callee == "std::ops::Try::branch":
            for (sb, tested, arms, other) in discriminant_switches(body, {e.dest["l"]}):
                t = arms.get(1, other)
                if t is not None:
                    edges.add((sb, t))
                    how.append("?@bb%d" % sb)
        elif e.name in ("std::option::Option::<T>::is_none", "std::option::Option::<T>::is_some"):
            te, fe = bool_switch_edges(body, e.dest["l"])
            edges |= te if e.name.endswith("is_none") else fe
            how.append("%s@bb%d" % (e.name.rsplit("::", 1)[1], e.bb))
    for (sb, tested, arms, other) in discriminant_switches(body, carriers):
        if not body.locals[tested].startswith("std::option::Option"):
            continue
        t = arms.get(0, other)
        if t is not None:
            edges.add((sb, t))
            how.append("match@bb%d" % sb)
    return edges, how


def await_poll(body, create_event):
    """For a call that creates a future, the poll event(s) that await it in this body."""
    carriers = result_carriers(body, create_event.dest["l"])
    out = []
    for e in body.events:
        if e.callee == "std::future::Future::poll" and e.args:
            l = operand_local(e.args[0])
            if l in carriers:
                out.append(e)
    return out


# ---------------------------------------------------------------------------------
# Backward provenance


class Origin(tuple):
    """('param', idx, path) | ('const', value) | ('call', name, bb, path) | ('agg', adt, bb)
    | ('upvar', name, path) | ('unknown', why)"""


def _opkey(op):
    if op.get("k") in ("copy", "move"):
        return ("pl", op["pl"]["l"], tuple(op["pl"]["p"]))
    return ("const", const_value(op))


def const_value(op):
    for key in ("str", "int", "fn", "closure", "uneval", "static"):
        if key in op:
            return (key, op[key])
    return ("ty", op.get("ty"))


def _strip_path(path):
    """Drop derefs; keep field / downcast elems."""
    return tuple(p for p in path if p != "*")


def origins(body, op_or_local, path=(), max_steps=4000, transparent=TRANSPARENT_BWD, through_calls=(), through_all=()):
    """Backward slice: the set of origins the value of operand/local may derive from.

    Flow-insensitive per local (every definition of a local contributes), field-sensitive
    on a best-effort basis.  Transparent callees forward their first argument (and for
    a few, all arguments)."""
    out = set()
    seen = set()
    wl = deque()
    if isinstance(op_or_local, dict):
        if op_or_local.get("k") == "const":
            return {("const",) + const_value(op_or_local)}
        wl.append((op_or_local["pl"]["l"], _strip_path(op_or_local["pl"]["p"]) + tuple(path)))
    else:
        wl.append((op_or_local, tuple(path)))
    steps = 0
    through = re.compile("|".join(through_calls)) if through_calls else None
    through_a = re.compile("|".join(through_all)) if through_all else None
    while wl:
        steps += 1
        if steps > max_steps:
            out.add(("unknown", "budget"))
            break
        local, path = wl.popleft()
        if (local, path) in seen:
            continue
        seen.add((local, path))
        defs = body.defs.get(local, [])
        is_param = 1 <= local <= body.arg_count
        if is_param:
            if body.kind in ("closure", "coroutine") and local == 1:
                # captured variable
                fld = None
                for p in path:
                    if p.startswith("f:"):
                        fld = int(p.split(":")[1])
                        break
                rest = path[1:] if path and path[0].startswith("f:") else path
                out.add(("upvar", body.upvar_names.get(fld, str(fld)), tuple(_fieldnames(rest))))
            else:
                out.add(("param", local, tuple(_fieldnames(path))))
        if not defs and not is_param:
            out.add(("unknown", "undef _%d" % local))
        for (bb, idx, kind, payload) in defs:
            if kind == "assign":
                dst_path = _strip_path(payload["pl"]["p"])
                # partial assignment to a field: relevant only if compatible with the path
                if dst_path:
                    if path[: len(dst_path)] == dst_path:
                        sub = path[len(dst_path):]
                    elif dst_path[: len(path)] == path:
                        sub = ()
                    else:
                        continue
                else:
                    sub = path
                rv = payload["rv"]
                rk = rv["rk"]
                if rk == "use" or rk == "cast" or rk == "repeat":
                    op = rv["ops"][0]
                    if op.get("k") == "const":
                        out.add(("const",) + const_value(op))
                    else:
                        wl.append((op["pl"]["l"], _strip_path(op["pl"]["p"]) + sub))
                elif rk in ("ref", "rawptr", "discr"):
                    wl.append((rv["pl"]["l"], _strip_path(rv["pl"]["p"]) + sub))
                elif rk in ("binop", "unop"):
                    for op in rv["ops"]:
                        if op.get("k") == "const":
                            out.add(("const",) + const_value(op))
                        else:
                            wl.append((op["pl"]["l"], _strip_path(op["pl"]["p"])))
                    out.add(("arith", rv["op"], bb))
                elif rk == "agg":
                    ops = rv["ops"]
                    picked = False
                    if rv.get("ak") == "adt" and sub and rv.get("adt") in _WRAPPERS and not sub[0].startswith("dc:"):
                        # the path is relative to the payload (it came through `?`, unwrap, an await ...): a success
                        # wrapper hands on its payload, a failure variant has none
                        picked = True
                        if rv.get("variant") in ("Ok", "Some", "Ready", "Continue") and ops:
                            op = ops[0]
                            if op.get("k") == "const":
                                out.add(("const",) + const_value(op))
                            else:
                                wl.append((op["pl"]["l"], _strip_path(op["pl"]["p"]) + tuple(sub)))
                    elif rv.get("ak") == "adt" and sub and sub[0].startswith("dc:") and rv.get("variant") and sub[0][3:] != rv["variant"]:
                        # `(x as V).f` read from a value that was built as another variant: nothing flows
                        picked = True
                    elif rv.get("ak") == "adt" and sub:
                        # select the field named by the path
                        first = sub[0]
                        # skip a leading downcast
                        rest = sub
                        if first.startswith("dc:"):
                            rest = sub[1:]
                        if rest and rest[0].startswith("f:"):
                            fi = int(rest[0].split(":")[1])
                            if fi < len(ops):
                                op = ops[fi]
                                picked = True
                                if op.get("k") == "const":
                                    out.add(("const",) + const_value(op))
                                else:
                                    wl.append((op["pl"]["l"], _strip_path(op["pl"]["p"]) + tuple(rest[1:])))
                    elif rv.get("ak") == "tuple" and sub and sub[0].startswith("f:"):
                        fi = int(sub[0].split(":")[1])
                        if fi < len(ops):
                            op = ops[fi]
                            picked = True
                            if op.get("k") == "const":
                                out.add(("const",) + const_value(op))
                            else:
                                wl.append((op["pl"]["l"], _strip_path(op["pl"]["p"]) + tuple(sub[1:])))
                    if not picked and rv.get("ak") == "adt" and not ops:
                        out.add(("enum", rv["adt"], rv["variant"]))
                    elif not picked:
                        out.add(("agg", rv.get("adt") or rv.get("closure") or rv.get("ak"), bb))
                        for op in ops:
                            if op.get("k") == "const":
                                out.add(("const",) + const_value(op))
                            else:
                                wl.append((op["pl"]["l"], _strip_path(op["pl"]["p"])))
                else:
                    out.add(("unknown", rk))
            elif kind == "call":
                t = payload
                name = t.get("resolved") or t.get("callee") or "?"
                decl = t.get("callee") or ""
                if through_a and (through_a.search(name) or through_a.search(decl)):
                    for op in t["args"]:
                        if op.get("k") == "const":
                            out.add(("const",) + const_value(op))
                        else:
                            wl.append((op["pl"]["l"], _strip_path(op["pl"]["p"])))
                    out.add(("via", decl or name))
                elif transparent.search(name) or transparent.search(decl) or (through and (through.search(name) or through.search(decl))):
                    args = t["args"]
                    if args:
                        op = args[0]
                        if op.get("k") == "const":
                            out.add(("const",) + const_value(op))
                        else:
                            wl.append((op["pl"]["l"], _strip_path(op["pl"]["p"]) + _unwrap_path(path)))
                    out.add(("via", decl or name))
                elif decl == "std::future::Future::poll":
                    # value of an await: the awaited callee's result
                    if "{closure" in name:
                        out.add(("call", name.replace("::{closure#0}", ""), bb, tuple(_fieldnames(_unwrap_path(path)))))
                    else:
                        # a boxed / dyn future: find the call that created it
                        args = t["args"]
                        if args and args[0].get("k") != "const":
                            wl.append((args[0]["pl"]["l"], ()))
                elif path and not path[0].startswith("dc:") and name.endswith("::from_residual"):
                    # `?` returning early: the value made here is a failure and has no payload to read a field of
                    pass
                else:
                    out.add(("call", name, bb, tuple(_fieldnames(_unwrap_path(path)))))
            elif kind == "yield":
                out.add(("resume",))
    return out


_WRAPPERS = ("std::result::Result", "std::option::Option", "std::task::Poll", "std::ops::ControlFlow")


def _unwrap_path(path):
    """Strip wrapper downcasts (Ready/Some/Ok/Continue + field 0) from a path."""
    p = list(path)
    while len(p) >= 2 and p[0] in ("dc:Ready", "dc:Some", "dc:Ok", "dc:Continue") and p[1].startswith("f:0"):
        p = p[2:]
    return tuple(p)


def _fieldnames(path):
    out = []
    for p in path:
        if p.startswith("f:"):
            _, idx, name = p.split(":", 2)
            out.append(name or idx)
        elif p.startswith("dc:"):
            out.append("as " + p[3:])
    return out


def origin_calls(orig):
    return {o[1] for o in orig if o and o[0] == "call"}


def origin_params(orig):
    return {(o[1], o[2]) for o in orig if o and o[0] == "param"}


# ---------------------------------------------------------------------------------
# Closures and captured variables


def closure_creation(crate, closure_name):
    """(parent body, bb, stmt) of the aggregate that creates closure/coroutine `closure_name`."""
    cb = crate.bodies.get(closure_name)
    if cb is None or not cb.parent:
        return None
    pb = crate.bodies.get(cb.parent)
    if pb is None:
        # the parent was a private helper dissolved into its callers (cv.inline): the closure is
        # now created by the inlined copy
        cache = crate.__dict__.setdefault("_closure_creators", {})
        if closure_name not in cache:
            hit = None
            for ob in crate.bodies.values():
                for blk in ob.blocks:
                    if blk["cleanup"] or "inl" not in blk:
                        continue
                    for s in blk["stmts"]:
                        if s["sk"] == "assign" and s["rv"]["rk"] == "agg" and s["rv"].get("ak") == "closure" \
                                and s["rv"]["closure"] == closure_name:
                            hit = ob
                            break
                    if hit:
                        break
                if hit:
                    break
            cache[closure_name] = hit
        pb = cache[closure_name]
    if pb is None:
        return None
    for bb, j, s in pb.all_assigns():
        rv = s["rv"]
        if rv["rk"] == "agg" and rv.get("ak") == "closure" and rv["closure"] == closure_name:
            return pb, bb, s
    return None


def origins_x(crate, body, op_or_local, path=(), depth=0, **kw):
    """Like origins(), but captured variables are followed into the enclosing bodies, and
    parameters are reported by name: ('param', name, path)."""
    raw = origins(body, op_or_local, path, **kw)
    out = set()
    for o in raw:
        if o[0] == "upvar" and depth < 6:
            cc = closure_creation(crate, body.name)
            if cc is None:
                out.add(o)
                continue
            pb, bb, s = cc
            idx = None
            for fi, nm in body.upvar_names.items():
                if nm == o[1]:
                    idx = fi
                    break
            if idx is None:
                try:
                    idx = int(o[1])
                except ValueError:
                    idx = None
            ops = s["rv"]["ops"]
            if idx is None or idx >= len(ops):
                out.add(o)
                continue
            op = ops[idx]
            if op.get("k") == "const":
                out.add(("const",) + const_value(op))
                continue
            # the captured value may be a reference to the variable: keep the field path
            sub = tuple("f:0:%s" % n if not n.startswith("as ") else "dc:" + n[3:] for n in o[2])
            # field names only: re-resolve by name in the parent (best effort): append names
            inner = origins_x(crate, pb, op["pl"]["l"], _strip_path(op["pl"]["p"]), depth + 1, **kw)
            for i in inner:
                if i[0] in ("param", "call", "upvar") and o[2]:
                    # extend the path with the field names used in the closure
                    if i[0] == "param":
                        out.add(("param", i[1], tuple(i[2]) + tuple(o[2])))
                    elif i[0] == "call":
                        out.add(("call", i[1], i[2], tuple(i[3]) + tuple(o[2])))
                    else:
                        out.add(("upvar", i[1], tuple(i[2]) + tuple(o[2])))
                else:
                    out.add(i)
        elif o[0] == "param":
            name = body.local_names.get(o[1], o[1]) if isinstance(o[1], int) else o[1]
            out.add(("param", name, o[2]))
        else:
            out.add(o)
    return out


def origin_summary(orig):
    """Compact human-readable form for evidence."""
    out = []
    for o in sorted(orig, key=str):
        if o[0] == "call":
            out.append("call %s%s" % (o[1], ("." + ".".join(o[3])) if o[3] else ""))
        elif o[0] == "param":
            out.append("param %s%s" % (o[1], ("." + ".".join(o[2])) if o[2] else ""))
        elif o[0] == "upvar":
            out.append("upvar %s%s" % (o[1], ("." + ".".join(o[2])) if o[2] else ""))
        elif o[0] == "const":
            out.append("const %s" % (o[2],))
        elif o[0] == "via":
            pass
        else:
            out.append(" ".join(str(x) for x in o))
    return out
