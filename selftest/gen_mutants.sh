#!/bin/bash
# Regenerates the hand-written mutants from the current /repo sources (the D*_ patches are reverts of fix commits).
set -e
cd "$(dirname "$0")"
M() { ./mk.py mutants "$@" >/dev/null || echo "FAILED to build $1"; }

# ---- C01
M c01_deferrals_mode_before_owner C01 'C01.1.apply_deferrals' 'apply_deferrals applies mode before owner' src/restore.rs \
'        if let Err(source) = owner.set_owner(path) {
            monitor.error(Error::RestoreOwnership {
                path: path.clone(),
                source,
            });
        }
        if let Err(source) = unix_mode.set_permissions(path) {
            monitor.error(Error::RestorePermissions {
                path: path.clone(),
                source,
            });
        }' \
'        if let Err(source) = unix_mode.set_permissions(path) {
            monitor.error(Error::RestorePermissions {
                path: path.clone(),
                source,
            });
        }
        if let Err(source) = owner.set_owner(path) {
            monitor.error(Error::RestoreOwnership {
                path: path.clone(),
                source,
            });
        }'
M c01_mode_bits_0777 C01 'C01.5a' 'mode mask drops setuid/setgid/sticky' src/unix_mode.rs 'const MODE_BITS: u32 = 0o7777;' 'const MODE_BITS: u32 = 0o777;'
M c01_metadata_from_drops_mode C01 'C01.3d' 'metadata_from does not capture the mode' src/index/entry.rs '            unix_mode: source.unix_mode(),' '            unix_mode: UnixMode::default(),'
M c01_restore_file_skips_mtime C01 'C01.3a' 'restore_file no longer sets the mtime' src/restore.rs \
'    set_file_handle_times(&out, mtime, mtime).map_err(|source| Error::RestoreModificationTime {
        path: path.clone(),
        source,
    })?;' \
'    let _ = mtime;'
M c01_to_file_time_drops_nanos C01 'C01.5b' 'to_file_time ignores the sub-second part' src/unix_time.rs \
'        let (seconds, nanos) = unix_seconds_and_nanos(self);
        FileTime::from_unix_time(seconds, nanos)' \
'        FileTime::from_unix_time(self.as_second(), 0)'
M c01_copy_symlink_not_recorded C01 'C01.6.copy_symlink' 'copy_symlink returns Ok without recording the entry' src/backup.rs \
'        assert!(target.is_some());
        self.index_writer
            .push_entry(IndexEntry::metadata_from(source_entry));' \
'        assert!(target.is_some());'

# ---- C02
M c02_heuristic_size_or C02 'C02.1b' 'heuristic: size compared with || instead of &&' src/backup.rs \
'        && basis_entry.mtime() == new_entry.mtime()
        && basis_entry.size() == new_entry.size()' \
'        && (basis_entry.mtime() == new_entry.mtime()
        || basis_entry.size() == new_entry.size())'
M c02_heuristic_same_side C02 'C02.1b' 'heuristic compares basis mtime with itself' src/backup.rs \
'        && basis_entry.mtime() == new_entry.mtime()' '        && basis_entry.mtime() == basis_entry.mtime()'
M c02_no_presence_check C02,C03,C14 'C02.1a|C03.3d|C14.2a' 'reuse of basis addresses without the presence check' src/backup.rs \
'                    .all(|addr| self.block_dir.contains(&addr.hash))' '                    .all(|addr| !addr.hash.to_string().is_empty())'
M c02_latest_complete_returns_open_band C02 'C02.2a' 'last_complete_band returns a band without testing the tail' src/archive.rs \
'            if b.is_closed().await? {
                return Ok(Some(b));
            }' \
'            let _closed = b.is_closed().await?;
            return Ok(Some(b));'
M c02_latest_closed_uses_last_band C02 'C02.2d' 'LatestClosed resolves to the newest band even if incomplete' src/archive.rs \
'            BandSelectionPolicy::LatestClosed => self
                .last_complete_band()
                .await?
                .map(|band| band.id())
                .ok_or(Error::NoCompleteBands),' \
'            BandSelectionPolicy::LatestClosed => {
                self.last_band_id().await?.ok_or(Error::NoCompleteBands)
            }'

# ---- C03
M c03_hunk_before_blocks C03 'C03.3c' 'flush_group writes the hunk before draining the combiner' src/backup.rs \
'        let (stats, mut entries) = self.file_combiner.drain(monitor.clone()).await?;
        trace!("Got {} entries to write from file combiner", entries.len());
        self.stats += stats;
        self.index_writer.append_entries(&mut entries);
        self.index_writer.finish_hunk().await?;' \
'        self.index_writer.finish_hunk().await?;
        let (stats, mut entries) = self.file_combiner.drain(monitor.clone()).await?;
        trace!("Got {} entries to write from file combiner", entries.len());
        self.stats += stats;
        self.index_writer.append_entries(&mut entries);'
M c03_tail_before_index_finish C03,C13 'C03.4b|C13.3a' 'the tail is written before the last hunk' src/backup.rs \
'        let hunks = self.index_writer.finish().await?;
        trace!(?hunks, "Closing band");
        self.band.close(hunks as u64).await?;' \
'        self.band.close(0).await?;
        let hunks = self.index_writer.finish().await?;
        trace!(?hunks, "Closing band");'
M c03_present_before_write C03,C04 'C03.5.store|C04.5' 'block recorded as present before the write' src/blockdir.rs \
'        self.transport.create_dir(subdir_relpath(&hex_hash)).await?;' \
'        self.exists.write().unwrap().insert(hash.clone());
        self.transport.create_dir(subdir_relpath(&hex_hash)).await?;'
M c03_empty_files_count_as_present C03,C10 'C03.5.list|C10.4b' 'zero-length block files count as present' src/blockdir.rs \
'                            if entry.len.is_none_or(|a| a == 0) {' '                            if entry.len.is_none() {'
M c03_sequence_before_write C03 'C03.6' 'hunk sequence advanced before the write' src/index/write.rs \
'        let compressed_bytes = self.compressor.compress(&json)?;
        self.transport' \
'        let compressed_bytes = self.compressor.compress(&json)?;
        self.sequence += 1;
        self.sequence -= 1;
        self.transport'
M c03_band_before_basis C03 'C03.2' 'new band created before the basis is chosen' src/backup.rs \
'    let basis_index = if let Some(basis_band_id) = archive.last_band_id().await? {' \
'    let band = Band::create(archive).await?;
    let basis_index = if let Some(basis_band_id) = archive.last_band_id().await? {' \
src/backup.rs '    let band = Band::create(archive).await?;
    let index_writer' '    let index_writer'
M c03_entry_queued_before_store C03 'C03.3d' 'large-file entry pushed before its blocks are stored' src/backup.rs \
'                let addrs = store_file_content(' \
'                self.index_writer.push_entry(IndexEntry {
                    addrs: vec![Address {
                        hash: BlockHash::hash_bytes(b"later"),
                        start: 0,
                        len: size,
                    }],
                    ..IndexEntry::metadata_from(source_entry)
                });
                let addrs = store_file_content('
M c03_write_after_tail C03 'C03.4f' 'something is written after the tail' src/backup.rs \
'        self.band.close(hunks as u64).await?;
        Ok(BackupStats { ..self.stats })' \
'        self.band.close(hunks as u64).await?;
        self.block_dir
            .store_or_deduplicate(bytes::Bytes::from_static(b"trailer"), &mut self.stats, monitor)
            .await?;
        Ok(BackupStats { ..self.stats })'

# ---- C04
M c04_hunk_error_swallowed C04 'C04.4a' 'a failed hunk write inside the loop is ignored' src/backup.rs \
'                writer.flush_group(monitor.clone()).await?;
                assert_eq!(writer.index_writer.pending_entries(), 0);' \
'                let _ = writer.flush_group(monitor.clone()).await;'
M c04_error_not_counted C04 'C04.3' 'contained entry failure not counted' src/backup.rs \
'                    monitor.error(err);
                    stats.errors += 1;
                    continue;' \
'                    monitor.error(err);
                    continue;'
M c04_entry_error_dropped C04 'C04.3' 'contained entry failure neither reported nor counted' src/backup.rs \
'                Err(err) => {
                    monitor.error(err);
                    stats.errors += 1;
                    continue;
                }' \
'                Err(_err) => {
                    continue;
                }'
M c04_store_error_ignored C04 'C04.4k|C04.2' 'store_or_deduplicate ignores a failed mkdir' src/blockdir.rs \
'        self.transport.create_dir(subdir_relpath(&hex_hash)).await?;' \
'        let _ = self.transport.create_dir(subdir_relpath(&hex_hash)).await;'

# ---- C05
M c05_no_recheck C05,C06 'C05.1d|C06.1e' 'gc deletes without re-checking the newest band' src/archive.rs \
'            gc_lock.check().await?;
' ''
M c05_difference_swapped C05 'C05.4a' 'deletes referenced minus present' src/archive.rs \
'        let unref = present.difference(&referenced).collect_vec();' '        let unref = referenced.difference(&present).collect_vec();'
M c05_dry_run_unguarded C05 'C05.3a' 'dry run deletes' src/archive.rs '        if !options.dry_run {
            gc_lock.check().await?;' '        if !options.dry_run || options.break_lock {
            gc_lock.check().await?;'
M c05_retain_inverted C05 'C05.4b' 'keeps the bands to delete' src/archive.rs \
'        keep_band_ids.retain(|b| !delete_band_ids.contains(b));' '        keep_band_ids.retain(|b| delete_band_ids.contains(b));'
M c05_blocks_before_bands C05 'C05.2' 'blocks removed before bands' src/archive.rs \
'            for band_id in delete_band_ids.iter() {
                Band::delete(self, *band_id).await?;
                stats.deleted_band_count += 1;
                task.increment(1);
            }

            let task = monitor.start_task("Delete blocks".to_string());
            task.set_total(unref_count);
            let mut error_count = 0;
            for block_hash in unref {
                // TODO: Parallelize
                task.increment(1);
                error_count += block_dir.delete_block(block_hash).await.is_err() as usize;
            }' \
'            let mut error_count = 0;
            for block_hash in unref {
                // TODO: Parallelize
                task.increment(1);
                error_count += block_dir.delete_block(block_hash).await.is_err() as usize;
            }
            for band_id in delete_band_ids.iter() {
                Band::delete(self, *band_id).await?;
                stats.deleted_band_count += 1;
                task.increment(1);
            }'
M c05_backup_removes C05 'C05.5' 'backup removes an old lock file' src/backup.rs \
'    let source_tree = SourceTree::open(source_path)?;' \
'    let source_tree = SourceTree::open(source_path)?;
    let _ = archive.transport().remove_file("STALE").await;'
M c05_refs_read_error_logged_only C05 'C05.6' 'referenced_blocks skips a band that cannot be opened' src/archive.rs \
'            let band = Band::open(&archive, *band_id).await?;
            let mut index = band.index();' \
'            let Ok(band) = Band::open(&archive, *band_id).await else {
                continue;
            };
            let mut index = band.index();'

# ---- C06
M c06_lock_error_means_unlocked C06 'C06.1b' 'an error probing GC_LOCK counts as not locked' src/gc_lock.rs \
'        if archive.transport().is_file(GC_LOCK).await.unwrap_or(true) {' '        if archive.transport().is_file(GC_LOCK).await.unwrap_or(false) {'
M c06_backup_ignores_lock C06 'C06.2' 'backup does not check the gc lock' src/backup.rs \
'    if gc_lock::GarbageCollectionLock::is_locked(archive).await? {
        return Err(Error::GarbageCollectionLockHeld);
    }' \
'    let _locked = gc_lock::GarbageCollectionLock::is_locked(archive).await?;'
M c06_check_always_ok C06 'C06.1d' 'lock check ignores a new band' src/gc_lock.rs \
'        if self.band_id == current_last_band_id {
            Ok(())
        } else {
            Err(Error::GarbageCollectionLockHeldDuringBackup)
        }' \
'        let _ = current_last_band_id;
        Ok(())'
M c06_lock_before_closed_test C06 'C06.1a' 'gc lock written although the newest band is incomplete' src/gc_lock.rs \
'            if !archive.band_is_closed(band_id).await? {
                return Err(Error::DeleteWithIncompleteBackup { band_id });
            }' \
'            let _closed = archive.band_is_closed(band_id).await?;'

# ---- C07
M c07_overwrite_mode C07 'C07.1' 'write_json overwrites' src/jsonio.rs \
'        .write(relpath, s.as_bytes(), WriteMode::CreateNew)' '        .write(relpath, s.as_bytes(), WriteMode::Overwrite)'
M c07_sftp_truncate C07 'C07.2.sftp' 'sftp CreateNew uses TRUNCATE' src/transport/sftp.rs \
'            WriteMode::CreateNew => ssh2::OpenFlags::EXCLUSIVE,' '            WriteMode::CreateNew => ssh2::OpenFlags::TRUNCATE,'
M c07_s3_no_if_none_match C07 'C07.2.s3' 's3 CreateNew without If-None-Match' src/transport/s3.rs \
'        if write_mode == WriteMode::CreateNew {
            request = request.if_none_match("*");
        }' \
'        let _ = write_mode;'
M c07_always_write_block C07,C14 'C07.5|C14.1a' 'block written even if present' src/blockdir.rs \
'        if self.contains(&hash) {
            stats.deduplicated_blocks += 1;' \
'        if self.contains(&hash) && uncomp_len == 0 {
            stats.deduplicated_blocks += 1;'
M c07_band_id_not_incremented C07 'C07.3' 'new band reuses the newest id' src/band.rs \
'            .map_or_else(BandId::zero, |b| b.next_sibling());' '            .map_or_else(BandId::zero, |b| b);'
M c07_sequence_skips C07 'C07.4' 'hunk sequence advances by two' src/index/write.rs \
'        self.sequence += 1;
        Ok(())' '        self.sequence += 2;
        Ok(())'
M c07_transport_forces_overwrite C07 'C07.1c' 'Transport::write ignores its mode parameter' src/transport.rs \
'        self.protocol.write(relpath, content, mode).await' \
'        let _ = mode;
        self.protocol.write(relpath, content, WriteMode::Overwrite).await'
M c07_local_cleanup_before_open C07 'C07.6|C07.2.local' 'local write removes the target before creating it' src/transport/local.rs \
'        let mut file = match options.open(&full_path).await {' \
'        let _ = tokio::fs::remove_file(&full_path).await;
        let mut file = match options.open(&full_path).await {'

# ---- C08
M c08_closed_band_continues C08 'C08.2' 'stitching continues past a complete band' src/index/stitch.rs \
'                    if self.archive.band_is_closed(*band_id).await.unwrap_or(false) {' \
'                    if !self.archive.band_is_closed(*band_id).await.unwrap_or(true) {'
M c08_no_advance C08 'C08.5a' 'older band not advanced past last_apath' src/index/stitch.rs \
'                            if let Some(last) = &self.last_apath {
                                index_hunks = index_hunks.advance_to_after(last)
                            }' \
'                            let _ = &self.last_apath;'
M c08_previous_band_unchecked C08 'C08.3b' 'previous band returned without checking it exists' src/index/stitch.rs \
'            if archive.band_exists(band_id).await.unwrap_or(false) {
                return Some(band_id);
            }' \
'            let _ = archive.band_exists(band_id).await;
            return Some(band_id);'
M c08_last_apath_not_updated C08 'C08.5b' 'resume point never recorded' src/index/stitch.rs \
'                        if let Some(last_apath) = hunk.last().map(|entry| entry.apath.clone()) {
                            self.last_apath = Some(last_apath);
                        }' \
'                        let _ = hunk.last().map(|entry| entry.apath.clone());'
M c08_stitch_same_band_again C08 'C08.3a' 'AfterBand re-reads the same band' src/index/stitch.rs \
'                        State::BeforeBand(prev_band_id)' \
'                        let _ = prev_band_id;
                        State::BeforeBand(*band_id)'
M c08_previous_not_decrementing C08 'C08.4a' 'BandId::previous does not decrease' src/bandid.rs \
'            Some(BandId(self.0 - 1))' '            Some(BandId(self.0))'

# ---- C09
M c09_quick_missing_block_silent C09 'C09.3e' 'quick validate ignores missing blocks' src/archive.rs \
'                if !present_blocks.contains(hash) {
                    monitor.error(Error::BlockMissing { hash: hash.clone() })
                }' \
'                let _ = present_blocks.contains(hash);'
M c09_no_hash_check C09 'C09.3c' 'full validate does not compare the hash' src/blockdir.rs \
'    let actual_hash = BlockHash::hash_bytes(&decompressed_bytes);
    if actual_hash != hash {
        return Err(Error::BlockCorrupt { hash });
    }
    monitor.count(Counter::BlockReads, 1);' \
'    monitor.count(Counter::BlockReads, 1);'
M c09_band_open_error_silent C09 'C09.3a|C09.1' 'validate skips an unopenable band silently' src/validate.rs \
'            Ok(band) => band,
            Err(err) => {
                monitor.error(err);
                continue '"'"'band;
            }
        };
        if let Err(err) = band.validate' \
'            Ok(band) => band,
            Err(_err) => {
                continue '"'"'band;
            }
        };
        if let Err(err) = band.validate'
M c09_short_block_silent C09 'C09.3f' 'referenced range beyond the block not reported' src/archive.rs \
'                    if referenced_len > actual_len as u64 {
                        monitor.error(Error::BlockTooShort {
                            hash: hash.clone(),
                            actual_len,
                            referenced_len: referenced_len as usize,
                        });
                    }' \
'                    let _ = (referenced_len, actual_len);'
M c09_stitch_uses_swallowing_next C09,C10 'C09.1|C10.3' 'stitcher goes back to the error-swallowing iterator' src/index/stitch.rs \
'                    } else if let Some(hunk) = index_hunks.try_next().await {
                        let hunk = match hunk {
                            Ok(hunk) => hunk,
                            Err(err) => {
                                // The entries of this hunk are lost: say so, and carry on
                                // with whatever else can be read.
                                self.monitor.error(err);
                                continue;
                            }
                        };' \
'                    } else if let Some(hunk) = index_hunks.next().await {'

# ---- C10
M c10_read_address_unchecked C10 'C10.3f' 'read_address slices without the length check' src/blockdir.rs \
'        if end > actual_len {
            return Err(Error::BlockTooShort {
                hash: address.hash.clone(),
                actual_len,
                referenced_len: len,
            });
        }
        Ok(bytes.slice(start..end))' \
'        let _ = actual_len;
        Ok(bytes.slice(start..end))'
M c10_get_info_unwrap C10 'C10.1' 'get_info unwraps the decoded start time' src/band.rs \
'        let start_time =
            Timestamp::from_second(self.head.start_time).map_err(|_| Error::InvalidMetadata {
                details: format!("Invalid band start timestamp {:?}", self.head.start_time),
            })?;' \
'        let start_time = Timestamp::from_second(self.head.start_time).unwrap();'
M c10_restore_file_error_silent C10 'C10.3c' 'a failed file restore is not reported' src/restore.rs \
'                if let Err(err) =
                    restore_file(path.clone(), &entry, &block_dir, monitor.clone()).await
                {
                    monitor.error(err);
                    continue;
                }' \
'                if let Err(_err) =
                    restore_file(path.clone(), &entry, &block_dir, monitor.clone()).await
                {
                    continue;
                }'
M c10_list_error_expect C04 'C04.2' 'index listing error panics again' src/index/mod.rs \
'        let (hunks, list_error) = match self.hunks_available().await {
            Ok(hunks) => (hunks, None),
            Err(err) => (Vec::new(), Some(err)),
        };' \
'        let hunks = self.hunks_available().await.expect("hunks available");
        let list_error = None;'
M c10_index_by_decoded_len C10 'C10.1' 'a decoded length indexes a buffer' src/blockdir.rs \
'        let end = start.saturating_add(len);' \
'        let end = start.saturating_add(len);
        let _probe = bytes[len];'
M c10_version_unparseable_supported C10 'C10.2b' 'unparseable band version counts as supported' src/band.rs \
'        .unwrap_or(false)' '        .unwrap_or(true)'
M c10_block_hash_unverified C10,C03 'C10.3e|C03.5.read' 'block content returned without verifying the hash' src/blockdir.rs \
'        if actual_hash != *hash {
            return Err(Error::BlockCorrupt { hash: hash.clone() });
        }
        self.cache' \
'        let _ = actual_hash;
        self.cache'

# ---- C11
M c11_hunk_unsorted C11 'C11.2a' 'hunk not sorted' src/index/write.rs \
'        self.entries.sort_unstable_by(|a, b| {
            debug_assert!(a.apath != b.apath);
            a.apath.cmp(&b.apath)
        });' ''
M c11_hunk_sorted_descending C11 'C11.2a' 'hunk sorted descending' src/index/write.rs \
'            a.apath.cmp(&b.apath)
        });' '            b.apath.cmp(&a.apath)
        });'
M c11_subdirs_unsorted C11 'C11.2b' 'subdirectories queued unsorted' src/source.rs \
'            subdir_apaths.sort_unstable();
' ''
M c11_merge_string_order C11,C18 'C11.1c|C18.3a' 'merge compares apaths as strings' src/merge.rs \
'            (Some(a), Some(b)) => match a.apath().cmp(b.apath()) {' \
'            (Some(a), Some(b)) => match a.apath().to_string().cmp(&b.apath().to_string()) {'
M c11_from_str_unvalidated C11 'C11.3' 'From<&str> does not validate' src/apath.rs \
'        assert!(Apath::is_valid(s), "invalid apath: {s:?}");
        Apath(s.to_string())' '        Apath(s.to_string())'
M c11_children_unsorted C11 'C11.2b' 'children queued unsorted' src/source.rs \
'        children.sort_unstable_by(|a, b| a.0.cmp(&b.0));
' ''
M c11_hunk_sorted_by_string C11 'C11.2a|C11.1' 'hunk sorted by plain string order' src/index/write.rs \
'            a.apath.cmp(&b.apath)
        });' '            a.apath.to_string().cmp(&b.apath.to_string())
        });'

# ---- C12
M c12_prefix_operands_swapped C12 'C12.2' 'is_prefix_of operands swapped' src/index/stitch.rs \
'                        if !self.subtree.is_prefix_of(&entry.apath)' '                        if !entry.apath.is_prefix_of(&self.subtree)'
M c12_restore_ignores_subtree C12 'C12.3a' 'restore ignores only_subtree' src/restore.rs \
'        options.only_subtree.clone().unwrap_or_else(Apath::root),' '        Apath::root(),'
M c12_stored_tree_drops_subtree C12 'C12.3c' 'StoredTree::iter_entries always lists from the root' src/stored_tree.rs \
'        Stitch::new(&self.archive, self.band.id(), subtree, exclude, monitor)' \
'        let _ = subtree;
        Stitch::new(&self.archive, self.band.id(), Apath::root(), exclude, monitor)'
M c12_no_subtree_filter C12 'C12.2' 'subtree filter removed from the stitcher' src/index/stitch.rs \
'                        if !self.subtree.is_prefix_of(&entry.apath)
                            || self.exclude.matches(&entry.apath)' \
'                        if self.exclude.matches(&entry.apath)'

# ---- C13
M c13_hunks_per_subdir C13 'C13.1a' 'HUNKS_PER_SUBDIR changed' src/index/mod.rs 'pub const HUNKS_PER_SUBDIR: u32 = 10_000;' 'pub const HUNKS_PER_SUBDIR: u32 = 1_000;'
M c13_tail_count_plus_one C13 'C13.3a' 'tail count off by one' src/backup.rs '        self.band.close(hunks as u64).await?;' '        self.band.close(hunks as u64 + 1).await?;'
M c13_address_start_one C13 'C13.5a' 'whole-block address starts at 1' src/backup.rs \
'            hash,
            start: 0,
            len,' '            hash,
            start: 1,
            len,'
M c13_hunk_name_width C13 'C13.1e' 'hunk file name padded to 8' src/index/mod.rs \
'    format!("{:05}/{:09}", hunk_number / HUNKS_PER_SUBDIR, hunk_number)' '    format!("{:05}/{:08}", hunk_number / HUNKS_PER_SUBDIR, hunk_number)'
M c13_start_after_append C13 'C13.5b' 'combined-file start taken after the append' src/backup.rs \
'        self.buf.resize(start + expected_len, 0);' \
'        self.buf.resize(start + expected_len, 0);
        let start = self.buf.len() - expected_len + 1 - 1;
        let start = if start > 0 { self.buf.len() } else { start };'
M c13_block_named_by_compressed C13 'C13.4' 'block named by the hash of the compressed bytes' src/blockdir.rs \
'        let relpath = block_relpath(&hash);' '        let relpath = block_relpath(&BlockHash::hash_bytes(&compressed));'
M c13_empty_hunk_written C13 'C13.2' 'empty hunks are written' src/index/write.rs \
'        if self.entries.is_empty() {
            // TODO: Maybe assert that it'"'"'s not empty?
            return Ok(());
        }' ''
M c13_hunks_written_double C13 'C13.3c' 'hunks_written counts twice' src/index/write.rs '        self.hunks_written += 1;' '        self.hunks_written += 2;'
M c13_dir_with_addrs C13 'C13.6' 'directories get addresses' src/backup.rs \
'        self.index_writer
            .push_entry(IndexEntry::metadata_from(source_entry));
        Ok(None) // TODO: Emit the actual change.' \
'        self.index_writer.push_entry(IndexEntry {
            addrs: vec![Address {
                hash: BlockHash::hash_bytes(b""),
                start: 0,
                len: 0,
            }],
            ..IndexEntry::metadata_from(source_entry)
        });
        Ok(None) // TODO: Emit the actual change.'

# ---- C14
M c14_open_on_unchanged_path C14 'C14.2b' 'unchanged files are opened' src/backup.rs \
'                    self.stats.unmodified_files += 1;
                    let new_entry' \
'                    self.stats.unmodified_files += 1;
                    let _probe = source_tree.open_file(&source_entry.apath)?;
                    let new_entry'
M c14_basis_last_complete C14,C03 'C14.3|C03.2' 'basis is the last complete band' src/backup.rs \
'    let basis_index = if let Some(basis_band_id) = archive.last_band_id().await? {' \
'    let basis_index = if let Some(basis_band_id) = archive.last_complete_band().await?.map(|b| b.id()) {'
M c14_present_set_not_listed C14,C03 'C14.1c|C03.5.open' 'present set starts empty' src/blockdir.rs \
'        let exists = list_blocks(&transport).await?;' \
'        let _listed = list_blocks(&transport).await?;
        let exists = HashSet::new();'
M c14_unchanged_path_stores_again C14 'C14.2b' 'unchanged path falls through to storing' src/backup.rs \
'                    self.index_writer.push_entry(new_entry);
                    return Ok(Some(change));' \
'                    let _ = new_entry;
                    Some(change)'

# ---- C15
M c15_no_subtree_glob C15 'C15.2' 'children of a matching path are not excluded' src/excludes.rs \
'    gsb.add(
        GlobBuilder::new(&format!("{pattern}/**"))
            .literal_separator(true)
            .build()
            .map_err(|source| Error::ParseGlob { source })?,
    );' ''
M c15_second_glob_no_separator C15 'C15.2' 'second glob without literal_separator' src/excludes.rs \
'        GlobBuilder::new(&format!("{pattern}/**"))
            .literal_separator(true)' '        GlobBuilder::new(&format!("{pattern}/**"))
            .literal_separator(false)'
M c15_restore_no_exclude C15 'C15.4c' 'restore ignores the exclusions' src/restore.rs \
'        options.exclude.clone(),
        monitor.clone(),
    );
    let mut deferrals' '        Exclude::nothing(),
        monitor.clone(),
    );
    let mut deferrals'
M c15_prune_after_queue C15 'C15.3' 'subdirectory queued before the exclusion test' src/source.rs \
'            let child_apath = parent_apath.append(child_name);

            if self.exclude.matches(&child_apath) {' \
'            let child_apath = parent_apath.append(child_name);
            if dir_entry.file_type().map(|t| t.is_dir()).unwrap_or(false) {
                subdir_apaths.push(child_apath.clone());
            }

            if self.exclude.matches(&child_apath) {'
M c15_walk_matches_name_only C15 'C15.1a' 'walk matches the bare name' src/source.rs \
'            if self.exclude.matches(&child_apath) {' '            if self.exclude.matches(&Apath::root().append(child_name)) {'
M c15_anchoring_inverted C15 'C15.2' 'anchored patterns get the **/ prefix' src/excludes.rs \
"    let pattern: Cow<str> = if pattern.starts_with('/') {" "    let pattern: Cow<str> = if !pattern.starts_with('/') {"
M c15_basis_filtered C15 'C15.4a' 'basis read with the exclusions' src/backup.rs \
'            Apath::root(),
            Exclude::nothing(),
            monitor.clone(),
        )
    } else {' '            Apath::root(),
            options.exclude.clone(),
            monitor.clone(),
        )
    } else {'

# ---- C16
M c16_no_emptiness_check C16 'C16.2' 'restore into a non-empty directory' src/restore.rs \
'    if !options.overwrite && !directory_is_empty(destination)? {
        return Err(Error::DestinationNotEmpty);
    }' \
'    let _empty = directory_is_empty(destination)?;'
M c16_chmod_symlink C16 'C16.1a' 'chmod on a restored symlink' src/restore.rs \
'        let mtime = entry.mtime().to_file_time();
        if let Err(source) = set_symlink_file_times' \
'        let _ = entry.unix_mode().set_permissions(path);
        let mtime = entry.mtime().to_file_time();
        if let Err(source) = set_symlink_file_times'
M c16_chown_follows C16 'C16.1b|C16.1a' 'set_owner follows symlinks' src/owner/unix.rs \
'use std::os::unix::fs::{MetadataExt, lchown};' 'use std::os::unix::fs::{MetadataExt, chown as lchown};'
M c16_symlink_utime_follows C16,C01 'C16.1a|C01.3b' 'symlink mtime set with a following call' src/restore.rs \
'        if let Err(source) = set_symlink_file_times(path, mtime, mtime) {' '        if let Err(source) = filetime::set_file_times(path, mtime, mtime) {'
M c16_path_not_joined C16 'C16.3a' 'restored path is the raw apath' src/restore.rs \
'        let path = destination.join(&entry.apath[1..]);' '        let path = std::path::PathBuf::from(&entry.apath[..]);'
M c16_restore_before_check C16 'C16.2' 'restore creates a marker before the emptiness check' src/restore.rs \
'    ensure_dir_exists(destination)?;
    if !options.overwrite' \
'    ensure_dir_exists(destination)?;
    std::fs::write(destination.join(".restoring"), b"")?;
    if !options.overwrite'

# ---- C17
M c17_entry_time_now C17 'C17.1a' 'index entries carry the current time' src/index/entry.rs \
'            mtime,
            mtime_nanos,' '            mtime: mtime + (jiff::Timestamp::now().as_second() & 1),
            mtime_nanos,'
M c17_unordered_iteration_in_backup C17 'C17.2' 'backup iterates a HashSet' src/backup.rs \
'    let block_dir = archive.block_dir().await?;
    let mut writer' \
'    let block_dir = archive.block_dir().await?;
    for h in block_dir.blocks().iter() {
        trace!(?h);
    }
    let mut writer'
M c17_spawned_writer C17 'C17.3' 'a block is written from a spawned task' src/backup.rs \
'    let block_dir = archive.block_dir().await?;
    let mut writer' \
'    let block_dir = archive.block_dir().await?;
    {
        let t = archive.transport().clone();
        tokio::spawn(async move {
            let _ = t
                .write("NOTE", b"x", transport::WriteMode::CreateNew)
                .await;
        });
    }
    let mut writer'
M c17_head_pid C17 'C17.1a' 'band head carries the process id' src/band.rs \
'            Some("0.6.3".to_owned())' '            Some(format!("0.6.{}", 3 + std::process::id() % 1))'

# ---- C18
M c18_diff_ignores_mode C18 'C18.1' 'diff ignores mode changes' src/change.rs \
'            || a.unix_mode() != b.unix_mode()
' ''
M c18_entry_change_swapped C18 'C18.2' 'left/right arms swapped' src/merge.rs \
'            MatchedEntries::Left(ae) => EntryChange::deleted(ae),
            MatchedEntries::Right(be) => EntryChange::added(be),' \
'            MatchedEntries::Left(ae) => EntryChange::added(ae),
            MatchedEntries::Right(be) => EntryChange::deleted(be),'
M c18_merge_less_is_right C18 'C18.3b' 'Less yields Right' src/merge.rs \
'                Ordering::Less => Some(MatchedEntries::Left(self.next_a.take().unwrap())),
                Ordering::Greater => Some(MatchedEntries::Right(self.next_b.take().unwrap())),' \
'                Ordering::Greater => Some(MatchedEntries::Left(self.next_a.take().unwrap())),
                Ordering::Less => Some(MatchedEntries::Right(self.next_b.take().unwrap())),'
M c18_diff_returns_unchanged C18 'C18.4' 'diff returns unchanged entries' src/diff.rs \
'            if self.options.include_unchanged || !ec.change.is_unchanged() {' '            if self.options.include_unchanged || !ec.change.is_changed() {'
M c18_diff_file_ignores_mtime C18 'C18.1' 'diff ignores mtime for files' src/change.rs \
'(a.size() != b.size() || a.mtime() != b.mtime())' '(a.size() != b.size())'
M c18_changed_swapped C18 'C18.1b' 'changed(old,new) operands swapped' src/change.rs \
'            EntryChange::changed(a, b)
        } else {' '            EntryChange::changed(b, a)
        } else {'
M c18_copy_file_added_with_basis C18 'C18.5b' 'new file reported as changed' src/backup.rs \
'            trace!("New file");
            Some(EntryChange::added(source_entry))' \
'            trace!("New file");
            let r = IndexEntry::metadata_from(source_entry);
            Some(EntryChange::changed(&r, source_entry))'

# ---- rules added after the seeded changes
M c01_restore_addrs_reversed C01 'C01.7' 'restore writes the blocks of a file in reverse order' src/restore.rs \
'    for addr in &source_entry.addrs {' '    for addr in source_entry.addrs.iter().rev() {'
M c01_store_drops_second_block C01 'C01.8' 'store_file_content records only blocks that are full' src/backup.rs \
'        addresses.push(Address {
            hash,
            start: 0,
            len,
        });' \
'        if len as usize == max_block_size || addresses.is_empty() {
            addresses.push(Address {
                hash,
                start: 0,
                len,
            });
        }'
M c01_finished_overwritten C01 'C01.6b' 'finished assigned instead of extended' src/backup.rs \
'        self.finished
            .extend(queue.into_iter().map(|qf| IndexEntry {' \
'        self.finished = Vec::from_iter(queue.into_iter().map(|qf| IndexEntry {'
M c02_cache_before_verify C02 'C02.3' 'block content cached before its hash is verified' src/blockdir.rs \
'        let actual_hash = BlockHash::hash_bytes(&decompressed_bytes);
        if actual_hash != *hash {
            return Err(Error::BlockCorrupt { hash: hash.clone() });
        }
        self.cache
            .write()
            .expect("Lock cache")
            .put(hash.clone(), decompressed_bytes.clone());' \
'        self.cache
            .write()
            .expect("Lock cache")
            .put(hash.clone(), decompressed_bytes.clone());
        let actual_hash = BlockHash::hash_bytes(&decompressed_bytes);
        if actual_hash != *hash {
            return Err(Error::BlockCorrupt { hash: hash.clone() });
        }'
M c05_refs_first_address_only C05 'C05.4c' 'only the first address of each entry counts as referenced' src/archive.rs \
'                for addr in hunk.into_iter().flat_map(|entry| entry.addrs) {' \
'                for addr in hunk.into_iter().flat_map(|entry| entry.addrs.into_iter().take(1)) {'
M c05_release_before_block_deletion C05,C06 'C05.7c|C06.1g' 'gc lock released before the blocks are deleted' src/archive.rs \
'            let task = monitor.start_task("Delete blocks".to_string());
            task.set_total(unref_count);
            let mut error_count = 0;
            for block_hash in unref {
                // TODO: Parallelize
                task.increment(1);
                error_count += block_dir.delete_block(block_hash).await.is_err() as usize;
            }
            stats.deletion_errors += error_count;
            stats.deleted_block_count += unref_count - error_count;
        }
        gc_lock.release().await?;' \
'        }
        gc_lock.release().await?;
        if !options.dry_run {
            let task = monitor.start_task("Delete blocks".to_string());
            task.set_total(unref_count);
            let mut error_count = 0;
            for block_hash in unref {
                // TODO: Parallelize
                task.increment(1);
                error_count += block_dir.delete_block(block_hash).await.is_err() as usize;
            }
            stats.deletion_errors += error_count;
            stats.deleted_block_count += unref_count - error_count;
        }'
M c07_block_cleanup_remove C07 'C07.6b|C07.6c' 'failed block write cleans up with remove_file' src/blockdir.rs \
'                warn!(?err, ?hash, "Error writing block");
                return Err(err.into());' \
'                warn!(?err, ?hash, "Error writing block");
                let _ = self.transport.remove_file(&relpath).await;
                return Err(err.into());'
M c10_alloc_by_decoded_size C10 'alloc' 'buffer pre-allocated from decoded sizes' src/restore.rs \
'    for addr in &source_entry.addrs {' \
'    let mut _scratch: Vec<u8> = Vec::with_capacity(source_entry.size().unwrap_or_default() as usize);
    for addr in &source_entry.addrs {'
M c11_cmp_flat_dir C11 'C11.1d' 'comparator compares the directory part as one string' src/apath.rs \
'        let Apath(a) = self;
        let Apath(b) = b;' \
'        let Apath(a) = self;
        let Apath(b) = b;
        if let (Some((ad, at)), Some((bd, bt))) = (a.rsplit_once('"'"'/'"'"'), b.rsplit_once('"'"'/'"'"')) {
            if ad != bd && ad.len() == bd.len() {
                return ad.cmp(bd).then_with(|| at.cmp(bt));
            }
        }'
M c12_stitch_extra_skip C12,C15 'C12.2b|C15.1d' 'stitcher skips entries by a textual test' src/index/stitch.rs \
'                        if !self.subtree.is_prefix_of(&entry.apath)' \
'                        if entry.apath.ends_with("~") {
                            continue;
                        }
                        if !self.subtree.is_prefix_of(&entry.apath)'
M c14_reuse_extra_condition C14 'C14.2d' 'reuse additionally requires a small entry' src/backup.rs \
'                    .all(|addr| self.block_dir.contains(&addr.hash))' \
'                    .all(|addr| self.block_dir.contains(&addr.hash) && addr.len < (1 << 40))'
# ---- round 2 additions
M c08_whole_hunk_ge C08 'C08.8' 'whole hunk returned when first >= after (resume path listed twice)' src/index/mod.rs \
'                    if first.apath > *after {' '                    if first.apath >= *after {'
M c08_skip_on_first C08 'C08.8' 'hunk skipped when its FIRST entry is <= after (straddling hunk lost)' src/index/mod.rs \
'                if let Some(last) = entries.last() {
                    if last.apath <= *after {' \
'                if let Some(last) = entries.first() {
                    if last.apath <= *after {'
M c08_whole_on_last C08 'C08.8' 'whole hunk returned when its LAST entry is > after' src/index/mod.rs \
'                if let Some(first) = entries.first() {
                    if first.apath > *after {' \
'                if let Some(first) = entries.last() {
                    if first.apath > *after {'
M c17_flush_on_elapsed C17 'C17.1c' 'backup flushes when wall-clock time has elapsed' src/backup.rs \
'            if writer.index_writer.pending_entries() + writer.file_combiner.queue.len()
                >= options.max_entries_per_hunk
            {' \
'            if writer.index_writer.pending_entries() + writer.file_combiner.queue.len()
                >= options.max_entries_per_hunk
                || start.elapsed() > Duration::from_secs(30)
            {'
M c17_branch_on_pid C17 'C17.1c' 'hunk size depends on the process id' src/backup.rs \
'            if writer.index_writer.pending_entries() + writer.file_combiner.queue.len()
                >= options.max_entries_per_hunk
            {' \
'            if writer.index_writer.pending_entries() + writer.file_combiner.queue.len()
                >= options.max_entries_per_hunk + (std::process::id() as usize % 2)
            {'
M c15_child_glob_conditional C15 'C15.2' 'the /** glob is added only for patterns not ending in *' src/excludes.rs \
'    gsb.add(
        GlobBuilder::new(&format!("{pattern}/**"))
            .literal_separator(true)
            .build()
            .map_err(|source| Error::ParseGlob { source })?,
    );' \
'    if !pattern.ends_with('"'"'*'"'"') {
        gsb.add(
            GlobBuilder::new(&format!("{pattern}/**"))
                .literal_separator(true)
                .build()
                .map_err(|source| Error::ParseGlob { source })?,
        );
    }'
M c13_flush_between_start_and_append C13 'C13.5b' 'push_file flushes a full buffer after taking start' src/backup.rs \
'        self.buf.resize(start + expected_len, 0);' \
'        if !self.queue.is_empty() && start + expected_len > self.max_block_size {
            self.flush(monitor.clone()).await?;
        }
        let start2 = self.buf.len();
        self.buf.resize(start2 + expected_len, 0);' \
src/backup.rs \
'                .read(&mut self.buf[start..])' \
'                .read(&mut self.buf[start2..])' \
src/backup.rs \
'        self.buf.truncate(start + len);' \
'        self.buf.truncate(start2 + len);'
M c14_merge_string_order C14 'C14.4a' 'merge pairs basis and source by string order' src/merge.rs \
'a.apath().cmp(b.apath())' 'a.apath().to_string().cmp(&b.apath().to_string())'
M c01_nanos_borrow_on_seconds_sign C01 'C01.4' 'borrow decided by the sign of the seconds, not of the fraction' src/unix_time.rs \
'    if nanos < 0 {' '    if seconds < 0 && nanos != 0 {'
M c01_nanos_fix_without_borrow C01 'C01.4b' 'fraction corrected without borrowing a second' src/unix_time.rs \
'        seconds -= 1;
        nanos += 1_000_000_000;' \
'        nanos += 1_000_000_000;'
M c05_refs_by_recorded_count C05 'C05.4c' 'referenced_blocks walks the recorded hunk count' src/archive.rs \
'            for hunk_number in index.hunks_available().await? {' \
'            let hunk_count = band.get_info().await?.index_hunk_count.unwrap_or_default();
            for hunk_number in 0..hunk_count as u32 {'
# ---- round 3 additions
M c07_complete_short_leftover C07 'C07.2.local' 'leftover completion widened to any shorter file' src/transport/local.rs \
'        .is_ok_and(|m| m.is_file() && m.len() == 0)' \
'        .is_ok_and(|m| m.is_file() && m.len() < 16)'
M c09_hunks_skip_empty C09,C10 'C09.3j|C10.3h' 'zero-length hunk files are hidden from the listing' src/index/mod.rs \
'                    .filter(|entry| entry.is_file())
                    .filter_map(|entry| entry.name.parse::<u32>().ok())' \
'                    .filter(|entry| entry.is_file() && entry.len != Some(0))
                    .filter_map(|entry| entry.name.parse::<u32>().ok())'
M c10_validate_asserts_order C10 'C10.1' 'validate asserts apath order on decoded entries' src/validate.rs \
'    while let Some(entry) = stitch.next().await {
        if entry.kind() == Kind::File {' \
'    let mut check_order = apath::CheckOrder::new();
    while let Some(entry) = stitch.next().await {
        check_order.check(entry.apath());
        if entry.kind() == Kind::File {'
M c11_is_valid_forgets_dotdot C11 'C11.3b' 'is_valid no longer rejects ..' src/apath.rs \
'            if part.is_empty() || part == "." || part == ".." || part.contains('"'"'\0'"'"') {' \
'            if part.is_empty() || part == "." || part.contains('"'"'\0'"'"') {'
M c08_retain_before_last C08 'C08.5b' 'hunk filtered before last_apath is recorded' src/index/stitch.rs \
'                        if let Some(last_apath) = hunk.last().map(|entry| entry.apath.clone()) {' \
'                        let mut hunk = hunk;
                        hunk.retain(|entry| self.subtree.is_prefix_of(&entry.apath));
                        if let Some(last_apath) = hunk.last().map(|entry| entry.apath.clone()) {'
M c16_empty_ignores_dangling C16 'C16.2d' 'directory_is_empty skips entries that do not exist when followed' src/io.rs \
'    Ok(std::fs::read_dir(path)?.next().is_none())' \
'    for entry in std::fs::read_dir(path)? {
        if entry?.path().exists() {
            return Ok(false);
        }
    }
    Ok(true)'
M c14_heuristic_compares_mode C14 'C14.2e' 'unchanged test also compares the mode' src/backup.rs \
'    basis_entry.kind() == new_entry.kind()' \
'    basis_entry.unix_mode() == new_entry.unix_mode()
        && basis_entry.kind() == new_entry.kind()'
M c13_subdir_only_first C13 'C13.2d' 'index subdirectory created only for hunk 0' src/index/write.rs \
'        if (self.sequence % HUNKS_PER_SUBDIR) == 0 {' '        if self.sequence == 0 {'
M c13_sequence_skips C13 'C13.2c' 'sequence advances by two' src/index/write.rs \
'        self.sequence += 1;' '        self.sequence += 2;'
M c13_subdir_from_written C13 'C13.2d' 'subdirectory computed from hunks_written' src/index/write.rs \
'                .create_dir(&subdir_relpath(self.sequence))' '                .create_dir(&subdir_relpath(self.hunks_written as u32))'
# ---- round 4 additions
M c08_after_taken C08 'C08.9' 'resume point taken and not restored when a hunk is skipped' src/index/mod.rs \
'            if let Some(ref after) = self.after {
                if let Some(last) = entries.last() {
                    if last.apath <= *after {
                        continue;
                    }
                }' \
'            if let Some(ref after) = self.after.take() {
                if let Some(last) = entries.last() {
                    if last.apath <= *after {
                        continue;
                    }
                }
                self.after = Some(after.clone());'
M c09_count_vs_last C09 'C09.2b' 'hunk count compared with the last hunk number only' src/validate.rs \
'                            if !hunks.iter().copied().map(u64::from).eq(0..expected) {' \
'                            if hunks.last().copied().map(u64::from).map_or(0, |l| l + 1) != expected {'
M c10_band_left_on_error C08,C10 'C08.1b|C10.3i' 'the stitcher leaves the band at the first unreadable hunk' src/index/stitch.rs \
'                                self.monitor.error(err);
                                continue;
                            }
                        };
                        if let Some(last_apath)' \
'                                self.monitor.error(err);
                                self.state = State::AfterBand(*band_id);
                                continue;
                            }
                        };
                        if let Some(last_apath)'
M c12_prefix_trim_matches C12 'C12.1c' 'is_prefix_of strips the prefix with trim_start_matches' src/apath.rs \
'                a.0.starts_with(&self.0)
                    && (self.0.ends_with('"'"'/'"'"') || a.0.as_bytes()[len] == b'"'"'/'"'"')' \
'                a.0.starts_with(&self.0)
                    && (self.0.ends_with('"'"'/'"'"') || a.0.trim_start_matches(self.0.as_str()).starts_with('"'"'/'"'"'))'
