#!/usr/bin/env python3
"""Create a selftest patch: mk.py <kind> <name> <props> <expect-regex> <desc> <file> <old> <new> [<file> <old> <new> ...]"""
import difflib, os, sys
kind, name, props, expect, desc = sys.argv[1:6]
rest = sys.argv[6:]
out = ["# property: %s\n" % props, "# expect: %s\n" % expect, "# desc: %s\n" % desc]
for i in range(0, len(rest), 3):
    f, old, new = rest[i:i+3]
    src = open(os.path.join("/repo", f)).read()
    if src.count(old) < 1:
        sys.exit("old text not found in %s: %r" % (f, old[:60]))
    dst = src.replace(old, new, 1)
    out += list(difflib.unified_diff(src.splitlines(True), dst.splitlines(True), "a/" + f, "b/" + f))
p = os.path.join(os.path.dirname(os.path.abspath(__file__)), kind, name + ".patch")
open(p, "w").write("".join(out))
print("wrote", p)
