#!/bin/bash
# Behaviour-preserving edits: every check must stay silent on each of them.
set -e
cd "$(dirname "$0")"
B() { n=$1; shift; ./mk.py benign "$n" all '' "$@" >/dev/null || echo "FAILED to build $n"; }

B b01_rename_local 'rename a local in backup()' src/backup.rs \
'    let band = Band::create(archive).await?;
    let index_writer = band.index_writer(monitor.clone());' \
'    let new_band = Band::create(archive).await?;
    let index_writer = new_band.index_writer(monitor.clone());' \
src/backup.rs '    let mut writer = BackupWriter {
        band,' '    let mut writer = BackupWriter {
        band: new_band,'
B b02_flush_local_buffer 'bind the frozen buffer to a local before storing it' src/backup.rs \
'        let hash = self
            .block_dir
            .store_or_deduplicate(take(&mut self.buf).freeze(), &mut self.stats, monitor)
            .await?;' \
'        let block = take(&mut self.buf).freeze();
        let hash = self
            .block_dir
            .store_or_deduplicate(block, &mut self.stats, monitor)
            .await?;'
B b03_iflet_to_match 'if let Err -> match in restore()' src/restore.rs \
'                if let Err(err) = restore_symlink(&path, &entry) {
                    monitor.error(err);
                    continue;
                }' \
'                match restore_symlink(&path, &entry) {
                    Ok(()) => {}
                    Err(err) => {
                        monitor.error(err);
                        continue;
                    }
                }'
B b04_more_logging 'extra debug logging in delete_bands' src/archive.rs \
'        if !options.dry_run {
            gc_lock.check().await?;' \
'        debug!(dry_run = options.dry_run, "Planning done");
        if !options.dry_run {
            debug!("Re-checking the lock");
            gc_lock.check().await?;
            debug!("Lock still valid");'
B b05_reorder_stats 'reorder independent statistics updates' src/blockdir.rs \
'        stats.written_blocks += 1;
        stats.uncompressed_bytes += uncomp_len;
        stats.compressed_bytes += comp_len;' \
'        stats.compressed_bytes += comp_len;
        stats.uncompressed_bytes += uncomp_len;
        stats.written_blocks += 1;'
B b06_restore_file_locals 'introduce locals for mode and owner in restore_file' src/restore.rs \
'    if let Err(source) = source_entry.owner().set_owner(&path) {' \
'    let owner = source_entry.owner();
    if let Err(source) = owner.set_owner(&path) {' \
src/restore.rs '    if let Err(source) = source_entry.unix_mode().set_permissions(&path) {' \
'    let mode = source_entry.unix_mode();
    if let Err(source) = mode.set_permissions(&path) {'
B b07_tail_local 'build the Tail in a local' src/band.rs \
'        write_json(
            &self.transport,
            BAND_TAIL_FILENAME,
            &Tail {
                end_time: Timestamp::now().as_second(),
                index_hunk_count: Some(index_hunk_count),
            },
        )' \
'        let tail = Tail {
            end_time: Timestamp::now().as_second(),
            index_hunk_count: Some(index_hunk_count),
        };
        write_json(&self.transport, BAND_TAIL_FILENAME, &tail)'
B b08_stitch_filter_inverted_form 'positive form of the stitch filter' src/index/stitch.rs \
'                        if !self.subtree.is_prefix_of(&entry.apath)
                            || self.exclude.matches(&entry.apath)
                        {
                            continue;
                        } else {
                            return Some(entry);
                        }' \
'                        if self.subtree.is_prefix_of(&entry.apath)
                            && !self.exclude.matches(&entry.apath)
                        {
                            return Some(entry);
                        } else {
                            continue;
                        }'
B b09_unchanged_local 'bind the heuristic result to a local' src/backup.rs \
'            if content_heuristically_unchanged(source_entry, basis_entry) {' \
'            let looks_unchanged = content_heuristically_unchanged(source_entry, basis_entry);
            if looks_unchanged {'
B b10_question_to_match 'explicit match instead of ? on the hunk write' src/index/write.rs \
'        self.transport
            .write(&relpath, &compressed_bytes, WriteMode::CreateNew)
            .await?;' \
'        match self
            .transport
            .write(&relpath, &compressed_bytes, WriteMode::CreateNew)
            .await
        {
            Ok(()) => {}
            Err(err) => return Err(err.into()),
        }'
B b11_create_match 'explicit match around Band::create' src/backup.rs \
'    let band = Band::create(archive).await?;' \
'    let band = match Band::create(archive).await {
        Ok(band) => band,
        Err(err) => return Err(err),
    };'
B b12_prefix_get 'is_prefix_of with as_bytes().get()' src/apath.rs \
"                    && (self.0.ends_with('/') || a.0.as_bytes()[len] == b'/')" \
"                    && (self.0.ends_with('/') || a.0.as_bytes().get(len) == Some(&b'/'))"
B b13_lock_probe_local 'bind the lock probe to a local' src/gc_lock.rs \
'        if archive.transport().is_file(GC_LOCK).await.unwrap_or(true) {
            return Err(Error::GarbageCollectionLockHeld);
        }' \
'        let locked = archive.transport().is_file(GC_LOCK).await.unwrap_or(true);
        if locked {
            return Err(Error::GarbageCollectionLockHeld);
        }'
B b14_hunk_relpath_via_subdir 'hunk_relpath reuses subdir_relpath' src/index/mod.rs \
'    format!("{:05}/{:09}", hunk_number / HUNKS_PER_SUBDIR, hunk_number)' \
'    format!("{}/{:09}", subdir_relpath(hunk_number), hunk_number)'
B b15_validate_branches_swapped 'swap the order of the if/else in validate step 3b' src/archive.rs \
'                if let Some(&actual_len) = block_lengths.get(&hash) {
                    if referenced_len > actual_len as u64 {
                        monitor.error(Error::BlockTooShort {
                            hash: hash.clone(),
                            actual_len,
                            referenced_len: referenced_len as usize,
                        });
                    }
                } else {
                    monitor.error(Error::BlockMissing { hash: hash.clone() })
                }' \
'                match block_lengths.get(&hash) {
                    None => monitor.error(Error::BlockMissing { hash: hash.clone() }),
                    Some(&actual_len) => {
                        if referenced_len > actual_len as u64 {
                            monitor.error(Error::BlockTooShort {
                                hash: hash.clone(),
                                actual_len,
                                referenced_len: referenced_len as usize,
                            });
                        }
                    }
                }'
B b16_merge_mem_take 'mem::take instead of Option::take in the merge' src/merge.rs \
'                Ordering::Less => Some(MatchedEntries::Left(self.next_a.take().unwrap())),' \
'                Ordering::Less => Some(MatchedEntries::Left(
                    std::mem::take(&mut self.next_a).unwrap(),
                )),'
B b17_drain_explicit 'drain returns through locals' src/backup.rs \
'        Ok((
            std::mem::take(&mut self.stats),
            std::mem::take(&mut self.finished),
        ))' \
'        let stats = std::mem::take(&mut self.stats);
        let finished = std::mem::take(&mut self.finished);
        Ok((stats, finished))'
B b18_delete_block_order 'delete_block: remove from caches after computing the path' src/blockdir.rs \
'        self.cache.write().expect("Lock cache").pop(hash);
        self.exists.write().unwrap().remove(hash);
        self.transport
            .remove_file(&block_relpath(hash))' \
'        let relpath = block_relpath(hash);
        self.cache.write().expect("Lock cache").pop(hash);
        self.exists.write().unwrap().remove(hash);
        self.transport
            .remove_file(&relpath)'
B b19_referenced_blocks_extend 'referenced_blocks collects with extend' src/archive.rs \
'                for addr in hunk.into_iter().flat_map(|entry| entry.addrs) {
                    blocks.insert(addr.hash);
                    task.increment(1);
                }' \
'                for entry in hunk {
                    for addr in entry.addrs {
                        blocks.insert(addr.hash);
                        task.increment(1);
                    }
                }'
B b20_copy_entry_early_owner 'copy_entry: clear owner through a helper closure' src/backup.rs \
'        if !options.owner {
            source_entry.owner.clear();
        }' \
'        let keep_owner = options.owner;
        if !keep_owner {
            source_entry.owner.clear();
        }'
B b21_visit_dir_sort_by_key 'children sorted with sort_by on the name' src/source.rs \
'        children.sort_unstable_by(|a, b| a.0.cmp(&b.0));' \
'        children.sort_by(|a, b| a.0.cmp(&b.0));'
B b22_restore_symlink_match 'restore_symlink: let-else on the target' src/restore.rs \
'    if let Some(ref target) = entry.symlink_target() {
        if let Err(source) = unix_fs::symlink(target, path) {' \
'    if let Some(target) = entry.symlink_target() {
        if let Err(source) = unix_fs::symlink(target, path) {'
B b23_store_file_content_len_first 'compute len before freezing' src/backup.rs \
'        let buffer = buffer.freeze();
        monitor.count(Counter::FileBytes, buffer.len());
        let len = buffer.len() as u64;' \
'        let buffer = buffer.freeze();
        let len = buffer.len() as u64;
        monitor.count(Counter::FileBytes, buffer.len());'
B b24_lock_release_inspect 'release: log with inspect_err then convert' src/gc_lock.rs \
'            .map_err(|err| {
                error!(?err, "Failed to delete GC lock");
                Error::from(err)
            })?;' \
'            .inspect_err(|err| error!(?err, "Failed to delete GC lock"))
            .map_err(Error::from)?;'

# ---- heavier refactors: a step extracted into a private helper
B b25_flush_store_helper 'FileCombiner::flush stores the block through a helper' src/backup.rs \
'        let hash = self
            .block_dir
            .store_or_deduplicate(take(&mut self.buf).freeze(), &mut self.stats, monitor)
            .await?;
        self.stats.combined_blocks += 1;' \
'        let hash = self.store_combined_block(monitor).await?;
        self.stats.combined_blocks += 1;' \
src/backup.rs \
'    /// Add the contents of a small file into this combiner.' \
'    /// Store the combine buffer as one block, leaving the buffer empty.
    async fn store_combined_block(&mut self, monitor: Arc<dyn Monitor>) -> Result<BlockHash> {
        let block = take(&mut self.buf).freeze();
        self.block_dir
            .store_or_deduplicate(block, &mut self.stats, monitor)
            .await
    }

    /// Add the contents of a small file into this combiner.'
B b26_finish_close_helper 'BackupWriter::finish closes the band through a helper' src/backup.rs \
'        let hunks = self.index_writer.finish().await?;
        trace!(?hunks, "Closing band");
        self.band.close(hunks as u64).await?;
        Ok(BackupStats { ..self.stats })' \
'        let hunks = self.index_writer.finish().await?;
        trace!(?hunks, "Closing band");
        write_tail(&self.band, hunks).await?;
        Ok(BackupStats { ..self.stats })' \
src/backup.rs \
'async fn store_file_content(' \
'/// Mark the band complete, recording how many index hunks it has.
async fn write_tail(band: &Band, hunks: usize) -> Result<()> {
    band.close(hunks as u64).await
}

async fn store_file_content('
B b27_restore_metadata_helper 'restore_file applies owner and mode through a helper' src/restore.rs \
'    // Restore ownership if possible. This must come before the permissions,
    // because changing the owner clears any setuid and setgid bits.
    // TODO: Stats and warnings if a user or group is specified in the index but
    // does not exist on the local system.
    if let Err(source) = source_entry.owner().set_owner(&path) {
        monitor.error(Error::RestoreOwnership {
            path: path.clone(),
            source,
        });
    }

    // Restore permissions only if there are mode bits stored in the archive
    if let Err(source) = source_entry.unix_mode().set_permissions(&path) {
        monitor.error(Error::RestorePermissions {
            path: path.clone(),
            source,
        });
    }' \
'    apply_owner_and_mode(&path, source_entry, monitor.as_ref());' \
src/restore.rs \
'#[cfg(unix)]
fn restore_symlink(' \
'/// Apply ownership, then permissions (changing the owner clears setuid and setgid bits).
fn apply_owner_and_mode(path: &Path, entry: &IndexEntry, monitor: &dyn Monitor) {
    if let Err(source) = entry.owner().set_owner(path) {
        monitor.error(Error::RestoreOwnership {
            path: path.to_owned(),
            source,
        });
    }
    if let Err(source) = entry.unix_mode().set_permissions(path) {
        monitor.error(Error::RestorePermissions {
            path: path.to_owned(),
            source,
        });
    }
}

#[cfg(unix)]
fn restore_symlink('
B b28_store_write_helper 'store_or_deduplicate writes the block file through a helper' src/blockdir.rs \
'        self.transport.create_dir(subdir_relpath(&hex_hash)).await?;
        match self
            .transport
            .write(&relpath, &compressed, WriteMode::CreateNew)
            .await
        {' \
'        match self.write_block_file(&hex_hash, &relpath, &compressed).await {' \
src/blockdir.rs \
'    /// True if the named block is present and apparently in this blockdir.' \
'    /// Create the prefix directory and write one compressed block file.
    async fn write_block_file(
        &self,
        hex_hash: &str,
        relpath: &str,
        compressed: &[u8],
    ) -> std::result::Result<(), transport::Error> {
        self.transport.create_dir(subdir_relpath(hex_hash)).await?;
        self.transport
            .write(relpath, compressed, WriteMode::CreateNew)
            .await
    }

    /// True if the named block is present and apparently in this blockdir.'
B b29_delete_loops_helper 'delete_bands removes the bands through a helper' src/archive.rs \
'            for band_id in delete_band_ids.iter() {
                Band::delete(self, *band_id).await?;
                stats.deleted_band_count += 1;
                task.increment(1);
            }' \
'            for band_id in delete_band_ids.iter() {
                self.delete_one_band(*band_id).await?;
                stats.deleted_band_count += 1;
                task.increment(1);
            }' \
src/archive.rs \
'    /// Walk the archive to check all invariants.' \
'    async fn delete_one_band(&self, band_id: BandId) -> Result<()> {
        Band::delete(self, band_id).await
    }

    /// Walk the archive to check all invariants.'
B b30_build_glob_helper 'add_pattern builds both globs through a helper' src/excludes.rs \
'    gsb.add(
        GlobBuilder::new(&pattern)
            .literal_separator(true)
            .build()
            .map_err(|source| Error::ParseGlob { source })?,
    );
    gsb.add(
        GlobBuilder::new(&format!("{pattern}/**"))
            .literal_separator(true)
            .build()
            .map_err(|source| Error::ParseGlob { source })?,
    );
    Ok(())
}' \
'    gsb.add(build_glob(&pattern)?);
    gsb.add(build_glob(&format!("{pattern}/**"))?);
    Ok(())
}

fn build_glob(pattern: &str) -> Result<globset::Glob> {
    GlobBuilder::new(pattern)
        .literal_separator(true)
        .build()
        .map_err(|source| Error::ParseGlob { source })
}'
B b31_append_content_helper 'push_file reads the file into the buffer through a helper' src/backup.rs \
'        self.buf.resize(start + expected_len, 0);
        let len =
            from_file
                .read(&mut self.buf[start..])
                .map_err(|source| Error::ReadSourceFile {
                    path: entry.apath.to_string().into(),
                    source,
                })?;
        self.buf.truncate(start + len);' \
'        let len = self.append_content(entry, from_file, expected_len)?;' \
src/backup.rs \
'/// True if the metadata supports an assumption the file contents have' \
'impl FileCombiner {
    /// Read up to `expected_len` bytes onto the end of the combine buffer; returns the bytes read.
    fn append_content(
        &mut self,
        entry: &source::Entry,
        from_file: &mut dyn Read,
        expected_len: usize,
    ) -> Result<usize> {
        let old_len = self.buf.len();
        self.buf.resize(old_len + expected_len, 0);
        let len = from_file
            .read(&mut self.buf[old_len..])
            .map_err(|source| Error::ReadSourceFile {
                path: entry.apath.to_string().into(),
                source,
            })?;
        self.buf.truncate(old_len + len);
        Ok(len)
    }
}

/// True if the metadata supports an assumption the file contents have'
B b32_symlink_times_helper 'restore_symlink sets the link times through a helper' src/restore.rs \
'        let mtime = entry.mtime().to_file_time();
        if let Err(source) = set_symlink_file_times(path, mtime, mtime) {
            return Err(Error::RestoreModificationTime {
                path: path.to_owned(),
                source,
            });
        }
    } else {' \
'        set_link_mtime(path, entry)?;
    } else {' \
src/restore.rs \
'#[cfg(not(unix))]
#[mutants::skip]
fn restore_symlink(' \
'#[cfg(unix)]
fn set_link_mtime(path: &Path, entry: &IndexEntry) -> Result<()> {
    let mtime = entry.mtime().to_file_time();
    set_symlink_file_times(path, mtime, mtime).map_err(|source| Error::RestoreModificationTime {
        path: path.to_owned(),
        source,
    })
}

#[cfg(not(unix))]
#[mutants::skip]
fn restore_symlink('
B b33_band_close_helper 'Band::close writes the tail through a helper' src/band.rs \
'    pub async fn close(&self, index_hunk_count: u64) -> Result<()> {
        write_json(
            &self.transport,
            BAND_TAIL_FILENAME,
            &Tail {
                end_time: Timestamp::now().as_second(),
                index_hunk_count: Some(index_hunk_count),
            },
        )
        .await
        .map_err(Error::from)
    }' \
'    pub async fn close(&self, index_hunk_count: u64) -> Result<()> {
        let tail = Tail {
            end_time: Timestamp::now().as_second(),
            index_hunk_count: Some(index_hunk_count),
        };
        self.put_tail(&tail).await
    }

    async fn put_tail(&self, tail: &Tail) -> Result<()> {
        write_json(&self.transport, BAND_TAIL_FILENAME, tail)
            .await
            .map_err(Error::from)
    }'
B b34_write_hunk_helper 'finish_hunk writes the hunk file through a helper' src/index/write.rs \
'        if (self.sequence % HUNKS_PER_SUBDIR) == 0 {
            self.transport
                .create_dir(&subdir_relpath(self.sequence))
                .await?;
        }
        let compressed_bytes = self.compressor.compress(&json)?;
        self.transport
            .write(&relpath, &compressed_bytes, WriteMode::CreateNew)
            .await?;
        self.hunks_written += 1;' \
'        let compressed_bytes = self.compressor.compress(&json)?;
        self.put_hunk(&relpath, &compressed_bytes).await?;
        self.hunks_written += 1;' \
src/index/write.rs \
'        self.entries.clear(); // Ready for the next hunk.
        self.sequence += 1;
        Ok(())
    }' \
'        self.entries.clear(); // Ready for the next hunk.
        self.sequence += 1;
        Ok(())
    }

    async fn put_hunk(&self, relpath: &str, compressed_bytes: &[u8]) -> Result<()> {
        if (self.sequence % HUNKS_PER_SUBDIR) == 0 {
            self.transport
                .create_dir(&subdir_relpath(self.sequence))
                .await?;
        }
        self.transport
            .write(relpath, compressed_bytes, WriteMode::CreateNew)
            .await?;
        Ok(())
    }'
B b35_dir_empty_map 'directory_is_empty written with Result::map' src/io.rs \
'    Ok(std::fs::read_dir(path)?.next().is_none())' \
'    std::fs::read_dir(path).map(|mut entries| entries.next().is_none())'
B b36_hunks_available_loop 'hunks_available collects with explicit loops' src/index/mod.rs \
'            hunks.extend(
                entries
                    .into_iter()
                    .filter(|entry| entry.is_file())
                    .filter_map(|entry| entry.name.parse::<u32>().ok())
                    .sorted(),
            )' \
'            let mut in_dir = Vec::new();
            for entry in entries {
                if !entry.is_file() {
                    continue;
                }
                if let Ok(number) = entry.name.parse::<u32>() {
                    in_dir.push(number);
                }
            }
            in_dir.sort_unstable();
            hunks.extend(in_dir)'
B b37_nanos_rem_euclid 'unix_seconds_and_nanos written with div_euclid / rem_euclid' src/unix_time.rs \
'    let mut seconds = t.as_second();
    let mut nanos = t.subsec_nanosecond();
    if nanos < 0 {
        seconds -= 1;
        nanos += 1_000_000_000;
    }
    (seconds, nanos.unsigned_abs())' \
'    let total = t.as_nanosecond();
    let seconds = total.div_euclid(1_000_000_000) as i64;
    let nanos = total.rem_euclid(1_000_000_000) as u32;
    (seconds, nanos)'
B b38_refs_hunks_local 'referenced_blocks binds the hunk list to a local' src/archive.rs \
'            for hunk_number in index.hunks_available().await? {' \
'            let hunk_numbers = index.hunks_available().await?;
            for hunk_number in hunk_numbers {'
B b39_validate_reports_order 'validate reports out-of-order entries through the monitor (no panic)' src/validate.rs \
'    while let Some(entry) = stitch.next().await {
        if entry.kind() == Kind::File {' \
'    let mut last_apath: Option<Apath> = None;
    while let Some(entry) = stitch.next().await {
        if let Some(last) = &last_apath {
            if last >= entry.apath() {
                monitor.error(Error::InvalidMetadata {
                    details: format!("Index entries out of order: {last:?} then {:?}", entry.apath()),
                });
            }
        }
        last_apath = Some(entry.apath().clone());
        if entry.kind() == Kind::File {'
B b40_empty_file_inline 'the zero-length test is written inline in Protocol::write' src/transport/local.rs \
'                    && is_empty_file(&full_path).await =>' \
'                    && tokio::fs::metadata(&full_path)
                        .await
                        .is_ok_and(|m| m.is_file() && m.len() == 0) =>'
B b41_is_valid_pattern_scan 'is_valid as a complete pattern scan' src/apath.rs \
'        for part in a[1..].split('"'"'/'"'"') {
            if part.is_empty() || part == "." || part == ".." || part.contains('"'"'\0'"'"') {
                return false;
            }
        }
        true' \
'        !(a.ends_with('"'"'/'"'"')
            || a.contains("//")
            || a.contains("/./")
            || a.ends_with("/.")
            || a.contains("/../")
            || a.ends_with("/..")
            || a.contains('"'"'\0'"'"'))'
B b42_nanos_tuple_form 'unix_seconds_and_nanos returns tuples from an if/else on the sign of the fraction' src/unix_time.rs \
'    let mut seconds = t.as_second();
    let mut nanos = t.subsec_nanosecond();
    if nanos < 0 {
        seconds -= 1;
        nanos += 1_000_000_000;
    }
    (seconds, nanos.unsigned_abs())' \
'    let seconds = t.as_second();
    let nanos = t.subsec_nanosecond();
    if nanos < 0 {
        (seconds - 1, (nanos + 1_000_000_000).unsigned_abs())
    } else {
        (seconds, nanos.unsigned_abs())
    }'
B b43_refs_crosscheck_count 'referenced_blocks cross-checks the listing against the recorded count' src/archive.rs \
'            for hunk_number in index.hunks_available().await? {' \
'            let hunk_numbers = index.hunks_available().await?;
            if let Some(count) = band.get_info().await?.index_hunk_count {
                if hunk_numbers.len() as u64 != count {
                    return Err(Error::InvalidMetadata {
                        details: format!("{band_id} has {} hunks but its tail says {count}", hunk_numbers.len()),
                    });
                }
            }
            for hunk_number in hunk_numbers {'
B b44_stitch_retain_after_last 'the stitcher filters a hunk to the subtree once, after recording its last path' src/index/stitch.rs \
'                        if !self.subtree.is_prefix_of(&entry.apath)
                            || self.exclude.matches(&entry.apath)
                        {
                            continue;' \
'                        if self.exclude.matches(&entry.apath) {
                            continue;' \
src/index/stitch.rs \
'                        let hunk = match hunk {
                            Ok(hunk) => hunk,' \
'                        let mut hunk = match hunk {
                            Ok(hunk) => hunk,' \
src/index/stitch.rs \
'                        *buffered_entries = hunk.into_iter().peekable();' \
'                        hunk.retain(|entry| self.subtree.is_prefix_of(&entry.apath));
                        *buffered_entries = hunk.into_iter().peekable();'
