#!/usr/bin/env python3
"""Checker self-validation.

mutants/*.patch : source edits that break a property while still compiling; the named
                  check must exit 1 and report a violation key matching `# expect:`.
benign/*.patch  : behaviour-preserving edits; every check must stay silent.
Each patch is applied to a scratch copy of /repo outside /repo and /verif, analysed with the
same driver, and the copy is deleted.  A patch that no longer applies is skipped and recorded.

usage: selftest/run.py [--only REGEX] [--kind mutants|benign|all] [--keep]
"""
import argparse
import json
import os
import re
import shutil
import subprocess
import sys
import time

HERE = os.path.dirname(os.path.abspath(__file__))
VERIF = os.path.dirname(HERE)
REPO = os.environ.get("CV_BASE_REPO", "/repo")
SCRATCH_ROOT = os.environ.get("CV_SCRATCH", "/tmp/cv-selftest")
ALL = ["C%02d" % i for i in range(1, 19)]


def header(path):
    h = {}
    for line in open(path):
        if not line.startswith("#"):
            break
        m = re.match(r"#\s*(\w+):\s*(.*)", line)
        if m:
            h[m.group(1)] = m.group(2).strip()
    return h


def make_scratch(name):
    d = os.path.join(SCRATCH_ROOT, name)
    shutil.rmtree(d, ignore_errors=True)
    os.makedirs(d)
    for item in ("src", "Cargo.toml", "Cargo.lock", "doc"):
        src = os.path.join(REPO, item)
        if os.path.isdir(src):
            shutil.copytree(src, os.path.join(d, item))
        elif os.path.exists(src):
            shutil.copy2(src, os.path.join(d, item))
    return d


def run_check(pid, scratch):
    env = dict(os.environ, CV_REPO=scratch, CV_EVIDENCE_DIR=os.path.join(scratch, "evidence"))
    r = subprocess.run([os.path.join(VERIF, "check"), pid, "--tier", "quick"], cwd=VERIF, env=env,
                       stdout=subprocess.PIPE, stderr=subprocess.STDOUT, text=True)
    keys = re.findall(r"^  violation: (.*)$", r.stdout, re.M)
    return r.returncode, keys, r.stdout


def main():
    ap = argparse.ArgumentParser()
    ap.add_argument("--only", default=None)
    ap.add_argument("--kind", default="all")
    ap.add_argument("--keep", action="store_true")
    a = ap.parse_args()
    results = []
    kinds = ["mutants", "benign"] if a.kind == "all" else [a.kind]
    failures = 0
    for kind in kinds:
        d = os.path.join(HERE, kind)
        for fn in sorted(os.listdir(d)):
            if not fn.endswith(".patch"):
                continue
            if a.only and not re.search(a.only, fn):
                continue
            path = os.path.join(d, fn)
            h = header(path)
            name = fn[:-6]
            t0 = time.time()
            scratch = make_scratch(name)
            r = subprocess.run(["patch", "-p1", "-s", "--no-backup-if-mismatch", "-i", path], cwd=scratch,
                               stdout=subprocess.PIPE, stderr=subprocess.STDOUT, text=True)
            rec = {"name": name, "kind": kind, "properties": h.get("property", ""), "expect": h.get("expect", "")}
            if r.returncode != 0:
                rec["status"] = "skipped (patch does not apply)"
                print("SKIP  %-40s patch does not apply: %s" % (name, r.stdout.strip()[:100]))
                results.append(rec)
                shutil.rmtree(scratch, ignore_errors=True)
                continue
            props = ALL if h.get("property", "all") == "all" else [p.strip() for p in h["property"].split(",")]
            if os.environ.get("CV_ONLY_PROPS") and kind != "mutants":
                props = [p_ for p_ in props if p_ in os.environ["CV_ONLY_PROPS"].split(",")] or props[:1]
            ok = True
            detail = []
            # the first check extracts the facts; the others then run in parallel on the cached facts
            outcomes = {}
            outcomes[props[0]] = run_check(props[0], scratch)
            if len(props) > 1:
                from concurrent.futures import ThreadPoolExecutor
                with ThreadPoolExecutor(max_workers=12) as ex:
                    for pid, r_ in zip(props[1:], ex.map(lambda q: run_check(q, scratch), props[1:])):
                        outcomes[pid] = r_
            for pid in props:
                code, keys, out = outcomes[pid]
                if "facts can be extracted" in out and "FAIL" in out and "extract" in out:
                    ok = False
                    detail.append("%s: does not compile" % pid)
                    print(out[-1500:])
                    break
                if kind == "mutants":
                    rx = re.compile(h.get("expect", "."))
                    hit = [k for k in keys if rx.search(k)]
                    if code != 1 or not hit:
                        ok = False
                        detail.append("%s: exit=%d keys=%s" % (pid, code, keys))
                    else:
                        detail.append("%s: caught: %s" % (pid, hit[0]))
                else:
                    if code != 0:
                        ok = False
                        detail.append("%s: false alarm: %s" % (pid, keys))
            rec["status"] = "ok" if ok else "FAILED"
            rec["detail"] = detail
            rec["wall_s"] = round(time.time() - t0, 1)
            results.append(rec)
            print("%-5s %-40s %s" % ("ok" if ok else "FAIL", name, "; ".join(detail)[:200]))
            if not ok:
                failures += 1
            if not a.keep:
                shutil.rmtree(scratch, ignore_errors=True)
    shutil.rmtree(SCRATCH_ROOT, ignore_errors=True) if not a.keep else None
    with open(os.path.join(HERE, "last_run.json"), "w") as f:
        json.dump(results, f, indent=1)
    print("%d patch(es), %d failed" % (len(results), failures))
    sys.exit(1 if failures else 0)


if __name__ == "__main__":
    main()
